//! System-call traces (strace) of a store process, a small file-system simulator with per-inode
//! "durable" snapshots, and crash images.
//!
//! Persistence models (property C02):
//!  (a) process crash: every completed call persists;
//!  (b) additionally any file bytes written after that file's last successful fsync/fdatasync are
//!      lost (the file reverts to its content at that sync; a file never synced is empty).
//! Directory operations (create, link, rename, unlink, mkdir, rmdir) are taken to be durable at once
//! and in program order in both models (the code never fsyncs a directory) — a stated assumption.
use std::collections::BTreeMap;

#[derive(Clone, Debug)]
pub enum FsOp {
    /// open with O_CREAT (file did not exist before): creates the directory entry
    Create { path: String, excl: bool },
    /// open with O_TRUNC of an existing file
    Truncate { path: String },
    /// bytes written at the end / at the fd's offset
    Write { path: String, data: Vec<u8>, append: bool, offset: Option<u64> },
    Sync { path: String },
    Link { from: String, to: String },
    Rename { from: String, to: String },
    Unlink { path: String },
    Mkdir { path: String },
    Rmdir { path: String },
    /// marker written by the traced process (client op begin / ack)
    Mark { text: String },
    /// a system call on a path below the root that strace made fail (`-e inject=…`)
    Fault { call: String, path: String },
}

impl FsOp {
    pub fn mutating(&self) -> bool {
        !matches!(self, FsOp::Mark { .. } | FsOp::Fault { .. })
    }
}

fn unescape(s: &str) -> Vec<u8> {
    // strace -xx: every byte as \xNN
    let b = s.as_bytes();
    let mut out = Vec::with_capacity(b.len() / 4);
    let mut i = 0;
    while i < b.len() {
        if b[i] == b'\\' && i + 3 < b.len() && b[i + 1] == b'x' {
            let h = std::str::from_utf8(&b[i + 2..i + 4]).unwrap_or("00");
            out.push(u8::from_str_radix(h, 16).unwrap_or(0));
            i += 4;
        } else {
            out.push(b[i]);
            i += 1;
        }
    }
    out
}

fn unescape_str(s: &str) -> String {
    String::from_utf8_lossy(&unescape(s)).to_string()
}

/// split the argument list at top-level commas (quotes and <...> annotations respected)
fn split_args(s: &str) -> Vec<String> {
    let mut out = vec![];
    let mut cur = String::new();
    let mut in_q = false;
    let mut depth = 0;
    let mut prev = ' ';
    for c in s.chars() {
        match c {
            '"' if prev != '\\' => {
                in_q = !in_q;
                cur.push(c);
            }
            '<' | '{' | '[' if !in_q => {
                depth += 1;
                cur.push(c);
            }
            '>' | '}' | ']' if !in_q => {
                depth -= 1;
                cur.push(c);
            }
            ',' if !in_q && depth == 0 => {
                out.push(cur.trim().to_string());
                cur.clear();
            }
            _ => cur.push(c),
        }
        prev = c;
    }
    if !cur.trim().is_empty() {
        out.push(cur.trim().to_string());
    }
    out
}

/// `5</path>` -> path ; `AT_FDCWD</cwd>` -> cwd
fn fd_path(arg: &str) -> Option<String> {
    let i = arg.find('<')?;
    let j = arg.rfind('>')?;
    Some(unescape_str(&arg[i + 1..j]))
}

fn quoted(arg: &str) -> Option<Vec<u8>> {
    let i = arg.find('"')?;
    let j = arg.rfind('"')?;
    if j <= i {
        return None;
    }
    Some(unescape(&arg[i + 1..j]))
}

fn join(dir: &str, p: &str) -> String {
    if p.starts_with('/') {
        p.to_string()
    } else {
        format!("{}/{}", dir.trim_end_matches('/'), p)
    }
}

/// Parse an strace log (`-f -xx -y`, `-o file`) into file-system operations on paths below `root`
/// (made relative to it) plus the markers the traced process wrote to `marker_fd_path`.
/// Only successful calls are kept.
pub fn parse(text: &str, root: &str, marker_path: &str) -> Vec<FsOp> {
    let mut ops = vec![];
    let mut existed: std::collections::BTreeSet<String> = Default::default();
    let mut append_fd: BTreeMap<String, bool> = BTreeMap::new(); // path -> opened O_APPEND
    let rel = |p: &str| -> Option<String> {
        let r = root.trim_end_matches('/');
        if p == r {
            Some(String::new())
        } else {
            p.strip_prefix(&format!("{}/", r)).map(|x| x.to_string())
        }
    };
    for line in text.lines() {
        // "<pid>  name(args) = ret ..."
        let line = line.trim_start();
        let line = match line.find(' ') {
            Some(i) if line[..i].chars().all(|c| c.is_ascii_digit()) => line[i..].trim_start(),
            _ => line,
        };
        let Some(p) = line.find('(') else { continue };
        let name = &line[..p];
        let Some(eq) = line.rfind(") = ") else { continue };
        let args = split_args(&line[p + 1..eq]);
        let ret = line[eq + 4..].trim();
        if ret.contains("(INJECTED)") {
            // which path: first fd annotation or quoted path
            let path = args.first().and_then(|a| fd_path(a)).filter(|p| !p.is_empty() && !args[0].starts_with("AT_FDCWD")).or_else(|| args.iter().find_map(|a| quoted(a)).map(|b| String::from_utf8_lossy(&b).to_string())).unwrap_or_default();
            ops.push(FsOp::Fault { call: name.to_string(), path: rel(&path).unwrap_or(path) });
            continue;
        }
        if ret.starts_with('-') || ret.starts_with('?') {
            continue;
        }
        match name {
            "openat" | "open" | "creat" => {
                let (dir, pathi, flagsi) = if name == "openat" { (fd_path(&args[0]).unwrap_or_default(), 1, 2) } else { (String::new(), 0, 1) };
                let Some(pb) = args.get(pathi).and_then(|a| quoted(a)) else { continue };
                let path = join(&dir, &String::from_utf8_lossy(&pb));
                let flags = if name == "creat" { "O_CREAT|O_WRONLY|O_TRUNC".to_string() } else { args.get(flagsi).cloned().unwrap_or_default() };
                let Some(r) = rel(&path) else { continue };
                if flags.contains("O_DIRECTORY") {
                    continue;
                }
                append_fd.insert(r.clone(), flags.contains("O_APPEND"));
                if flags.contains("O_CREAT") && !existed.contains(&r) {
                    existed.insert(r.clone());
                    ops.push(FsOp::Create { path: r.clone(), excl: flags.contains("O_EXCL") });
                } else if flags.contains("O_TRUNC") && (flags.contains("O_WRONLY") || flags.contains("O_RDWR")) {
                    ops.push(FsOp::Truncate { path: r.clone() });
                }
            }
            "write" | "pwrite64" => {
                let Some(path) = fd_path(&args[0]) else { continue };
                let Some(data) = args.get(1).and_then(|a| quoted(a)) else { continue };
                let n: usize = ret.split_whitespace().next().and_then(|x| x.parse().ok()).unwrap_or(data.len());
                let data = data[..n.min(data.len())].to_vec();
                if path == marker_path {
                    let t = String::from_utf8_lossy(&data).to_string();
                    for l in t.lines() {
                        if let Some(m) = l.strip_prefix("MARK ") {
                            ops.push(FsOp::Mark { text: m.to_string() });
                        }
                    }
                    continue;
                }
                let Some(r) = rel(&path) else { continue };
                let offset = if name == "pwrite64" { args.get(3).and_then(|x| x.parse().ok()) } else { None };
                let append = *append_fd.get(&r).unwrap_or(&false);
                ops.push(FsOp::Write { path: r, data, append, offset });
            }
            "fsync" | "fdatasync" => {
                let Some(path) = fd_path(&args[0]) else { continue };
                let Some(r) = rel(&path) else { continue };
                ops.push(FsOp::Sync { path: r });
            }
            "link" | "linkat" | "rename" | "renameat" | "renameat2" => {
                let (a, b) = if name == "link" || name == "rename" {
                    (quoted(&args[0]).map(|p| String::from_utf8_lossy(&p).to_string()), quoted(&args[1]).map(|p| String::from_utf8_lossy(&p).to_string()))
                } else {
                    let d1 = fd_path(&args[0]).unwrap_or_default();
                    let d2 = fd_path(&args[2]).unwrap_or_default();
                    (quoted(&args[1]).map(|p| join(&d1, &String::from_utf8_lossy(&p))), quoted(&args[3]).map(|p| join(&d2, &String::from_utf8_lossy(&p))))
                };
                let (Some(a), Some(b)) = (a, b) else { continue };
                let (Some(ra), Some(rb)) = (rel(&a), rel(&b)) else { continue };
                if name.starts_with("link") {
                    existed.insert(rb.clone());
                    ops.push(FsOp::Link { from: ra, to: rb });
                } else {
                    existed.remove(&ra);
                    existed.insert(rb.clone());
                    ops.push(FsOp::Rename { from: ra, to: rb });
                }
            }
            "unlink" | "unlinkat" | "rmdir" => {
                let (path, isdir) = if name == "unlinkat" {
                    let d = fd_path(&args[0]).unwrap_or_default();
                    (quoted(&args[1]).map(|p| join(&d, &String::from_utf8_lossy(&p))), args.get(2).map(|f| f.contains("AT_REMOVEDIR")).unwrap_or(false))
                } else {
                    (quoted(&args[0]).map(|p| String::from_utf8_lossy(&p).to_string()), name == "rmdir")
                };
                let Some(path) = path else { continue };
                let Some(r) = rel(&path) else { continue };
                existed.remove(&r);
                if isdir {
                    ops.push(FsOp::Rmdir { path: r });
                } else {
                    ops.push(FsOp::Unlink { path: r });
                }
            }
            "mkdir" | "mkdirat" => {
                let path = if name == "mkdirat" {
                    let d = fd_path(&args[0]).unwrap_or_default();
                    quoted(&args[1]).map(|p| join(&d, &String::from_utf8_lossy(&p)))
                } else {
                    quoted(&args[0]).map(|p| String::from_utf8_lossy(&p).to_string())
                };
                let Some(path) = path else { continue };
                let Some(r) = rel(&path) else { continue };
                ops.push(FsOp::Mkdir { path: r });
            }
            _ => {}
        }
    }
    ops
}

#[derive(Clone, Debug, Default)]
pub struct Inode {
    pub data: Vec<u8>,
    /// content at the last successful fsync/fdatasync (None: never synced)
    pub durable: Option<Vec<u8>>,
}

/// in-memory file system: directory entries -> inode numbers (hard links alias)
#[derive(Clone, Debug, Default)]
pub struct SimFs {
    pub dirs: std::collections::BTreeSet<String>,
    pub files: BTreeMap<String, usize>,
    pub inodes: Vec<Inode>,
}

impl SimFs {
    pub fn apply(&mut self, op: &FsOp) {
        match op {
            FsOp::Create { path, .. } => {
                if !self.files.contains_key(path) {
                    self.inodes.push(Inode::default());
                    self.files.insert(path.clone(), self.inodes.len() - 1);
                }
            }
            FsOp::Truncate { path } => {
                if let Some(&i) = self.files.get(path) {
                    self.inodes[i].data.clear();
                }
            }
            FsOp::Write { path, data, offset, .. } => {
                if let Some(&i) = self.files.get(path) {
                    match offset {
                        Some(o) => {
                            let o = *o as usize;
                            let d = &mut self.inodes[i].data;
                            if d.len() < o + data.len() {
                                d.resize(o + data.len(), 0);
                            }
                            d[o..o + data.len()].copy_from_slice(data);
                        }
                        // sequential writers (BufWriter over a fresh file) and O_APPEND both extend
                        None => self.inodes[i].data.extend_from_slice(data),
                    }
                }
            }
            FsOp::Sync { path } => {
                if let Some(&i) = self.files.get(path) {
                    self.inodes[i].durable = Some(self.inodes[i].data.clone());
                }
            }
            FsOp::Link { from, to } => {
                if let Some(&i) = self.files.get(from) {
                    self.files.insert(to.clone(), i);
                }
            }
            FsOp::Rename { from, to } => {
                if let Some(i) = self.files.remove(from) {
                    self.files.insert(to.clone(), i);
                } else if self.dirs.remove(from) {
                    self.dirs.insert(to.clone());
                }
            }
            FsOp::Unlink { path } => {
                self.files.remove(path);
            }
            FsOp::Mkdir { path } => {
                self.dirs.insert(path.clone());
            }
            FsOp::Rmdir { path } => {
                self.dirs.remove(path);
            }
            FsOp::Mark { .. } | FsOp::Fault { .. } => {}
        }
    }

    /// the file system a new process finds after a crash: under `model_b` every file reverts to
    /// its content at its last sync; whatever survived is durable from then on
    pub fn settled(&self, model_b: bool) -> SimFs {
        let mut out = self.clone();
        for ino in out.inodes.iter_mut() {
            if model_b {
                ino.data = ino.durable.clone().unwrap_or_default();
            }
            ino.durable = Some(ino.data.clone());
        }
        out
    }

    /// fingerprint of the image a crash would leave
    pub fn fingerprint(&self, model_b: bool) -> u64 {
        let mut hsh: u64 = 0xcbf29ce484222325;
        let fnv = |bs: &[u8]| -> u64 {
            let mut h: u64 = 0xcbf29ce484222325;
            for b in bs {
                h ^= *b as u64;
                h = h.wrapping_mul(0x100000001b3);
            }
            h
        };
        for (path, &i) in &self.files {
            hsh = hsh.wrapping_mul(0x100000001b3) ^ fnv(path.as_bytes());
            let ino = &self.inodes[i];
            let c: &[u8] = if model_b { ino.durable.as_deref().unwrap_or(&[]) } else { &ino.data };
            hsh = hsh.wrapping_mul(0x100000001b3) ^ fnv(c);
        }
        for d in &self.dirs {
            hsh = hsh.wrapping_mul(0x100000001b3) ^ fnv(d.as_bytes());
        }
        hsh
    }

    /// write the image under `root`; `model_b`: unsynced bytes are lost
    pub fn materialize(&self, root: &str, model_b: bool) -> std::io::Result<()> {
        let _ = std::fs::remove_dir_all(root);
        std::fs::create_dir_all(root)?;
        for d in &self.dirs {
            if !d.is_empty() {
                std::fs::create_dir_all(format!("{}/{}", root, d))?;
            }
        }
        let mut written: BTreeMap<usize, String> = BTreeMap::new();
        for (p, &i) in &self.files {
            let full = format!("{}/{}", root, p);
            if let Some(parent) = std::path::Path::new(&full).parent() {
                std::fs::create_dir_all(parent)?;
            }
            if let Some(first) = written.get(&i) {
                std::fs::hard_link(first, &full)?;
            } else {
                let ino = &self.inodes[i];
                let content: &[u8] = if model_b { ino.durable.as_deref().unwrap_or(&[]) } else { &ino.data };
                std::fs::write(&full, content)?;
                written.insert(i, full);
            }
        }
        Ok(())
    }
}

/// token for the canonical op list compared with the Lean model (`StoreCrash.Op` alphabet)
pub fn classify(op: &FsOp) -> Option<String> {
    fn is_log(p: &str) -> Option<&str> {
        p.strip_prefix("log.").filter(|r| r.chars().all(|c| c.is_ascii_digit()))
    }
    let tmpish = |p: &str| p.starts_with("tmp/") || p.starts_with("compaction/");
    match op {
        FsOp::Create { path, .. } => {
            if is_log(path).is_some() {
                Some("logCreate".into())
            } else if tmpish(path) {
                Some("tmpCreate".into())
            } else {
                None
            }
        }
        FsOp::Write { path, .. } => {
            if is_log(path).is_some() {
                Some("logAppend".into())
            } else if path == "mani/MANIFEST" {
                Some("maniAppend".into())
            } else if tmpish(path) {
                Some("tmpWrite".into())
            } else {
                None
            }
        }
        FsOp::Sync { path } => {
            if is_log(path).is_some() {
                Some("logSync".into())
            } else if path == "mani/MANIFEST" {
                Some("maniSync".into())
            } else if tmpish(path) {
                Some("tmpSync".into())
            } else {
                None
            }
        }
        FsOp::Link { from, to } => {
            if tmpish(from) && to.starts_with("sst/") {
                Some("link".into())
            } else {
                None
            }
        }
        FsOp::Rename { from, to } => {
            if is_log(from).is_some() && to.starts_with("trash/") {
                Some("logTrash".into())
            } else if from.starts_with("sst/") && to.starts_with("trash/") {
                Some("sstTrash".into())
            } else {
                None
            }
        }
        FsOp::Unlink { path } => {
            if tmpish(path) {
                Some("tmpUnlink".into())
            } else {
                None
            }
        }
        FsOp::Mark { text } => {
            if text.starts_with("a ") {
                Some("ack".into())
            } else {
                None
            }
        }
        _ => None,
    }
}
