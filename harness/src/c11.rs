//! C11 — merging, concatenating, pruning, bounds and lazy cursors equal their definitions.
//!
//! For every case: a family of tables, the combinator's parameters and a program of cursor calls.
//! * implementation: the REAL combinator over real child cursors (`ReferenceCursor` over a
//!   `ReferenceBuilder` table, `SstCursor` over an SST written with `SstBuilder`, or a `LazyCursor`
//!   opening such an SST), `key_value()` printed after construction and after every call;
//! * model: the Lean model of the same combinator (request line, verb `cur`);
//! * oracle: a vector-based reference cursor over the list the specification names (sorted union /
//!   concatenation / restriction to the interval / per key the newest version <= t unless a
//!   tombstone / the opened table), compared with the implementation call by call.
use crate::common::*;
use sst::bounds_cursor::BoundsCursor;
use sst::concat_cursor::ConcatenatingCursor;
use sst::lazy_cursor::LazyCursor;
use sst::merging_cursor::MergingCursor;
use sst::pruning_cursor::PruningCursor;
use sst::reference::ReferenceBuilder;
use sst::{Builder, Cursor, SError, Sst, SstBuilder, SstOptions};
use std::ops::Bound;
use std::panic::AssertUnwindSafe;

#[derive(Clone, Debug, PartialEq, Eq)]
struct Ent {
    key: Vec<u8>,
    ts: u64,
    val: Option<Vec<u8>>,
}

fn ent_cmp(a: &Ent, b: &Ent) -> std::cmp::Ordering {
    a.key.cmp(&b.key).then(b.ts.cmp(&a.ts))
}

fn render_ent(e: &Ent) -> String {
    format!("{}@{}={}", hex(&e.key), e.ts, match &e.val { Some(v) => hex(v), None => "tombstone".to_string() })
}

fn render_opt(e: Option<&Ent>) -> String {
    match e {
        Some(e) => render_ent(e),
        None => "none".to_string(),
    }
}

#[derive(Clone, Debug, PartialEq, Eq)]
enum Op {
    First,
    Last,
    Next,
    Prev,
    Seek(Vec<u8>),
}

fn render_op(o: &Op) -> String {
    match o {
        Op::First => "F".into(),
        Op::Last => "L".into(),
        Op::Next => "N".into(),
        Op::Prev => "P".into(),
        Op::Seek(k) => format!("S{}", hex(k)),
    }
}

// ------------------------------------------------------------------------------------------------
// the oracle: a cursor over a vector, written from the specification (DESIGN A.1)
// ------------------------------------------------------------------------------------------------

struct RefVec {
    xs: Vec<Ent>,
    /// 0 = before the first entry, n+1 = after the last
    pos: usize,
}

impl RefVec {
    fn new(xs: Vec<Ent>) -> Self {
        RefVec { xs, pos: 0 }
    }
    fn kv(&self) -> Option<&Ent> {
        if self.pos >= 1 && self.pos <= self.xs.len() { Some(&self.xs[self.pos - 1]) } else { None }
    }
    fn step(&mut self, op: &Op) {
        let n = self.xs.len();
        match op {
            Op::First => self.pos = 0,
            Op::Last => self.pos = n + 1,
            Op::Next => {
                if self.pos <= n {
                    self.pos += 1
                }
            }
            Op::Prev => {
                if self.pos > 0 {
                    self.pos -= 1
                }
            }
            Op::Seek(k) => {
                self.pos = match self.xs.iter().position(|e| e.key.as_slice() >= k.as_slice()) {
                    Some(i) => i + 1,
                    None => n + 1,
                }
            }
        }
    }
}

// ------------------------------------------------------------------------------------------------
// real children
// ------------------------------------------------------------------------------------------------

#[derive(Clone, Copy, Debug, PartialEq, Eq)]
enum ChildKind {
    Ref,
    Sst,
    LazySst,
    LazyReopen,
}

struct Tab {
    ents: Vec<Ent>,
    kind: ChildKind,
    /// position of the child cursor when handed to the combinator (reference children only)
    prepos: usize,
}

struct SstDir {
    dir: String,
    n: u64,
}

impl SstDir {
    fn new(out: &str) -> Self {
        let base = if std::path::Path::new("/dev/shm").is_dir() { "/dev/shm".to_string() } else { out.to_string() };
        let dir = format!("{}/blueharness-c11-{}", base, std::process::id());
        let _ = std::fs::remove_dir_all(&dir);
        std::fs::create_dir_all(&dir).unwrap();
        SstDir { dir, n: 0 }
    }
    fn fresh(&mut self) -> String {
        self.n += 1;
        format!("{}/t{}.sst", self.dir, self.n)
    }
    fn sweep(&mut self) {
        if let Ok(rd) = std::fs::read_dir(&self.dir) {
            for e in rd.flatten() {
                let _ = std::fs::remove_file(e.path());
            }
        }
    }
}

impl Drop for SstDir {
    fn drop(&mut self) {
        let _ = std::fs::remove_dir_all(&self.dir);
    }
}

fn build_sst(ents: &[Ent], path: &str) -> Result<Sst, SError> {
    let mut b = SstBuilder::new(SstOptions::default(), path)?;
    for e in ents {
        match &e.val {
            Some(v) => b.put(&e.key, e.ts, v)?,
            None => b.del(&e.key, e.ts)?,
        }
    }
    b.seal()
}

fn make_child(t: &Tab, dir: &mut SstDir) -> Result<Box<dyn Cursor>, SError> {
    match t.kind {
        ChildKind::Ref => {
            let mut b = ReferenceBuilder::default();
            // insertion order is irrelevant for the reference table (seal sorts): feed it reversed
            for e in t.ents.iter().rev() {
                match &e.val {
                    Some(v) => b.put(&e.key, e.ts, v)?,
                    None => b.del(&e.key, e.ts)?,
                }
            }
            let mut c = b.seal()?.cursor();
            if t.prepos > 0 {
                c.seek_to_first()?;
                for _ in 0..t.prepos {
                    c.next()?;
                }
            }
            Ok(Box::new(c))
        }
        ChildKind::Sst => {
            let sst = build_sst(&t.ents, &dir.fresh())?;
            Ok(Box::new(sst.cursor()))
        }
        ChildKind::LazySst => {
            let sst = build_sst(&t.ents, &dir.fresh())?;
            Ok(Box::new(LazyCursor::new(move || Ok(sst.cursor()))))
        }
        ChildKind::LazyReopen => {
            let path = dir.fresh();
            drop(build_sst(&t.ents, &path)?);
            Ok(Box::new(LazyCursor::new(move || Ok(Sst::<sst::file_manager::FileHandle>::new(SstOptions::default(), &path)?.cursor()))))
        }
    }
}

fn err_class(e: &SError) -> String {
    format!("err:{}", sst::error_code(e).unwrap_or("unknown"))
}

fn observe(c: &dyn Cursor) -> String {
    match c.key_value() {
        Some(kvr) => format!("{}@{}={}", hex(kvr.key), kvr.timestamp, match kvr.value { Some(v) => hex(v), None => "tombstone".to_string() }),
        None => "none".to_string(),
    }
}

fn apply(c: &mut dyn Cursor, op: &Op) -> Result<(), SError> {
    match op {
        Op::First => c.seek_to_first(),
        Op::Last => c.seek_to_last(),
        Op::Next => c.next(),
        Op::Prev => c.prev(),
        Op::Seek(k) => c.seek(k),
    }
}

/// observation after construction and after each call; an error ends the program
fn run_prog(c: Result<Box<dyn Cursor>, SError>, ops: &[Op]) -> Vec<String> {
    let mut c = match c {
        Ok(c) => c,
        Err(e) => return vec![err_class(&e)],
    };
    let mut out = vec![observe(c.as_ref())];
    for op in ops {
        match apply(c.as_mut(), op) {
            Ok(()) => out.push(observe(c.as_ref())),
            Err(e) => {
                out.push(err_class(&e));
                break;
            }
        }
    }
    out
}

// ------------------------------------------------------------------------------------------------
// the five combinators
// ------------------------------------------------------------------------------------------------

#[derive(Clone, Debug)]
enum Bd {
    Unb,
    Inc(Vec<u8>),
    Exc(Vec<u8>),
}

impl Bd {
    fn tok(&self) -> String {
        match self {
            Bd::Unb => "u".into(),
            Bd::Inc(k) => format!("i{}", hex(k)),
            Bd::Exc(k) => format!("e{}", hex(k)),
        }
    }
    fn bound(&self) -> Bound<Vec<u8>> {
        match self {
            Bd::Unb => Bound::Unbounded,
            Bd::Inc(k) => Bound::Included(k.clone()),
            Bd::Exc(k) => Bound::Excluded(k.clone()),
        }
    }
    fn kind(&self) -> &'static str {
        match self {
            Bd::Unb => "U",
            Bd::Inc(_) => "I",
            Bd::Exc(_) => "E",
        }
    }
}

fn above_lo(lo: &Bd, k: &[u8]) -> bool {
    match lo {
        Bd::Unb => true,
        Bd::Inc(b) => k >= b.as_slice(),
        Bd::Exc(b) => k > b.as_slice(),
    }
}

fn below_hi(hi: &Bd, k: &[u8]) -> bool {
    match hi {
        Bd::Unb => true,
        Bd::Inc(b) => k <= b.as_slice(),
        Bd::Exc(b) => k < b.as_slice(),
    }
}

enum Comb {
    Merge,
    Concat,
    Bounds(Bd, Bd),
    Prune(u64),
    Lazy,
    /// the scan stack of the store: Bounds(Pruning(Merging[children])) (read timestamp, lo, hi)
    Stack(u64, Bd, Bd),
}

fn build(comb: &Comb, tabs: &[Tab], dir: &mut SstDir) -> Result<Box<dyn Cursor>, SError> {
    let mut kids: Vec<Box<dyn Cursor>> = vec![];
    for t in tabs {
        kids.push(make_child(t, dir)?);
    }
    Ok(match comb {
        Comb::Merge => Box::new(MergingCursor::new(kids)?),
        Comb::Concat => Box::new(ConcatenatingCursor::new(kids)?),
        Comb::Bounds(lo, hi) => Box::new(BoundsCursor::new(kids.pop().unwrap(), &lo.bound(), &hi.bound())?),
        Comb::Prune(t) => Box::new(PruningCursor::new(kids.pop().unwrap(), *t)?),
        Comb::Lazy => kids.pop().unwrap(),
        Comb::Stack(t, lo, hi) => Box::new(BoundsCursor::new(PruningCursor::new(MergingCursor::new(kids)?, *t)?, &lo.bound(), &hi.bound())?),
    })
}

/// per key the newest version <= t, unless it is a tombstone (the specification of the pruning cursor)
fn prune_list(xs: &[Ent], t: u64) -> Vec<Ent> {
    let mut out: Vec<Ent> = vec![];
    let mut i = 0;
    while i < xs.len() {
        let mut j = i;
        let mut cand: Option<&Ent> = None;
        while j < xs.len() && xs[j].key == xs[i].key {
            if cand.is_none() && xs[j].ts <= t {
                cand = Some(&xs[j]);
            }
            j += 1;
        }
        if let Some(c) = cand {
            if c.val.is_some() {
                out.push(c.clone());
            }
        }
        i = j;
    }
    out
}

/// the list the specification names
fn spec_list(comb: &Comb, tabs: &[Tab]) -> Vec<Ent> {
    match comb {
        Comb::Merge => {
            let mut all: Vec<Ent> = tabs.iter().flat_map(|t| t.ents.iter().cloned()).collect();
            all.sort_by(ent_cmp);
            all
        }
        Comb::Concat => tabs.iter().flat_map(|t| t.ents.iter().cloned()).collect(),
        Comb::Bounds(lo, hi) => tabs[0].ents.iter().filter(|e| above_lo(lo, &e.key) && below_hi(hi, &e.key)).cloned().collect(),
        Comb::Prune(t) => {
            let mut out: Vec<Ent> = vec![];
            let xs = &tabs[0].ents;
            let mut i = 0;
            while i < xs.len() {
                let mut j = i;
                let mut cand: Option<&Ent> = None;
                while j < xs.len() && xs[j].key == xs[i].key {
                    if cand.is_none() && xs[j].ts <= *t {
                        cand = Some(&xs[j]);
                    }
                    j += 1;
                }
                if let Some(c) = cand {
                    if c.val.is_some() {
                        out.push(c.clone());
                    }
                }
                i = j;
            }
            out
        }
        Comb::Lazy => tabs[0].ents.clone(),
        Comb::Stack(t, lo, hi) => {
            // the SET of versions: a (key, ts) held by several children is one version
            let mut all: Vec<Ent> = tabs.iter().flat_map(|t| t.ents.iter().cloned()).collect();
            all.sort_by(ent_cmp);
            all.dedup_by(|b, a| a.key == b.key && a.ts == b.ts);
            prune_list(&all, *t).into_iter().filter(|e| above_lo(lo, &e.key) && below_hi(hi, &e.key)).collect()
        }
    }
}

// ------------------------------------------------------------------------------------------------
// generators
// ------------------------------------------------------------------------------------------------

const KEYS: [&[u8]; 9] = [b"", b"a", b"a\0", b"aa", b"ab", b"a\xff", b"b", b"\xff", b"\xff\xff"];
const PROBES: [&[u8]; 15] = [b"", b"\0", b"a", b"a\0", b"a\0\0", b"aa", b"ab", b"ab\0", b"a\xff", b"b", b"c", b"\xfe", b"\xff", b"\xff\xff", b"\xff\xff\xff"];
const TSS: [u64; 7] = [0, 1, 2, 3, 4, 6, 9];
const READ_TS: [u64; 14] = [0, 1, 2, 2, 3, 3, 4, 4, 5, 6, 6, 9, 10, u64::MAX];
const VALS: [&[u8]; 5] = [b"", b"v", b"w", b"\0", b"value"];

fn gen_val(rng: &mut Rng, tomb_pct: u64) -> Option<Vec<u8>> {
    if rng.below(100) < tomb_pct { None } else { Some(rng.pick(&VALS).to_vec()) }
}

/// a strictly sorted list of versions over the adversarial key alphabet
fn gen_pool(rng: &mut Rng, tomb_pct: u64) -> Vec<Ent> {
    // one pool in sixteen is empty; the others hold on average 15 % … 90 % of the alphabet
    let density = if rng.chance(1, 16) { 0 } else { *rng.pick(&[15u64, 35, 60, 60, 90, 90]) };
    let maxv = *rng.pick(&[1u64, 2, 3, 4]);
    let mut out = vec![];
    for k in KEYS.iter() {
        if rng.below(100) >= density && !(density > 0 && rng.chance(1, 12)) {
            continue;
        }
        let nv = 1 + rng.below(maxv);
        let mut tss: Vec<u64> = TSS.to_vec();
        rng.shuffle(&mut tss);
        tss.truncate(nv as usize);
        tss.sort();
        tss.reverse();
        for t in tss {
            out.push(Ent { key: k.to_vec(), ts: t, val: gen_val(rng, tomb_pct) });
        }
    }
    out.sort_by(ent_cmp);
    out
}

fn gen_tomb_pct(rng: &mut Rng) -> u64 {
    *rng.pick(&[0u64, 35, 35, 35, 60, 100])
}

fn gen_kinds(rng: &mut Rng, tabs: &mut [Tab]) {
    // 65 %: every child is a reference cursor; otherwise each child picks its own kind
    let mixed = rng.chance(35, 100);
    for t in tabs.iter_mut() {
        // an SST without entries is not a table the store ever writes: `SstBuilder::seal()` on an
        // empty builder fails with corruption-offset-exceeds-restarts-boundary when it reopens
        // the file (reported to the coordinator for C10); empty tables are always reference tables
        t.kind = if !mixed || t.ents.is_empty() {
            ChildKind::Ref
        } else {
            *rng.pick(&[ChildKind::Ref, ChildKind::Sst, ChildKind::LazySst, ChildKind::LazyReopen])
        };
        if t.kind == ChildKind::Ref && rng.chance(1, 3) {
            t.prepos = rng.below(t.ents.len() as u64 + 2) as usize;
        }
    }
}

fn gen_prog(rng: &mut Rng, n: usize) -> Vec<Op> {
    let seek = |rng: &mut Rng| Op::Seek(rng.pick(&PROBES).to_vec());
    let mut ops = vec![];
    match rng.below(10) {
        // random walk
        0..=5 => {
            let len = 1 + rng.below(28);
            let bias = rng.below(3); // 0 balanced, 1 forward-heavy, 2 backward-heavy
            for _ in 0..len {
                let r = rng.below(100);
                let (pn, pp) = match bias { 0 => (34, 68), 1 => (48, 70), _ => (22, 70) };
                ops.push(if r < pn { Op::Next } else if r < pp { Op::Prev } else if r < 86 { seek(rng) } else if r < 92 { Op::First } else { Op::Last });
            }
        }
        // sweep: reach every position, then reverse there
        6..=8 => {
            let n = n.min(10);
            for i in 0..=n + 1 {
                match rng.below(3) {
                    0 => {
                        ops.push(Op::First);
                        for _ in 0..i { ops.push(Op::Next); }
                    }
                    1 => {
                        ops.push(Op::Last);
                        for _ in 0..(n + 1 - i) { ops.push(Op::Prev); }
                    }
                    _ => ops.push(seek(rng)),
                }
                let m = 2 + rng.below(3);
                let first_back = rng.chance(1, 2);
                for j in 0..m {
                    // alternate so that every position sees next-after-prev and prev-after-next
                    let back = if rng.chance(3, 4) { (j % 2 == 0) == first_back } else { rng.chance(1, 2) };
                    ops.push(if back { Op::Prev } else { Op::Next });
                }
            }
        }
        // full traversals there and back, then a random tail
        _ => {
            let n = n.min(14);
            if rng.chance(1, 2) {
                ops.push(Op::First);
                for _ in 0..n + 2 { ops.push(Op::Next); }
                for _ in 0..n + 3 { ops.push(Op::Prev); }
                for _ in 0..n + 2 { ops.push(Op::Next); }
            } else {
                ops.push(Op::Last);
                for _ in 0..n + 2 { ops.push(Op::Prev); }
                for _ in 0..n + 3 { ops.push(Op::Next); }
                for _ in 0..n + 2 { ops.push(Op::Prev); }
            }
            for _ in 0..rng.below(6) {
                ops.push(match rng.below(4) { 0 => Op::Next, 1 => Op::Prev, 2 => seek(rng), _ => Op::Last });
            }
        }
    }
    ops
}

fn table_tokens(tabs: &[Tab]) -> String {
    let mut s = String::new();
    for t in tabs {
        if t.prepos > 0 {
            s.push_str(&format!("p{} ", t.prepos));
        }
        for e in &t.ents {
            s.push_str(&render_ent(e));
            s.push(' ');
        }
        s.push_str("/ ");
    }
    s
}

fn prog_tokens(ops: &[Op]) -> String {
    ops.iter().map(render_op).collect::<Vec<_>>().join(" ")
}

// ------------------------------------------------------------------------------------------------
// what the code under test is (the three repairs are detected on their minimal inputs, so that the
// model asked for is the model of the code that exists)
// ------------------------------------------------------------------------------------------------

#[derive(Clone, Copy, Default)]
struct AsIs {
    concat_next_old: bool,
    concat_seek_old: bool,
    bounds_prev_old: bool,
}

fn put(k: &[u8]) -> Ent {
    Ent { key: k.to_vec(), ts: 1, val: Some(b"v".to_vec()) }
}
fn del(k: &[u8]) -> Ent {
    Ent { key: k.to_vec(), ts: 1, val: None }
}
fn reft(ents: Vec<Ent>) -> Tab {
    Tab { ents, kind: ChildKind::Ref, prepos: 0 }
}

fn d2_input() -> (Comb, Vec<Tab>, Vec<Op>) {
    (Comb::Concat, vec![reft(vec![put(b"a"), del(b"b"), put(b"c")]), reft(vec![put(b"d")])], vec![Op::Next, Op::Next, Op::Next, Op::Next])
}
fn d18_input() -> (Comb, Vec<Tab>, Vec<Op>) {
    (Comb::Concat, vec![reft(vec![put(b"ab")]), reft(vec![put(b"b")]), reft(vec![put(b"\xff\xff")])], vec![Op::Seek(b"b".to_vec())])
}
fn d19_input() -> (Comb, Vec<Tab>, Vec<Op>) {
    (
        Comb::Bounds(Bd::Inc(b"2".to_vec()), Bd::Inc(b"3".to_vec())),
        vec![reft(vec![put(b"1"), put(b"2"), put(b"3"), put(b"4"), put(b"5")])],
        vec![Op::Seek(b"5".to_vec()), Op::Prev],
    )
}

fn detect(dir: &mut SstDir) -> AsIs {
    let mut a = AsIs::default();
    let run = |inp: (Comb, Vec<Tab>, Vec<Op>), dir: &mut SstDir| -> Vec<String> {
        guarded(AssertUnwindSafe(|| run_prog(build(&inp.0, &inp.1, dir), &inp.2))).unwrap_or_else(|_| vec!["panic".into()])
    };
    let o = run(d2_input(), dir);
    a.concat_next_old = o.get(2).map(|s| s.starts_with("64@")).unwrap_or(false);
    let o = run(d18_input(), dir);
    a.concat_seek_old = o.get(1).map(|s| s == "none").unwrap_or(false);
    let o = run(d19_input(), dir);
    a.bounds_prev_old = o.get(2).map(|s| s.starts_with("34@")).unwrap_or(false);
    a
}

fn vtok(old: bool) -> &'static str {
    if old { "old" } else { "new" }
}

fn request(comb: &Comb, tabs: &[Tab], ops: &[Op], asis: &AsIs) -> String {
    let head = match comb {
        Comb::Merge => "cur merge".to_string(),
        Comb::Concat => format!("cur concat {} {}", vtok(asis.concat_next_old), vtok(asis.concat_seek_old)),
        Comb::Bounds(lo, hi) => format!("cur bounds {} {} {}", vtok(asis.bounds_prev_old), lo.tok(), hi.tok()),
        Comb::Prune(t) => format!("cur prune {}", t),
        Comb::Lazy => "cur lazy".to_string(),
        Comb::Stack(t, lo, hi) => format!("cur stack {} {} {}", t, lo.tok(), hi.tok()),
    };
    format!("{} T {}X {}", head, table_tokens(tabs), prog_tokens(ops)).trim_end().to_string()
}

// ------------------------------------------------------------------------------------------------
// the oracle's verdict and the class of a failure (a predicate on the input)
// ------------------------------------------------------------------------------------------------

fn past_end(hi: &Bd, k: &[u8]) -> bool {
    match hi {
        Bd::Unb => false,
        Bd::Inc(b) | Bd::Exc(b) => k > b.as_slice(),
    }
}

/// `i` = index of the first call whose observation differs (0-based into `ops`), `None` = the
/// observation after construction
///
/// The three defect classes are predicates on the input (tables, bounds, program up to the failing
/// call); they are only used while the code under test still shows the unrepaired behaviour on the
/// defect's minimal input (`AsIs`), so that a different fault in repaired code is never filed under
/// a known defect.
fn classify(comb: &Comb, tabs: &[Tab], ops: &[Op], i: Option<usize>, asis: &AsIs) -> String {
    let upto: &[Op] = match i { Some(i) => &ops[..=i], None => &[] };
    match comb {
        Comb::Concat => {
            let tomb_inside = asis.concat_next_old && tabs.len() >= 2 && tabs[..tabs.len() - 1].iter().any(|t| t.ents.iter().any(|e| e.val.is_none()));
            let has_seek = asis.concat_seek_old && tabs.len() >= 2 && upto.iter().any(|o| matches!(o, Op::Seek(_)));
            let at_next = matches!(upto.last(), Some(Op::Next));
            if tomb_inside && at_next {
                "concat-tombstone-inside-child".into()
            } else if has_seek {
                "concat-seek".into()
            } else if tomb_inside && upto.iter().any(|o| *o == Op::Next) {
                "concat-tombstone-inside-child".into()
            } else {
                "concat-mismatch".into()
            }
        }
        Comb::Bounds(_, hi) => {
            // a seek past the end bound, then (after any number of next) a prev
            let mut armed = false;
            let mut hit = false;
            for o in upto {
                match o {
                    Op::Seek(k) => armed = past_end(hi, k),
                    Op::Next => {}
                    Op::Prev => {
                        hit = armed;
                        armed = false;
                    }
                    _ => armed = false,
                }
            }
            if asis.bounds_prev_old && hit && matches!(upto.last(), Some(Op::Prev)) { "bounds-seek-past-end-then-prev".into() } else { "bounds-mismatch".into() }
        }
        Comb::Merge => "merge-mismatch".into(),
        Comb::Prune(_) => "prune-mismatch".into(),
        Comb::Lazy => "lazy-mismatch".into(),
        Comb::Stack(..) => "stack-mismatch".into(),
    }
}

/// compare the implementation's observations with the reference cursor over `spec`
/// `dups`: several children may hold the same (key, ts); then any of their values may be shown
fn judge(comb: &Comb, tabs: &[Tab], ops: &[Op], spec: Vec<Ent>, obs: &[String], dups: bool, asis: &AsIs) -> Verdict {
    let mut r = RefVec::new(spec);
    let ok_at = |r: &RefVec, got: &str| -> bool {
        let want = render_opt(r.kv());
        if want == got {
            return true;
        }
        if dups {
            if let Some(w) = r.kv() {
                return r.xs.iter().any(|e| e.key == w.key && e.ts == w.ts && render_ent(e) == got);
            }
        }
        false
    };
    if obs.is_empty() {
        return Verdict::Fail { class: "no-observation".into(), detail: String::new() };
    }
    if !ok_at(&r, &obs[0]) {
        return Verdict::Fail { class: classify(comb, tabs, ops, None, asis), detail: format!("after construction: shows {} reference {}", obs[0], render_opt(r.kv())) };
    }
    for (i, op) in ops.iter().enumerate() {
        r.step(op);
        let got = match obs.get(i + 1) {
            Some(g) => g,
            None => return Verdict::Fail { class: "error".into(), detail: format!("program abandoned at call {}: {}", i, obs.last().unwrap()) },
        };
        if got.starts_with("err:") {
            return Verdict::Fail { class: "error".into(), detail: format!("call {} ({}) returned {}", i, render_op(op), got) };
        }
        if !ok_at(&r, got) {
            return Verdict::Fail {
                class: classify(comb, tabs, ops, Some(i), asis),
                detail: format!("call {} ({}): shows {} reference {} (position {} of {})", i, render_op(op), got, render_opt(r.kv()), r.pos, r.xs.len()),
            };
        }
    }
    Verdict::Ok
}

// ------------------------------------------------------------------------------------------------

struct Ctx<'a> {
    rec: Recorder,
    dir: SstDir,
    asis: AsIs,
    args: &'a Args,
}

fn count_prog(rec: &mut Recorder, ops: &[Op]) -> (u64, bool) {
    let mut rev = 0u64;
    let mut has_seek = false;
    for (i, o) in ops.iter().enumerate() {
        rec.count(match o { Op::First => "op.seek_to_first", Op::Last => "op.seek_to_last", Op::Next => "op.next", Op::Prev => "op.prev", Op::Seek(_) => "op.seek" });
        if matches!(o, Op::Seek(_)) {
            has_seek = true;
        }
        if i > 0 {
            match (&ops[i - 1], o) {
                (Op::Next, Op::Prev) => { rec.count("reversal.prev_after_next"); rev += 1; }
                (Op::Prev, Op::Next) => { rec.count("reversal.next_after_prev"); rev += 1; }
                (Op::Seek(_), Op::Prev) => rec.count("reversal.prev_after_seek"),
                (Op::Last, Op::Next) => rec.count("reversal.next_after_seek_to_last"),
                (Op::First, Op::Prev) => rec.count("reversal.prev_after_seek_to_first"),
                _ => {}
            }
        }
    }
    (rev, has_seek)
}

fn one_case(cx: &mut Ctx, name: &str, comb: Comb, tabs: Vec<Tab>, ops: Vec<Op>, dups: bool) {
    let req = request(&comb, &tabs, &ops, &cx.asis);
    let spec = spec_list(&comb, &tabs);
    let res = {
        let dir = &mut cx.dir;
        guarded(AssertUnwindSafe(|| run_prog(build(&comb, &tabs, dir), &ops)))
    };
    cx.dir.sweep();
    let rec = &mut cx.rec;
    rec.count(&format!("cases.{}", name));
    rec.add(&format!("{}.tables", name), tabs.len() as u64);
    let total: usize = tabs.iter().map(|t| t.ents.len()).sum();
    rec.add("entries", total as u64);
    rec.add("entries.tombstones", tabs.iter().map(|t| t.ents.iter().filter(|e| e.val.is_none()).count() as u64).sum());
    for t in &tabs {
        rec.count(match t.kind { ChildKind::Ref => "child.reference", ChildKind::Sst => "child.sst", ChildKind::LazySst => "child.lazy_over_sst", ChildKind::LazyReopen => "child.lazy_reopening_sst" });
        if t.ents.is_empty() {
            rec.count("table.empty");
        } else if t.ents.iter().all(|e| e.val.is_none()) {
            rec.count("table.tombstone_only");
        }
        if t.prepos > 0 {
            rec.count("child.prepositioned");
        }
    }
    if spec.is_empty() {
        rec.count(&format!("{}.spec_list_empty", name));
    }
    rec.add("ops", ops.len() as u64);
    let (rev, _) = count_prog(rec, &ops);
    let (obs_line, verdict, distinct_shown) = match res {
        Ok(obs) => {
            let v = judge(&comb, &tabs, &ops, spec.clone(), &obs, dups, &cx.asis);
            let mut d: Vec<&String> = obs.iter().filter(|s| *s != "none").collect();
            d.sort();
            d.dedup();
            let n = d.len();
            (obs.join(" "), v, n)
        }
        Err(m) => ("panic".to_string(), Verdict::Fail { class: "panic".into(), detail: m }, 0),
    };
    // non-trivial: the specified list has >= 2 entries, the program reverses direction at least
    // once and at least two different entries were shown
    let nt = if spec.len() >= 2 && rev >= 1 && distinct_shown >= 2 { Some(fnv(req.as_bytes())) } else { None };
    rec.case(&req, &obs_line, verdict, nt);
}

fn split_for_merge(rng: &mut Rng, pool: Vec<Ent>, dups: bool, tomb_pct: u64) -> Vec<Tab> {
    let k = match rng.below(40) { 0 => 0, 1..=4 => 1, 5..=14 => 2, 15..=26 => 3, 27..=34 => 4, _ => 6 } as usize;
    let mut tabs: Vec<Tab> = (0..k).map(|_| Tab { ents: vec![], kind: ChildKind::Ref, prepos: 0 }).collect();
    if k == 0 {
        return tabs;
    }
    // some tables stay empty
    let live: Vec<usize> = (0..k).filter(|_| rng.chance(4, 5)).collect();
    let live = if live.is_empty() { vec![0] } else { live };
    for e in pool {
        let j = *rng.pick(&live);
        if dups && k >= 2 && rng.chance(1, 3) {
            // the same (key, ts) in other children too, with its own value / tombstone
            let copies = 1 + rng.below(2);
            for _ in 0..copies {
                let j2 = rng.below(k as u64) as usize;
                if j2 != j && !tabs[j2].ents.iter().any(|x| x.key == e.key && x.ts == e.ts) {
                    tabs[j2].ents.push(Ent { key: e.key.clone(), ts: e.ts, val: gen_val(rng, tomb_pct) });
                }
            }
        }
        tabs[j].ents.push(e);
    }
    for t in tabs.iter_mut() {
        t.ents.sort_by(ent_cmp);
    }
    if rng.chance(1, 6) {
        let j = rng.below(k as u64) as usize;
        for e in tabs[j].ents.iter_mut() {
            e.val = None;
        }
    }
    tabs
}

fn split_for_concat(rng: &mut Rng, pool: Vec<Ent>) -> Vec<Tab> {
    let k = 1 + rng.below(6) as usize;
    let n = pool.len();
    let mut cuts: Vec<usize> = (0..k - 1).map(|_| rng.below(n as u64 + 1) as usize).collect();
    cuts.sort();
    let mut tabs = vec![];
    let mut a = 0;
    for c in cuts.into_iter().chain(std::iter::once(n)) {
        tabs.push(Tab { ents: pool[a..c].to_vec(), kind: ChildKind::Ref, prepos: 0 });
        a = c;
    }
    if rng.chance(1, 6) {
        let j = rng.below(k as u64) as usize;
        for e in tabs[j].ents.iter_mut() {
            e.val = None;
        }
    }
    tabs
}

fn gen_bd(rng: &mut Rng) -> Bd {
    match rng.below(3) {
        0 => Bd::Unb,
        1 => Bd::Inc(rng.pick(&PROBES).to_vec()),
        _ => Bd::Exc(rng.pick(&PROBES).to_vec()),
    }
}


// ------------------------------------------------------------------------------------------------
// the scan stack over children that hold the same (key, ts): streams `stackdup` (the copies are
// identical entries: the flush window, identical files) and `stackmal` (malformed: the copies
// carry different values / tombstone flags)
// ------------------------------------------------------------------------------------------------

fn holds(t: &[Ent], e: &Ent) -> bool {
    t.iter().any(|x| x.key == e.key && x.ts == e.ts)
}

fn add_copy(tabs: &mut [Vec<Ent>], e: &Ent, j: usize) -> bool {
    if holds(&tabs[j], e) {
        return false;
    }
    tabs[j].push(e.clone());
    true
}

/// (key, ts) -> the children that hold it, for every (key, ts) held by at least two
fn duplicates(tabs: &[Vec<Ent>]) -> Vec<(Vec<u8>, u64, Vec<usize>)> {
    let mut all: Vec<(Vec<u8>, u64, usize)> = vec![];
    for (j, t) in tabs.iter().enumerate() {
        for e in t {
            all.push((e.key.clone(), e.ts, j));
        }
    }
    all.sort();
    let mut out: Vec<(Vec<u8>, u64, Vec<usize>)> = vec![];
    for (k, ts, j) in all {
        match out.last_mut() {
            Some((k2, ts2, hs)) if *k2 == k && *ts2 == ts => hs.push(j),
            _ => out.push((k, ts, vec![j])),
        }
    }
    out.retain(|x| x.2.len() >= 2);
    out
}

struct StackCase {
    tabs: Vec<Tab>,
    t: u64,
    lo: Bd,
    hi: Bd,
    ops: Vec<Op>,
    shapes: Vec<&'static str>,
}

/// children with duplicated (key, ts); every copy is the identical entry
fn gen_stackdup(rng: &mut Rng) -> StackCase {
    let tp = gen_tomb_pct(rng);
    let mut pool = gen_pool(rng, tp);
    for _ in 0..6 {
        if pool.len() >= 2 {
            break;
        }
        pool = gen_pool(rng, tp);
    }
    if pool.is_empty() {
        pool.push(Ent { key: b"a".to_vec(), ts: 3, val: Some(b"v".to_vec()) });
    }
    let mut shapes: Vec<&'static str> = vec![];
    const SHAPES: [&str; 7] = ["flush_window", "copy_in_three", "tombstone", "first_last_key", "at_bounds", "random", "all_identical"];
    let primary = *rng.pick(&SHAPES);
    for sh in SHAPES.iter() {
        if *sh == primary || rng.chance(1, 5) {
            shapes.push(sh);
        }
    }
    let has = |shapes: &Vec<&'static str>, s: &str| shapes.iter().any(|x| *x == s);
    // tombstones to be duplicated are made before the entries are dealt out
    let mut tomb_idx: Vec<usize> = vec![];
    if has(&shapes, "tombstone") {
        for _ in 0..1 + rng.below(2) {
            let i = rng.below(pool.len() as u64) as usize;
            pool[i].val = None;
            tomb_idx.push(i);
        }
    }
    let mut k = 2 + rng.below(4) as usize;
    if has(&shapes, "copy_in_three") && k < 3 {
        k = 3;
    }
    let mut tabs: Vec<Vec<Ent>> = (0..k).map(|_| vec![]).collect();
    if has(&shapes, "all_identical") {
        for t in tabs.iter_mut() {
            *t = pool.clone();
        }
    } else {
        let live: Vec<usize> = (0..k).filter(|_| rng.chance(5, 6)).collect();
        let live = if live.is_empty() { vec![0] } else { live };
        for e in pool.iter() {
            let j = *rng.pick(&live);
            tabs[j].push(e.clone());
        }
    }
    let other = |rng: &mut Rng, k: usize| rng.below(k as u64) as usize;
    if has(&shapes, "random") {
        for e in pool.iter() {
            if rng.chance(1, 3) {
                for _ in 0..1 + rng.below(2) {
                    let j = other(rng, k);
                    add_copy(&mut tabs, e, j);
                }
            }
        }
    }
    if has(&shapes, "copy_in_three") {
        for _ in 0..1 + rng.below(2) {
            let e = rng.pick(&pool).clone();
            let mut js: Vec<usize> = (0..k).collect();
            rng.shuffle(&mut js);
            for j in js.into_iter().take(3) {
                add_copy(&mut tabs, &e, j);
            }
        }
    }
    for i in tomb_idx {
        let e = pool[i].clone();
        for _ in 0..1 + rng.below(2) {
            let j = other(rng, k);
            add_copy(&mut tabs, &e, j);
        }
        if rng.chance(1, 2) {
            for j in 0..k {
                add_copy(&mut tabs, &e, j);
            }
        }
    }
    if has(&shapes, "first_last_key") {
        let which = rng.below(3);
        if which != 1 {
            let e = pool[0].clone();
            for _ in 0..1 + rng.below(2) {
                let j = other(rng, k);
                add_copy(&mut tabs, &e, j);
            }
            add_copy(&mut tabs, &e, (k - 1).min(1));
            add_copy(&mut tabs, &e, 0);
        }
        if which != 0 {
            let e = pool[pool.len() - 1].clone();
            for _ in 0..1 + rng.below(2) {
                let j = other(rng, k);
                add_copy(&mut tabs, &e, j);
            }
            add_copy(&mut tabs, &e, (k - 1).min(1));
            add_copy(&mut tabs, &e, 0);
        }
    }
    if has(&shapes, "flush_window") {
        // one child's whole content once more as another child (the immutable memtable and its file)
        let nonempty: Vec<usize> = (0..tabs.len()).filter(|j| !tabs[*j].is_empty()).collect();
        if !nonempty.is_empty() {
            let src = *rng.pick(&nonempty);
            let copy = tabs[src].clone();
            let at = match rng.below(3) { 0 => src + 1, 1 => 0, _ => rng.below(tabs.len() as u64 + 1) as usize };
            tabs.insert(at, copy);
        }
    }
    for t in tabs.iter_mut() {
        t.sort_by(ent_cmp);
    }
    let dups = duplicates(&tabs);
    // read timestamp: three times in four chosen so that a duplicated version is the visible one
    let t = if !dups.is_empty() && rng.chance(3, 4) {
        let d = rng.pick(&dups);
        match rng.below(4) { 0 => d.1, 1 => d.1 + 1, 2 => u64::MAX, _ => *rng.pick(&READ_TS).max(&d.1) }
    } else {
        *rng.pick(&READ_TS)
    };
    let mut lo = gen_bd(rng);
    let mut hi = gen_bd(rng);
    if rng.chance(1, 3) {
        lo = Bd::Unb;
    }
    if rng.chance(1, 3) {
        hi = Bd::Unb;
    }
    if has(&shapes, "at_bounds") && !dups.is_empty() {
        let a = rng.pick(&dups).0.clone();
        let b = rng.pick(&dups).0.clone();
        let (a, b) = if a <= b { (a, b) } else { (b, a) };
        match rng.below(3) {
            0 => lo = if rng.chance(2, 3) { Bd::Inc(a) } else { Bd::Exc(a) },
            1 => hi = if rng.chance(2, 3) { Bd::Inc(b) } else { Bd::Exc(b) },
            _ => {
                lo = if rng.chance(2, 3) { Bd::Inc(a) } else { Bd::Exc(a) };
                hi = if rng.chance(2, 3) { Bd::Inc(b) } else { Bd::Exc(b) };
            }
        }
    } else if rng.chance(4, 5) {
        let swap = match (&lo, &hi) {
            (Bd::Inc(a) | Bd::Exc(a), Bd::Inc(b) | Bd::Exc(b)) => a > b,
            _ => false,
        };
        if swap {
            std::mem::swap(&mut lo, &mut hi);
        }
    }
    let mut tabs: Vec<Tab> = tabs.into_iter().map(|ents| Tab { ents, kind: ChildKind::Ref, prepos: 0 }).collect();
    gen_kinds(rng, &mut tabs);
    let n: usize = tabs.iter().map(|t| t.ents.len()).sum();
    let ops = gen_prog(rng, n);
    StackCase { tabs, t, lo, hi, ops, shapes }
}

/// `stackmal`: the copies of a duplicated (key, ts) get different payloads.  A value names the child
/// that holds it (`c<j>`), so the observation tells which child won.
fn make_malformed(rng: &mut Rng, sc: &mut StackCase) -> &'static str {
    let mode = *rng.pick(&["values_differ", "values_differ", "tombstone_flags_differ", "mixed"]);
    let ents: Vec<Vec<Ent>> = sc.tabs.iter().map(|t| t.ents.clone()).collect();
    for (key, ts, hs) in duplicates(&ents) {
        let tomb_at: Option<usize> = match mode {
            "values_differ" => None,
            "tombstone_flags_differ" => Some(*rng.pick(&hs)),
            _ => if rng.chance(1, 2) { Some(*rng.pick(&hs)) } else { None },
        };
        for j in hs.iter() {
            for e in sc.tabs[*j].ents.iter_mut() {
                if e.key == key && e.ts == ts {
                    e.val = if tomb_at == Some(*j) { None } else { Some(vec![b'c', b'0' + *j as u8]) };
                }
            }
        }
    }
    mode
}

fn parse_obs(s: &str) -> Option<(Vec<u8>, u64, Option<Vec<u8>>)> {
    let (k, rest) = s.split_once('@')?;
    let (t, v) = rest.split_once('=')?;
    let key = if k == "-" { vec![] } else { unhex(k)? };
    let ts: u64 = t.parse().ok()?;
    let val = if v == "tombstone" { None } else if v == "-" { Some(vec![]) } else { Some(unhex(v)?) };
    Some((key, ts, val))
}

fn stack_case(cx: &mut Ctx, name: &str, sc: StackCase, malformed: Option<&'static str>) {
    let StackCase { tabs, t, lo, hi, ops, shapes } = sc;
    let comb = Comb::Stack(t, lo.clone(), hi.clone());
    let req = request(&comb, &tabs, &ops, &cx.asis);
    let spec = spec_list(&comb, &tabs);
    let res = {
        let dir = &mut cx.dir;
        guarded(AssertUnwindSafe(|| run_prog(build(&comb, &tabs, dir), &ops)))
    };
    cx.dir.sweep();
    let rec = &mut cx.rec;
    rec.count(&format!("cases.{}", name));
    rec.add(&format!("{}.tables", name), tabs.len() as u64);
    let total: usize = tabs.iter().map(|t| t.ents.len()).sum();
    rec.add("entries", total as u64);
    rec.add("entries.tombstones", tabs.iter().map(|t| t.ents.iter().filter(|e| e.val.is_none()).count() as u64).sum());
    for tb in &tabs {
        rec.count(match tb.kind { ChildKind::Ref => "child.reference", ChildKind::Sst => "child.sst", ChildKind::LazySst => "child.lazy_over_sst", ChildKind::LazyReopen => "child.lazy_reopening_sst" });
        if tb.prepos > 0 {
            rec.count("child.prepositioned");
        }
    }
    for sh in &shapes {
        rec.count(&format!("{}.shape.{}", name, sh));
    }
    rec.count(&format!("{}.bounds.{}{}", name, lo.kind(), hi.kind()));
    rec.add("ops", ops.len() as u64);
    let (rev, _) = count_prog(rec, &ops);
    if rev > 0 {
        rec.count(&format!("{}.cases_with_reversal", name));
    }
    // the duplicates and which of them matter at this timestamp and these bounds
    let ents: Vec<Vec<Ent>> = tabs.iter().map(|t| t.ents.clone()).collect();
    let dups = duplicates(&ents);
    let all: Vec<&Ent> = ents.iter().flat_map(|t| t.iter()).collect();
    let in_bounds = |k: &[u8]| above_lo(&lo, k) && below_hi(&hi, k);
    let candidate = |k: &[u8], ts: u64| ts <= t && !all.iter().any(|e| e.key == k && e.ts <= t && e.ts > ts);
    let mut visible = 0u64;
    let mut visible_tomb = 0u64;
    let first_key = all.iter().map(|e| e.key.clone()).min();
    let last_key = all.iter().map(|e| e.key.clone()).max();
    for (k, ts, hs) in &dups {
        rec.count(&format!("{}.duplicate.holders_{}", name, if hs.len() >= 4 { "4plus".to_string() } else { hs.len().to_string() }));
        let tomb = all.iter().any(|e| e.key == *k && e.ts == *ts && e.val.is_none());
        if tomb {
            rec.count(&format!("{}.duplicate.tombstone", name));
        }
        if Some(k) == first_key.as_ref() {
            rec.count(&format!("{}.duplicate.at_first_key", name));
        }
        if Some(k) == last_key.as_ref() {
            rec.count(&format!("{}.duplicate.at_last_key", name));
        }
        let at_bound = |b: &Bd| matches!(b, Bd::Inc(x) | Bd::Exc(x) if x == k);
        if at_bound(&lo) || at_bound(&hi) {
            rec.count(&format!("{}.duplicate.key_is_a_bound", name));
        }
        if candidate(k, *ts) && in_bounds(k) {
            visible += 1;
            if tomb {
                visible_tomb += 1;
            }
        }
    }
    rec.add(&format!("{}.duplicate_key_ts", name), dups.len() as u64);
    rec.add(&format!("{}.duplicate_visible_at_t_in_bounds", name), visible);
    rec.add(&format!("{}.duplicate_visible_at_t_in_bounds.tombstone", name), visible_tomb);
    let ids: Vec<Vec<(&[u8], u64)>> = ents.iter().map(|t| t.iter().map(|e| (e.key.as_slice(), e.ts)).collect()).collect();
    if (0..ids.len()).any(|a| !ids[a].is_empty() && (0..ids.len()).any(|b| a != b && ids[a] == ids[b])) {
        rec.count(&format!("{}.cases_with_two_children_of_identical_content", name));
    }
    if !dups.is_empty() {
        rec.count(&format!("{}.cases_with_duplicates", name));
    }
    let nt = if visible > 0 { Some(fnv(req.as_bytes())) } else { None };
    if nt.is_some() {
        rec.count(&format!("{}.nontrivial_cases", name));
        if rev > 0 {
            rec.count(&format!("{}.nontrivial_cases_with_reversal", name));
        }
    }
    let (obs_line, verdict) = match res {
        Ok(obs) => {
            let v = match malformed {
                None => judge(&comb, &tabs, &ops, spec.clone(), &obs, false, &cx.asis),
                Some(mode) => {
                    // no verdict: what happens is recorded
                    rec.count(&format!("{}.mode.{}", name, mode));
                    if obs.iter().any(|o| o.starts_with("err:")) {
                        rec.count(&format!("{}.program_ended_with_error", name));
                    }
                    // which child's copy is shown, by the direction of the call that led there
                    let mut seen: Vec<(Vec<u8>, u64, bool, usize)> = vec![];
                    let mut shown_keys: Vec<(Vec<u8>, bool)> = vec![];
                    for (i, op) in ops.iter().enumerate() {
                        let o = match obs.get(i + 1) { Some(o) => o, None => break };
                        let fwd = match op { Op::Next | Op::Seek(_) | Op::First => true, Op::Prev | Op::Last => false };
                        if let Some((k, ts, v)) = parse_obs(o) {
                            shown_keys.push((k.clone(), fwd));
                            if let Some((_, _, hs)) = dups.iter().find(|d| d.0 == k && d.1 == ts) {
                                let distinct_vals = {
                                    let mut vs: Vec<&Option<Vec<u8>>> = all.iter().filter(|e| e.key == k && e.ts == ts).map(|e| &e.val).collect();
                                    vs.sort();
                                    vs.dedup();
                                    vs.len()
                                };
                                if distinct_vals < 2 {
                                    continue;
                                }
                                let j = match v { Some(v) if v.len() == 2 && v[0] == b'c' => (v[1] - b'0') as usize, _ => continue };
                                let rank = if j == hs[0] { "lowest_index_holder" } else if j == hs[hs.len() - 1] { "highest_index_holder" } else { "middle_holder" };
                                rec.count(&format!("{}.winner.{}.{}", name, if fwd { "after_next_or_seek" } else { "after_prev" }, rank));
                                seen.push((k, ts, fwd, j));
                            }
                        }
                    }
                    let mut ids: Vec<(Vec<u8>, u64)> = seen.iter().map(|x| (x.0.clone(), x.1)).collect();
                    ids.sort();
                    ids.dedup();
                    for (k, ts) in ids {
                        let f: Vec<usize> = { let mut v: Vec<usize> = seen.iter().filter(|x| x.0 == k && x.1 == ts && x.2).map(|x| x.3).collect(); v.sort(); v.dedup(); v };
                        let b: Vec<usize> = { let mut v: Vec<usize> = seen.iter().filter(|x| x.0 == k && x.1 == ts && !x.2).map(|x| x.3).collect(); v.sort(); v.dedup(); v };
                        if f.len() > 1 { rec.count(&format!("{}.winner_varies_within_forward_calls", name)); }
                        if b.len() > 1 { rec.count(&format!("{}.winner_varies_within_backward_calls", name)); }
                        if !f.is_empty() && !b.is_empty() {
                            rec.count(&format!("{}.duplicate_shown_in_both_directions.{}", name, if f == b { "same_winner" } else { "different_winner" }));
                        }
                    }
                    // a duplicated version that is a tombstone in one child and a value in another
                    for (k, ts, _) in &dups {
                        let vals: Vec<&Ent> = all.iter().filter(|e| e.key == *k && e.ts == *ts).cloned().collect();
                        let mixed = vals.iter().any(|e| e.val.is_none()) && vals.iter().any(|e| e.val.is_some());
                        if mixed && candidate(k, *ts) && in_bounds(k) {
                            let f = shown_keys.iter().any(|x| x.0 == *k && x.1);
                            let b = shown_keys.iter().any(|x| x.0 == *k && !x.1);
                            rec.count(&format!("{}.tombstone_vs_value.key_{}", name, match (f, b) { (true, true) => "shown_in_both_directions", (true, false) => "shown_after_next_or_seek_only", (false, true) => "shown_after_prev_only", _ => "never_shown_by_this_program" }));
                        }
                    }
                    Verdict::Ok
                }
            };
            (obs.join(" "), v)
        }
        Err(m) => match malformed {
            None => ("panic".to_string(), Verdict::Fail { class: "panic".into(), detail: m }),
            Some(_) => {
                rec.count(&format!("{}.panic", name));
                ("panic".to_string(), Verdict::Ok)
            }
        },
    };
    rec.case(&req, &obs_line, verdict, nt);
}

pub fn run(args: &Args) {
    let rec = Recorder::new(&args.out, args.only_case);
    let mut dir = SstDir::new(&args.out);
    let asis = detect(&mut dir);
    let mut cx = Ctx { rec, dir, asis, args };
    let scale = if args.thorough { 30 } else { 3 };

    // ---- stream 0: the known inputs, always first ------------------------------------------------
    let fixed: Vec<(&str, (Comb, Vec<Tab>, Vec<Op>))> = vec![
        ("concat", d2_input()),
        ("concat", d18_input()),
        ("bounds", d19_input()),
        ("concat", (Comb::Concat, vec![reft(vec![put(b"a"), put(b"b")]), reft(vec![]), reft(vec![put(b"d"), put(b"e")])], vec![Op::Seek(b"d".to_vec()), Op::Prev, Op::Next, Op::Next])),
        ("bounds", (Comb::Bounds(Bd::Unb, Bd::Exc(b"".to_vec())), vec![reft(vec![put(b""), put(b"a")])], vec![Op::Seek(b"a".to_vec()), Op::Prev, Op::Next])),
        ("merge", (Comb::Merge, vec![], vec![Op::Next, Op::Prev, Op::Last, Op::Seek(b"a".to_vec())])),
    ];
    for (name, (comb, tabs, ops)) in fixed {
        if !cx.rec.wants() {
            cx.rec.skip();
            continue;
        }
        one_case(&mut cx, name, comb, tabs, ops, false);
    }

    // ---- stream 1: merging, pairwise distinct (key, ts) --------------------------------------------
    for i in 0..1200 * scale {
        if !cx.rec.wants() { cx.rec.skip(); continue; }
        let mut rng = Rng::for_case(args.seed, 1, i);
        let tp = gen_tomb_pct(&mut rng);
        let pool = gen_pool(&mut rng, tp);
        let mut tabs = split_for_merge(&mut rng, pool, false, tp);
        gen_kinds(&mut rng, &mut tabs);
        let n: usize = tabs.iter().map(|t| t.ents.len()).sum();
        let ops = gen_prog(&mut rng, n);
        let with_key_in_two = {
            let mut seen: Vec<(&[u8], usize)> = vec![];
            for (j, t) in tabs.iter().enumerate() { for e in &t.ents { seen.push((&e.key, j)); } }
            seen.iter().any(|(k, j)| seen.iter().any(|(k2, j2)| k == k2 && j != j2))
        };
        if with_key_in_two { cx.rec.count("merge.key_shared_by_two_tables"); }
        one_case(&mut cx, "merge", Comb::Merge, tabs, ops, false);
    }

    // ---- stream 2: merging with the same (key, ts) in several children -----------------------------
    for i in 0..500 * scale {
        if !cx.rec.wants() { cx.rec.skip(); continue; }
        let mut rng = Rng::for_case(args.seed, 2, i);
        let tp = gen_tomb_pct(&mut rng);
        let pool = gen_pool(&mut rng, tp);
        let mut tabs = split_for_merge(&mut rng, pool, true, tp);
        gen_kinds(&mut rng, &mut tabs);
        let n: usize = tabs.iter().map(|t| t.ents.len()).sum();
        let ops = gen_prog(&mut rng, n);
        let ndup = {
            let all: Vec<(&[u8], u64)> = tabs.iter().flat_map(|t| t.ents.iter().map(|e| (e.key.as_slice(), e.ts))).collect();
            let mut s = all.clone();
            s.sort();
            s.dedup();
            (all.len() - s.len()) as u64
        };
        cx.rec.add("mergedup.duplicate_key_ts", ndup);
        if ndup > 0 { cx.rec.count("mergedup.cases_with_duplicates"); }
        one_case(&mut cx, "mergedup", Comb::Merge, tabs, ops, true);
    }

    // ---- stream 3: concatenation --------------------------------------------------------------------
    for i in 0..1500 * scale {
        if !cx.rec.wants() { cx.rec.skip(); continue; }
        let mut rng = Rng::for_case(args.seed, 3, i);
        let tp = gen_tomb_pct(&mut rng);
        let pool = gen_pool(&mut rng, tp);
        let mut tabs = split_for_concat(&mut rng, pool);
        gen_kinds(&mut rng, &mut tabs);
        let n: usize = tabs.iter().map(|t| t.ents.len()).sum();
        let ops = gen_prog(&mut rng, n);
        let split = tabs.windows(2).any(|w| match (w[0].ents.last(), w[1].ents.first()) { (Some(a), Some(b)) => a.key == b.key, _ => false });
        if split { cx.rec.count("concat.key_split_across_adjacent_tables"); }
        if tabs.len() >= 2 && tabs[..tabs.len() - 1].iter().any(|t| t.ents.iter().any(|e| e.val.is_none())) { cx.rec.count("concat.tombstone_inside_child"); }
        one_case(&mut cx, "concat", Comb::Concat, tabs, ops, false);
    }

    // ---- stream 4: bounds ---------------------------------------------------------------------------
    for i in 0..1500 * scale {
        if !cx.rec.wants() { cx.rec.skip(); continue; }
        let mut rng = Rng::for_case(args.seed, 4, i);
        let tp = gen_tomb_pct(&mut rng);
        let pool = gen_pool(&mut rng, tp);
        let mut tabs = vec![Tab { ents: pool, kind: ChildKind::Ref, prepos: 0 }];
        gen_kinds(&mut rng, &mut tabs);
        let mut lo = gen_bd(&mut rng);
        let mut hi = gen_bd(&mut rng);
        // three times in five the interval is put the right way round (the rest: as drawn,
        // which leaves inverted and empty intervals)
        if rng.chance(3, 5) {
            let swap = match (&lo, &hi) {
                (Bd::Inc(a) | Bd::Exc(a), Bd::Inc(b) | Bd::Exc(b)) => a > b,
                _ => false,
            };
            if swap {
                std::mem::swap(&mut lo, &mut hi);
            }
        }
        let ops = gen_prog(&mut rng, tabs[0].ents.len());
        cx.rec.count(&format!("bounds.kind.{}{}", lo.kind(), hi.kind()));
        let inverted = match (&lo, &hi) {
            (Bd::Inc(a), Bd::Inc(b)) => a > b,
            (Bd::Inc(a), Bd::Exc(b)) | (Bd::Exc(a), Bd::Inc(b)) | (Bd::Exc(a), Bd::Exc(b)) => a >= b,
            _ => false,
        };
        if inverted { cx.rec.count("bounds.inverted_or_empty_interval"); }
        if ops.iter().any(|o| matches!(o, Op::Seek(k) if past_end(&hi, k))) { cx.rec.count("bounds.seek_past_end"); }
        if ops.iter().any(|o| matches!(o, Op::Seek(k) if !above_lo(&lo, k))) { cx.rec.count("bounds.seek_before_start"); }
        one_case(&mut cx, "bounds", Comb::Bounds(lo, hi), tabs, ops, false);
    }

    // ---- stream 5: pruning --------------------------------------------------------------------------
    for i in 0..1200 * scale {
        if !cx.rec.wants() { cx.rec.skip(); continue; }
        let mut rng = Rng::for_case(args.seed, 5, i);
        let tp = gen_tomb_pct(&mut rng);
        let pool = gen_pool(&mut rng, tp);
        let mut tabs = vec![Tab { ents: pool, kind: ChildKind::Ref, prepos: 0 }];
        gen_kinds(&mut rng, &mut tabs);
        let t = *rng.pick(&READ_TS);
        let ops = gen_prog(&mut rng, tabs[0].ents.len());
        if tabs[0].ents.iter().any(|e| e.ts > t) { cx.rec.count("prune.has_version_newer_than_t"); }
        one_case(&mut cx, "prune", Comb::Prune(t), tabs, ops, false);
    }

    // ---- stream 6: lazy -----------------------------------------------------------------------------
    for i in 0..400 * scale {
        if !cx.rec.wants() { cx.rec.skip(); continue; }
        let mut rng = Rng::for_case(args.seed, 6, i);
        let tp = gen_tomb_pct(&mut rng);
        let mut pool = gen_pool(&mut rng, tp);
        if rng.chance(1, 10) {
            // several blocks: values of ~1.5 KiB
            for e in pool.iter_mut() {
                if e.val.is_some() { e.val = Some(vec![b'x'; 1400 + rng.below(300) as usize]); }
            }
            cx.rec.count("lazy.multi_block_sst");
        }
        let kind = if pool.is_empty() { ChildKind::Ref } else if rng.chance(1, 2) { ChildKind::LazySst } else { ChildKind::LazyReopen };
        let tabs = vec![Tab { ents: pool, kind, prepos: 0 }];
        let ops = gen_prog(&mut rng, tabs[0].ents.len());
        one_case(&mut cx, "lazy", Comb::Lazy, tabs, ops, false);
    }

    // ---- stream 7: the scan stack over children with duplicated, IDENTICAL (key, ts) entries ---------
    // ---- stream 8: the same with DIFFERENT payloads in the copies (malformed; recorded, no verdict) -
    // (the stack model holds the repaired `BoundsCursor::prev`; on a tree without the D-19 repair
    // the bounds stream reports the finding and these streams are not run)
    if !cx.asis.bounds_prev_old {
        for i in 0..900 * scale {
            if !cx.rec.wants() { cx.rec.skip(); continue; }
            let mut rng = Rng::for_case(args.seed, 7, i);
            let sc = gen_stackdup(&mut rng);
            stack_case(&mut cx, "stackdup", sc, None);
        }
        // the smallest malformed inputs, always first in the stream: one (key, ts), two or three
        // children, value vs value and value vs tombstone, there and back
        let val = |j: u8| Ent { key: b"a".to_vec(), ts: 1, val: Some(vec![b'c', b'0' + j]) };
        let fixed_mal: Vec<(Vec<Tab>, Vec<Op>)> = vec![
            (vec![reft(vec![val(0)]), reft(vec![val(1)])], vec![Op::Next, Op::Prev, Op::Next, Op::Last, Op::Prev, Op::Next, Op::Prev]),
            (vec![reft(vec![val(0)]), reft(vec![del(b"a")])], vec![Op::Next, Op::Last, Op::Prev]),
            (vec![reft(vec![del(b"a")]), reft(vec![val(1)])], vec![Op::Next, Op::Last, Op::Prev]),
            (vec![reft(vec![val(0)]), reft(vec![val(1)]), reft(vec![val(2)])], vec![Op::Next, Op::Last, Op::Prev, Op::Next, Op::Prev]),
        ];
        for (tabs, ops) in fixed_mal {
            if !cx.rec.wants() { cx.rec.skip(); continue; }
            let sc = StackCase { tabs, t: 9, lo: Bd::Unb, hi: Bd::Unb, ops, shapes: vec!["fixed_minimal"] };
            stack_case(&mut cx, "stackmal", sc, Some("fixed_minimal"));
        }
        for i in 0..400 * scale {
            if !cx.rec.wants() { cx.rec.skip(); continue; }
            let mut rng = Rng::for_case(args.seed, 8, i);
            let mut sc = gen_stackdup(&mut rng);
            let mode = make_malformed(&mut rng, &mut sc);
            stack_case(&mut cx, "stackmal", sc, Some(mode));
        }
    } else {
        cx.rec.count("stack_streams_not_run.bounds_prev_unrepaired");
    }

    let a = cx.asis;
    let _ = cx.args;
    let extra = format!(
        "{{\"concat_next_as_before_D2_repair\": {}, \"concat_seek_as_before_D18_repair\": {}, \"bounds_prev_as_before_D19_repair\": {}}}",
        a.concat_next_old, a.concat_seek_old, a.bounds_prev_old
    );
    drop(cx.dir);
    cx.rec.finish(
        "nine seeded streams (known inputs; merging with pairwise distinct (key,ts); merging with duplicated (key,ts); concatenation of a sorted list cut at arbitrary points incl. inside a key; bounds of all nine kinds; pruning; lazy over SSTs; stackdup = the real Bounds(Pruning(Merging[children])) stack over children holding IDENTICAL copies of a (key,ts): flush-window shape (one child's whole content once more as another child), a copy in three children, duplicated tombstones, duplicates at the first/last key and at the bounds, all children identical, oracle = vector cursor over the deduplicated versions; stackmal = the same with DIFFERENT values / tombstone flags in the copies, model = implementation compared, no oracle verdict, the winning child recorded) over the key alphabet {'', a, a\\0, a\\xff, aa, ab, b, \\xff, \\xff\\xff}, timestamps {0,1,2,3,4,6,9}, tombstone rate 0/35/60/100 %, children = ReferenceCursor (sometimes pre-positioned) / SstCursor / LazyCursor; programs = random walks, position sweeps with reversals at every position, full traversals there and back; non-trivial = specified list has >= 2 entries, the program reverses direction (next after prev or prev after next) at least once and >= 2 different entries were shown (streams 0-6); for stackdup/stackmal: at least one duplicated (key,ts) is the newest version <= t of its key and its key lies inside the bounds (counted separately as stackdup.nontrivial_cases / stackmal.nontrivial_cases); distinct by request text",
        &[("code_variant_detected", extra)],
    );
}
