//! C18 — sync42: LRU cache (`lru`), wait list (`wl`), work-coalescing queue (`wcq`).
//!
//! * `lru`: seeded op sequences on the real `LeastRecentlyUsedCache`; after every op the result,
//!   the accounted size and the full contents in recency order (obtained by replaying the prefix
//!   on a fresh cache and draining it with `pop`) are compared with the Lean model `Blue.Lru`;
//!   the oracle is an independent list-based LRU written here plus the size invariants.
//! * `wl`: link / unlink-in-any-order / notify_head sequences on the real `WaitList` (65536
//!   slots), including a full ring (the 65537th `link` blocks in a helper thread) and index
//!   wrap-around; what the guards can observe (head, tail, linked flags) is compared with the
//!   model `Blue.WaitList`; the oracle: exactly one live guard is head and it is the oldest.
//! * `wcq`: real threads call `do_work` on one queue; the core, the output iterator and the
//!   output type's `Clone` are harness code and stamp a global clock, which yields the real order
//!   of lead / deliver / observe / finish events without touching sync42.  The recorded run is
//!   sent to the driver, which must accept it as a run of the model `Blue.WcqV` (every event
//!   enabled, no panic state) and reproduce the returned values; the oracle checks exactly-once,
//!   own result, order (per thread and real time), leader = first of batch, nobody stuck.
use crate::common::*;
use std::cell::Cell;
use std::collections::{BTreeMap, BTreeSet, HashMap};
use std::panic::AssertUnwindSafe;
use std::sync::atomic::{AtomicBool, AtomicU64, Ordering};
use std::sync::{Arc, Barrier, Mutex};
use std::time::{Duration, Instant};
use sync42::lru::{LeastRecentlyUsedCache, Value};
use sync42::wait_list::{WaitGuard, WaitList};
use sync42::work_coalescing_queue::{WorkCoalescingCore, WorkCoalescingQueue};

// =================================================================================== LRU ======

#[derive(Clone, Debug, PartialEq, Eq)]
struct Val {
    id: u64,
    size: usize,
}

impl Value for Val {
    fn approximate_size(&self) -> usize {
        self.size
    }
}

#[derive(Clone, Debug)]
enum LOp {
    Ins(u64, Val),
    Nev(u64, Val),
    Look(u64),
    Rem(u64),
    Pop,
}

impl LOp {
    fn tok(&self) -> String {
        match self {
            LOp::Ins(k, v) => format!("i{},{},{}", k, v.id, v.size),
            LOp::Nev(k, v) => format!("n{},{},{}", k, v.id, v.size),
            LOp::Look(k) => format!("l{}", k),
            LOp::Rem(k) => format!("r{}", k),
            LOp::Pop => "p".to_string(),
        }
    }
}

fn r_val(v: &Val) -> String {
    format!("{}.{}", v.id, v.size)
}

fn r_contents(c: &[(u64, Val)]) -> String {
    if c.is_empty() {
        "-".to_string()
    } else {
        c.iter().map(|(k, v)| format!("{}.{}", k, r_val(v))).collect::<Vec<_>>().join(";")
    }
}

fn apply_real(c: &LeastRecentlyUsedCache<u64, Val>, op: &LOp) -> String {
    match op {
        LOp::Ins(k, v) => {
            c.insert(*k, v.clone());
            "-".into()
        }
        LOp::Nev(k, v) => {
            c.insert_no_evict(*k, v.clone());
            "-".into()
        }
        LOp::Look(k) => match c.lookup(k) {
            Some(v) => format!("h{}", r_val(&v)),
            None => "m".into(),
        },
        LOp::Rem(k) => {
            c.remove(k);
            "-".into()
        }
        LOp::Pop => match c.pop() {
            Some((k, v)) => format!("{}.{}", k, r_val(&v)),
            None => "e".into(),
        },
    }
}

/// the reference: a sequential LRU map as a vector, index 0 = most recently used
struct RefLru {
    cap: usize,
    size: usize,
    ents: Vec<(u64, Val)>,
}

impl RefLru {
    fn put(&mut self, k: u64, v: Val) {
        if let Some(p) = self.ents.iter().position(|e| e.0 == k) {
            // overwrite in place: recency untouched (what the code does)
            self.size = self.size + v.size - self.ents[p].1.size;
            self.ents[p].1 = v;
        } else {
            self.size += v.size;
            self.ents.insert(0, (k, v));
        }
    }
    fn apply(&mut self, op: &LOp) -> String {
        match op {
            LOp::Ins(k, v) => {
                self.put(*k, v.clone());
                while self.size > self.cap && !self.ents.is_empty() {
                    let (_, v) = self.ents.pop().unwrap();
                    self.size -= v.size;
                }
                "-".into()
            }
            LOp::Nev(k, v) => {
                self.put(*k, v.clone());
                "-".into()
            }
            LOp::Look(k) => match self.ents.iter().position(|e| e.0 == *k) {
                Some(p) => {
                    let e = self.ents.remove(p);
                    let s = format!("h{}", r_val(&e.1));
                    self.ents.insert(0, e);
                    s
                }
                None => "m".into(),
            },
            LOp::Rem(k) => {
                if let Some(p) = self.ents.iter().position(|e| e.0 == *k) {
                    let e = self.ents.remove(p);
                    self.size -= e.1.size;
                }
                "-".into()
            }
            LOp::Pop => match self.ents.pop() {
                Some((k, v)) => {
                    self.size -= v.size;
                    format!("{}.{}", k, r_val(&v))
                }
                None => "e".into(),
            },
        }
    }
}

fn gen_lru(rng: &mut Rng, i: u64) -> (usize, Vec<LOp>, u64) {
    let cap: usize = match i {
        0 => 0,
        1 => 1,
        _ => match rng.below(10) {
            0 => 0,
            1 => 1,
            2 => 2,
            3 => 3,
            4 => 5,
            5 => 8,
            6 => 10,
            7 => 16,
            _ => rng.range(4, 40) as usize,
        },
    };
    let alphabet = rng.range(1, 5);
    let nops = if i < 2 { 12 } else { rng.below(31) as usize };
    let mut ops = vec![];
    let mut next_id = 1u64;
    for _ in 0..nops {
        let k = rng.below(alphabet);
        let size = |rng: &mut Rng| -> usize {
            match rng.below(9) {
                0 => 0,
                1 => 1,
                2 => 2,
                3 => cap.saturating_sub(1),
                4 => cap,
                5 => cap + 1,
                6 => 2 * cap + 3,
                7 => rng.below(cap as u64 + 6) as usize,
                _ => rng.below(cap as u64 / 2 + 2) as usize,
            }
        };
        let op = match rng.below(100) {
            0..=34 => {
                let v = Val { id: next_id, size: size(rng) };
                next_id += 1;
                LOp::Ins(k, v)
            }
            35..=49 => {
                let v = Val { id: next_id, size: size(rng) };
                next_id += 1;
                LOp::Nev(k, v)
            }
            50..=74 => LOp::Look(k),
            75..=86 => LOp::Rem(k),
            _ => LOp::Pop,
        };
        ops.push(op);
    }
    (cap, ops, alphabet)
}

struct LruOut {
    obs: Vec<String>,
    fails: Vec<String>,
    evictions: u64,
    over_cap_states: u64,
    hits: u64,
    overwrites: u64,
}

fn run_lru(cap: usize, ops: &[LOp]) -> LruOut {
    let mut out = LruOut { obs: vec![], fails: vec![], evictions: 0, over_cap_states: 0, hits: 0, overwrites: 0 };
    let mut reference = RefLru { cap, size: 0, ents: vec![] };
    // size may exceed the capacity only by what insert_no_evict added since the last evicting insert
    let mut slack: usize = 0;
    for p in 0..ops.len() {
        let c: LeastRecentlyUsedCache<u64, Val> = LeastRecentlyUsedCache::new(cap);
        let mut res = String::new();
        for op in &ops[..=p] {
            res = apply_real(&c, op);
        }
        let size = c.approximate_size();
        // contents: drain with pop (least recent first), then reverse
        let mut contents: Vec<(u64, Val)> = vec![];
        let mut acc = size;
        loop {
            match c.pop() {
                Some((k, v)) => {
                    acc = acc.wrapping_sub(v.size);
                    if c.approximate_size() != acc {
                        out.fails.push(format!("op{}:pop-does-not-subtract-entry-size", p));
                    }
                    contents.push((k, v));
                    if contents.len() > ops.len() + 1 {
                        out.fails.push(format!("op{}:drain-does-not-end", p));
                        break;
                    }
                }
                None => break,
            }
        }
        contents.reverse();
        if c.approximate_size() != 0 {
            out.fails.push(format!("op{}:drained-cache-accounts-{}", p, c.approximate_size()));
        }
        out.obs.push(format!("{}/{}/{}", res, size, r_contents(&contents)));

        // ---- oracle ----
        let before = reference.ents.len();
        let existed = match &ops[p] {
            LOp::Ins(k, _) | LOp::Nev(k, _) => reference.ents.iter().any(|e| e.0 == *k),
            _ => false,
        };
        let want = reference.apply(&ops[p]);
        if existed {
            out.overwrites += 1;
        }
        if let LOp::Ins(..) = &ops[p] {
            let after_helper = if existed { before } else { before + 1 };
            out.evictions += (after_helper - reference.ents.len()) as u64;
        }
        if res.starts_with('h') {
            out.hits += 1;
        }
        if want != res {
            out.fails.push(format!("op{}:result {} want {}", p, res, want));
        }
        if reference.size != size {
            out.fails.push(format!("op{}:size {} want {}", p, size, reference.size));
        }
        if reference.ents != contents {
            out.fails.push(format!("op{}:contents {} want {}", p, r_contents(&contents), r_contents(&reference.ents)));
        }
        let sum: usize = contents.iter().map(|e| e.1.size).sum();
        if sum != size {
            out.fails.push(format!("op{}:size {} is not the sum of entry sizes {}", p, size, sum));
        }
        let keys: BTreeSet<u64> = contents.iter().map(|e| e.0).collect();
        if keys.len() != contents.len() {
            out.fails.push(format!("op{}:duplicate key", p));
        }
        match &ops[p] {
            LOp::Ins(..) => {
                if !(size <= cap || contents.is_empty()) {
                    out.fails.push(format!("op{}:evicting insert left size {} > cap {}", p, size, cap));
                }
                slack = 0;
            }
            LOp::Nev(_, v) => slack += v.size,
            _ => {}
        }
        if size > cap + slack {
            out.fails.push(format!("op{}:size {} exceeds cap {} by more than no-evict entries {}", p, size, cap, slack));
        }
        if size > cap {
            out.over_cap_states += 1;
        }
    }
    out
}

// ============================================================================== wait list ======

const SLOTS: u64 = sync42::MAX_CONCURRENCY as u64;

struct Wl<'a> {
    list: &'a WaitList<u64>,
    /// live guards by the index the harness expects them to have (its own bookkeeping)
    guards: BTreeMap<u64, WaitGuard<'a, u64>>,
    next: u64,
    toks: Vec<String>,
    obs: Vec<String>,
    fails: Vec<String>,
    /// a call into the list panicked: the case ends (guards are leaked, their drop would panic
    /// again on the poisoned mutex)
    dead: Option<String>,
}

impl<'a> Wl<'a> {
    fn die(&mut self, m: String) {
        self.fails.push(format!("op{}:panic {}", self.obs.len(), m));
        self.obs.push("panic".into());
        let g = std::mem::take(&mut self.guards);
        std::mem::forget(g);
        self.dead = Some(m);
    }

    fn observe(&mut self, res: &str) {
        if self.dead.is_some() {
            return;
        }
        if let Err(m) = guarded(AssertUnwindSafe(|| self.observe_inner(res))) {
            self.die(m);
        }
    }

    fn link_now(&mut self) -> u64 {
        if self.dead.is_some() {
            return u64::MAX;
        }
        match guarded(AssertUnwindSafe(|| self.link_inner())) {
            Ok(i) => i,
            Err(m) => {
                self.die(m);
                u64::MAX
            }
        }
    }

    fn unlink(&mut self, k: u64) {
        if self.dead.is_some() {
            return;
        }
        if let Err(m) = guarded(AssertUnwindSafe(|| self.unlink_inner(k))) {
            self.die(m);
        }
    }

    /// the state as the live guards can observe it + oracle
    fn observe_inner(&mut self, res: &str) {
        let n = self.obs.len();
        if self.guards.is_empty() {
            self.obs.push(format!("{}:empty", res));
            return;
        }
        let keys: Vec<u64> = self.guards.keys().copied().collect();
        let oldest = keys[0];
        // which guards to ask: all when few, else the oldest eight, the newest, and a spread
        let ask: Vec<u64> = if keys.len() <= 96 {
            keys.clone()
        } else {
            let mut a: Vec<u64> = keys[..8].to_vec();
            a.push(*keys.last().unwrap());
            for j in 1..8 {
                a.push(keys[j * keys.len() / 8]);
            }
            a
        };
        let mut heads: Vec<u64> = vec![];
        for k in &ask {
            let g = self.guards.get_mut(k).unwrap();
            let idx = g.index();
            if idx != *k {
                self.fails.push(format!("op{}:guard {} reports index {}", n, k, idx));
            }
            if g.is_head() {
                heads.push(idx);
            }
        }
        if heads.len() != 1 {
            self.fails.push(format!("op{}:{} heads among live guards {:?}", n, heads.len(), heads));
            self.obs.push(format!("{}:heads{:?}", res, heads).replace(' ', ""));
            return;
        }
        let head = heads[0];
        if head != oldest {
            self.fails.push(format!("op{}:head {} is not the oldest live guard {}", n, head, oldest));
        }
        let hk = if self.guards.contains_key(&head) { head } else { oldest };
        let live_flags: Vec<bool> = (0..64).map(|j| self.guards.contains_key(&(head + j))).collect();
        let g = self.guards.get_mut(&hk).unwrap();
        let count = g.count();
        let tail = head + count;
        if tail != self.next {
            self.fails.push(format!("op{}:tail {} but {} links succeeded", n, tail, self.next));
        }
        let w = std::cmp::min(count, 64);
        let mut bits = String::new();
        for j in 0..w {
            let some = g.get_waiter(head + j).is_some();
            bits.push(if some { '1' } else { '0' });
        }
        // iterator: every index from the guard to the tail, linked or not
        if count <= 4096 {
            let it: Vec<u64> = g.iter().map(|mut x| x.index()).collect();
            let want: Vec<u64> = (head..tail).collect();
            if it != want {
                self.fails.push(format!("op{}:iterator from head yields {} items, want {}..{}", n, it.len(), head, tail));
            }
        }
        if g.get_waiter(tail).is_some() {
            self.fails.push(format!("op{}:get_waiter(tail) is some", n));
        }
        for j in 0..w {
            let live = live_flags[j as usize];
            if live != (bits.as_bytes()[j as usize] == b'1') {
                self.fails.push(format!("op{}:linked flag of {} is {} but guard live={}", n, head + j, bits.as_bytes()[j as usize] as char, live));
            }
        }
        self.obs.push(format!("{}:h{}t{}w{}", res, head, tail, bits));
    }

    fn full(&self) -> bool {
        match self.guards.keys().next() {
            Some(o) => self.next - o >= SLOTS,
            None => false,
        }
    }

    fn link_inner(&mut self) -> u64 {
        let mut g = self.list.link(self.next);
        let idx = g.index();
        self.guards.insert(self.next, g);
        self.next += 1;
        idx
    }

    fn unlink_inner(&mut self, k: u64) {
        let g = self.guards.remove(&k).unwrap();
        self.list.unlink(g);
    }
}

struct WlOut {
    req: String,
    obs: String,
    fails: Vec<String>,
    blocked_seen: u64,
    unblocked_seen: u64,
    nonhead_unlinks: u64,
    head_unlinks: u64,
    max_live: u64,
}

/// kind 0: short sequences; 1: full ring with a blocked linker; 2: wrap-around
fn run_wl(rng: &mut Rng, kind: u64) -> WlOut {
    let list: WaitList<u64> = WaitList::new();
    let helper_done = AtomicBool::new(false);
    let mut out = WlOut { req: String::new(), obs: String::new(), fails: vec![], blocked_seen: 0, unblocked_seen: 0, nonhead_unlinks: 0, head_unlinks: 0, max_live: 0 };
    std::thread::scope(|scope| {
        let mut w = Wl { list: &list, guards: BTreeMap::new(), next: 0, toks: vec![], obs: vec![], fails: vec![], dead: None };
        let mut helper: Option<std::thread::ScopedJoinHandle<'_, WaitGuard<'_, u64>>> = None;
        match kind {
            1 => {
                for _ in 0..SLOTS {
                    w.link_now();
                }
                w.toks.push(format!("L*{}", SLOTS));
                w.observe("-");
            }
            2 => {
                let pre = rng.range(1, 3);
                for _ in 0..pre {
                    let idx = w.link_now();
                    w.toks.push("L".into());
                    w.observe(&idx.to_string());
                }
                let c = SLOTS + rng.range(0, 9000);
                for _ in 0..c {
                    w.link_now();
                    if let Some(o) = w.guards.keys().next().copied() {
                        w.unlink(o);
                    }
                }
                w.toks.push(format!("C{}", c));
                w.observe("-");
            }
            _ => {}
        }
        let nops = match kind {
            1 => rng.range(6, 16),
            _ => rng.below(40),
        };
        let max_live = if kind == 0 { rng.range(1, 12) } else { u64::MAX };
        for _ in 0..nops {
            if w.dead.is_some() {
                break;
            }
            out.max_live = out.max_live.max(w.guards.len() as u64);
            let r = rng.below(100);
            let want_link = if kind == 1 { r < 35 } else { r < 45 };
            if want_link && (w.guards.len() as u64) < max_live {
                // ---- link ----
                if w.full() {
                    // the real call blocks: run it in a helper and see that it does not return
                    if helper.is_none() {
                        let l = &list;
                        let d = &helper_done;
                        let v = w.next;
                        helper = Some(scope.spawn(move || {
                            let g = l.link(v);
                            d.store(true, Ordering::SeqCst);
                            g
                        }));
                    }
                    std::thread::sleep(Duration::from_millis(15));
                    w.toks.push("L".into());
                    if helper_done.load(Ordering::SeqCst) {
                        // it did not block
                        let mut g = helper.take().unwrap().join().unwrap();
                        helper_done.store(false, Ordering::SeqCst);
                        let idx = g.index();
                        w.guards.insert(w.next, g);
                        w.next += 1;
                        w.fails.push(format!("op{}:link returned {} on a full ring", w.obs.len(), idx));
                        w.observe(&idx.to_string());
                    } else {
                        out.blocked_seen += 1;
                        w.observe("blocked");
                    }
                } else {
                    let idx = w.link_now();
                    w.toks.push("L".into());
                    w.observe(&idx.to_string());
                }
            } else if r < 90 && !w.guards.is_empty() {
                // ---- unlink, any order; in the big cases among the oldest few so the head moves
                let keys: Vec<u64> = w.guards.keys().copied().collect();
                let span = if keys.len() > 64 { 6 } else { keys.len() };
                let k = if rng.chance(1, 3) { keys[0] } else { keys[rng.below(span as u64) as usize] };
                if k == keys[0] {
                    out.head_unlinks += 1;
                } else {
                    out.nonhead_unlinks += 1;
                }
                w.unlink(k);
                w.toks.push(format!("U{}", k));
                if helper.is_some() && !w.full() {
                    // room has been made: the parked linker must get through now; its link is the
                    // next op of the sequence (wait for it before observing anything)
                    let t0 = Instant::now();
                    while !helper_done.load(Ordering::SeqCst) && t0.elapsed() < Duration::from_secs(20) {
                        std::thread::sleep(Duration::from_micros(100));
                    }
                    if helper_done.load(Ordering::SeqCst) {
                        let mut g = helper.take().unwrap().join().unwrap();
                        helper_done.store(false, Ordering::SeqCst);
                        let idx = g.index();
                        // the unlink's own observation cannot be taken between the two events:
                        // render it from the bookkeeping-free part only
                        w.toks.pop();
                        w.toks.push(format!("U{}+L", k));
                        w.guards.insert(w.next, g);
                        w.next += 1;
                        out.unblocked_seen += 1;
                        w.observe(&idx.to_string());
                    } else {
                        w.fails.push(format!("op{}:blocked linker not released after a slot was freed", w.obs.len()));
                        w.observe("-");
                    }
                } else {
                    w.observe("-");
                }
            } else {
                list.notify_head();
                w.toks.push("N".into());
                w.observe("-");
            }
        }
        // release everything (a parked helper is released by the unlinks)
        let keys: Vec<u64> = w.guards.keys().copied().collect();
        for k in keys {
            w.unlink(k);
        }
        if let Some(h) = helper.take() {
            if let Ok(g) = h.join() {
                if w.dead.is_some() {
                    std::mem::forget(g);
                }
            }
        }
        out.req = format!("wl {} {}", SLOTS, w.toks.join(" "));
        out.obs = if w.obs.is_empty() { "-".into() } else { w.obs.join(" ") };
        out.fails = std::mem::take(&mut w.fails);
    });
    out
}

/// informational probe (not a verdict; blocked linkers are outside the property): two linkers
/// parked on a full ring, one `unlink` that frees two slots at once issues a single `notify_one`
fn probe_two_blocked_linkers() -> (bool, bool) {
    let list: WaitList<u64> = WaitList::new();
    let done = [AtomicBool::new(false), AtomicBool::new(false)];
    let mut both_after_one_unlink = false;
    let mut both_after_second = false;
    std::thread::scope(|scope| {
        let mut guards: Vec<Option<WaitGuard<'_, u64>>> = (0..SLOTS).map(|i| Some(list.link(i))).collect();
        let hs: Vec<_> = (0..2)
            .map(|t| {
                let l = &list;
                let d = &done[t];
                scope.spawn(move || {
                    let g = l.link(0);
                    d.store(true, Ordering::SeqCst);
                    g
                })
            })
            .collect();
        std::thread::sleep(Duration::from_millis(30));
        list.unlink(guards[1].take().unwrap()); // not the head: nothing freed
        std::thread::sleep(Duration::from_millis(10));
        list.unlink(guards[0].take().unwrap()); // head advances by two
        std::thread::sleep(Duration::from_millis(60));
        both_after_one_unlink = done[0].load(Ordering::SeqCst) && done[1].load(Ordering::SeqCst);
        list.unlink(guards[2].take().unwrap());
        std::thread::sleep(Duration::from_millis(60));
        both_after_second = done[0].load(Ordering::SeqCst) && done[1].load(Ordering::SeqCst);
        // release the rest so that the helpers certainly finish
        for g in guards.iter_mut().skip(3).take(8) {
            list.unlink(g.take().unwrap());
        }
        let held: Vec<_> = hs.into_iter().map(|h| h.join().unwrap()).collect();
        drop(held);
        drop(guards);
    });
    (both_after_one_unlink, both_after_second)
}

// ====================================================================== coalescing queue ======

static CLOCK: AtomicU64 = AtomicU64::new(1);

fn tick() -> u64 {
    CLOCK.fetch_add(1, Ordering::SeqCst)
}

thread_local! {
    static TID: Cell<u64> = const { Cell::new(u64::MAX) };
}

#[derive(Clone)]
struct In {
    id: u64,
    w: u64,
}

/// `Clone` runs exactly once per call: when the owner `load`s its output (under the wait list's
/// mutex) just before it unlinks and returns; the copy it returns carries the time of that read
struct Out {
    val: u64,
    stamp: u64,
}

impl Clone for Out {
    fn clone(&self) -> Self {
        Out { val: self.val, stamp: tick() }
    }
}

#[derive(Clone, Copy, Debug, PartialEq)]
enum Kind {
    Accept,
    Limit(usize),
    Refuse,
    Weight(u64),
    Parity,
}

struct BatchRec {
    leader: u64,
    stamp: u64,
    taken: usize,
    inputs: Vec<u64>,
    outs: Vec<(u64, u64)>,
}

struct Core {
    kind: Kind,
    same_out: bool,
    work_sleep_us: u64,
    yield_next: bool,
    log: Vec<BatchRec>,
    last_can: Mutex<Option<(u64, bool)>>,
    flags: Mutex<Vec<String>>,
}

struct OutIter<'a> {
    core: &'a mut Core,
    i: usize,
}

impl<'a> Iterator for OutIter<'a> {
    type Item = Out;
    fn next(&mut self) -> Option<Out> {
        let bno = self.core.log.len() as u64 - 1;
        let same = self.core.same_out;
        let yld = self.core.yield_next;
        let b = self.core.log.last_mut().unwrap();
        if self.i < b.inputs.len() {
            let x = b.inputs[self.i];
            let val = if same { 900_000_000 + bno } else { x * 100_000 + bno };
            b.outs.push((tick(), val));
            self.i += 1;
            if yld {
                std::thread::yield_now();
            }
            Some(Out { val, stamp: 0 })
        } else if same && self.i < b.inputs.len() + 4 {
            // a group-commit style core hands out one watermark for as long as it is asked (the
            // trait does not bound the iterator): the queue must take `taken` outputs and no more
            self.i += 1;
            Some(Out { val: 900_000_000 + bno, stamp: 0 })
        } else {
            None
        }
    }
}

impl WorkCoalescingCore<In, Out> for Core {
    type InputAccumulator = Vec<In>;
    type OutputIterator<'a> = OutIter<'a>;

    fn can_batch(&self, acc: &Vec<In>, other: &In) -> bool {
        if acc.is_empty() {
            self.flags.lock().unwrap().push("can_batch-called-with-empty-accumulator".into());
        }
        let r = match self.kind {
            Kind::Accept => true,
            Kind::Limit(n) => acc.len() < n,
            Kind::Refuse => false,
            Kind::Weight(l) => acc.iter().map(|x| x.w).sum::<u64>() + other.w <= l,
            Kind::Parity => acc.first().map(|f| f.id % 2 == other.id % 2).unwrap_or(true),
        };
        *self.last_can.lock().unwrap() = Some((other.id, r));
        r
    }

    fn batch(&mut self, mut acc: Vec<In>, other: In) -> Vec<In> {
        if !acc.is_empty() {
            let lc = self.last_can.lock().unwrap().take();
            if lc != Some((other.id, true)) {
                self.flags.lock().unwrap().push(format!("batch({})-without-can_batch-true", other.id));
            }
        }
        acc.push(other);
        acc
    }

    fn work(&mut self, taken: usize, acc: Vec<In>) -> OutIter<'_> {
        let stamp = tick();
        if taken != acc.len() {
            self.flags.lock().unwrap().push(format!("taken-{}-but-{}-batched", taken, acc.len()));
        }
        let leader = TID.with(|t| t.get());
        self.log.push(BatchRec { leader, stamp, taken, inputs: acc.iter().map(|x| x.id).collect(), outs: vec![] });
        if self.work_sleep_us > 0 {
            std::thread::sleep(Duration::from_micros(self.work_sleep_us));
        }
        OutIter { core: self, i: 0 }
    }
}

/// the core back out of the queue once every call has returned (a worker may still hold its
/// `Arc` for a moment after reporting)
fn take_core(q: Arc<WorkCoalescingQueue<In, Out, Core>>) -> Result<Core, String> {
    let t0 = Instant::now();
    let mut q = q;
    let q = loop {
        match Arc::try_unwrap(q) {
            Ok(x) => break x,
            Err(x) => {
                q = x;
                if t0.elapsed() > Duration::from_secs(20) {
                    return Err("queue still shared after all calls returned".into());
                }
                std::thread::yield_now();
            }
        }
    };
    guarded(AssertUnwindSafe(|| q.into_inner())).map_err(|m| format!("core mutex poisoned: {}", m))
}

#[derive(Clone, Debug)]
struct CallRec {
    tid: u64,
    id: u64,
    start: u64,
    end: u64,
    /// Ok((value, time of the owner's read)) or the panic message
    ret: Result<(u64, u64), String>,
}

struct WcqCfg {
    threads: u64,
    calls: Vec<u64>,
    kind: Kind,
    same_out: bool,
    work_sleep_us: u64,
    yield_next: bool,
    pause: u64,
}

fn gen_wcq(rng: &mut Rng, i: u64, thorough: bool) -> WcqCfg {
    let tmax = if thorough { 24 } else { 10 };
    let threads = match i {
        0 => 2,
        _ => {
            if rng.chance(1, 4) {
                rng.range(2, 3)
            } else {
                rng.range(2, tmax)
            }
        }
    };
    let cmax = if threads > 12 { 6 } else { 12 };
    let calls: Vec<u64> = (0..threads).map(|_| rng.range(1, cmax)).collect();
    let kind = match rng.below(7) {
        0 | 1 => Kind::Accept,
        2 => Kind::Limit(rng.range(1, 4) as usize),
        3 => Kind::Refuse,
        4 => Kind::Weight(rng.range(0, 12)),
        5 => Kind::Parity,
        _ => Kind::Limit(2),
    };
    WcqCfg {
        threads,
        calls,
        kind,
        same_out: rng.chance(1, 4),
        work_sleep_us: *rng.pick(&[0, 0, 30, 100, 250]),
        yield_next: rng.chance(1, 2),
        pause: rng.below(3),
    }
}

struct WcqOut {
    req: String,
    obs: String,
    verdict: Verdict,
    batches: u64,
    batches_gt1: u64,
    max_batch: u64,
    calls: u64,
    early_leavers: u64,
}

fn run_wcq(seed: u64, case: u64, cfg: &WcqCfg, patience_s: u64) -> WcqOut {
    let core = Core {
        kind: cfg.kind,
        same_out: cfg.same_out,
        work_sleep_us: cfg.work_sleep_us,
        yield_next: cfg.yield_next,
        log: vec![],
        last_can: Mutex::new(None),
        flags: Mutex::new(vec![]),
    };
    let q: Arc<WorkCoalescingQueue<In, Out, Core>> = Arc::new(WorkCoalescingQueue::new(core));
    let barrier = Arc::new(Barrier::new(cfg.threads as usize));
    let (tx, rx) = std::sync::mpsc::channel::<Vec<CallRec>>();
    let total: u64 = cfg.calls.iter().sum();
    for t in 0..cfg.threads {
        let q = Arc::clone(&q);
        let barrier = Arc::clone(&barrier);
        let tx = tx.clone();
        let n = cfg.calls[t as usize];
        let pause = cfg.pause;
        let mut rng = Rng::for_case(seed, 1000 + t, case);
        std::thread::spawn(move || {
            TID.with(|x| x.set(t));
            barrier.wait();
            let mut recs = vec![];
            for j in 0..n {
                let id = t * 1000 + j;
                let w = rng.below(7);
                match if pause == 0 { 0 } else { rng.below(3 * pause) } {
                    0 => {}
                    1 => std::thread::yield_now(),
                    _ => std::thread::sleep(Duration::from_micros(rng.below(120))),
                }
                let start = tick();
                let r = guarded(AssertUnwindSafe(|| q.do_work(In { id, w })));
                let end = tick();
                recs.push(CallRec { tid: t, id, start, end, ret: r.map(|o| (o.val, o.stamp)) });
            }
            let _ = tx.send(recs);
        });
    }
    drop(tx);
    let deadline = Instant::now() + Duration::from_secs(patience_s);
    let mut calls: Vec<CallRec> = vec![];
    let mut finished = 0;
    while finished < cfg.threads {
        let left = deadline.saturating_duration_since(Instant::now());
        match rx.recv_timeout(left) {
            Ok(r) => {
                calls.extend(r);
                finished += 1;
            }
            Err(_) => break,
        }
    }
    let stuck_out = |what: &str, detail: String| WcqOut {
        req: format!("wcq {}", what),
        obs: what.to_string(),
        verdict: Verdict::Fail { class: what.to_string(), detail },
        batches: 0,
        batches_gt1: 0,
        max_batch: 0,
        calls: total,
        early_leavers: 0,
    };
    if finished < cfg.threads {
        return stuck_out("stuck", format!("{} of {} threads did not finish within {}s; {} calls returned", cfg.threads - finished, cfg.threads, patience_s, calls.len()));
    }
    // the queue must be reusable: one more call from this thread (it would block forever if
    // `doing_work` had been left set or a waiter were still linked ahead of it)
    {
        let q2 = Arc::clone(&q);
        let (ptx, prx) = std::sync::mpsc::channel();
        let tid = cfg.threads;
        std::thread::spawn(move || {
            TID.with(|x| x.set(tid));
            let id = tid * 1000;
            let start = tick();
            let r = guarded(AssertUnwindSafe(|| q2.do_work(In { id, w: 0 })));
            let end = tick();
            let _ = ptx.send(CallRec { tid, id, start, end, ret: r.map(|o| (o.val, o.stamp)) });
        });
        match prx.recv_timeout(Duration::from_secs(20)) {
            Ok(r) => calls.push(r),
            Err(_) => return stuck_out("stuck", "the call made after all threads had finished did not return within 20s".into()),
        }
    }
    let core = match take_core(q) {
        Ok(c) => c,
        Err(m) => return stuck_out("stuck", m),
    };

    // ---------------------------------------------------------------- oracle -----------------
    let mut fails: Vec<(String, String)> = vec![];
    for c in &calls {
        if let Err(m) = &c.ret {
            fails.push(("panic".into(), format!("do_work({}) panicked: {}", c.id, m)));
        }
    }
    for f in core.flags.lock().unwrap().iter() {
        if f.starts_with("can_batch-called-with-empty") {
            continue; // allowed by the trait's contract ("taken as a hint"); counted below
        }
        fails.push(("core-contract".into(), f.clone()));
    }
    let flat: Vec<u64> = core.log.iter().flat_map(|b| b.inputs.iter().copied()).collect();
    let mut pos: HashMap<u64, usize> = HashMap::new();
    let mut dup = false;
    for (p, x) in flat.iter().enumerate() {
        if pos.insert(*x, p).is_some() {
            dup = true;
            fails.push(("not-exactly-once".into(), format!("core saw input {} twice", x)));
        }
    }
    for c in &calls {
        if !pos.contains_key(&c.id) {
            dup = true;
            fails.push(("not-exactly-once".into(), format!("core never saw input {}", c.id)));
        }
    }
    if flat.len() != calls.len() {
        dup = true;
        fails.push(("not-exactly-once".into(), format!("{} inputs seen for {} calls", flat.len(), calls.len())));
    }
    let owner: HashMap<u64, u64> = calls.iter().map(|c| (c.id, c.tid)).collect();
    let mut produced: HashMap<u64, u64> = HashMap::new();
    let mut bstart: Vec<usize> = vec![];
    let mut s = 0usize;
    for b in &core.log {
        bstart.push(s);
        s += b.inputs.len();
        if b.inputs.is_empty() {
            fails.push(("empty-batch".into(), "work called with nothing taken".into()));
            continue;
        }
        if b.taken != b.inputs.len() {
            fails.push(("core-contract".into(), format!("taken {} for {} inputs", b.taken, b.inputs.len())));
        }
        if owner.get(&b.inputs[0]) != Some(&b.leader) {
            fails.push(("leader-not-first".into(), format!("batch {:?} worked by thread {}", b.inputs, b.leader)));
        }
        if b.outs.len() != b.inputs.len() {
            fails.push(("outputs-not-consumed".into(), format!("batch {:?}: {} outputs taken", b.inputs, b.outs.len())));
        }
        for (j, (_, v)) in b.outs.iter().enumerate() {
            if j < b.inputs.len() {
                produced.insert(b.inputs[j], *v);
            }
        }
        // the batch respects the core's limits
        match cfg.kind {
            Kind::Limit(n) => {
                if b.inputs.len() > std::cmp::max(n, 1) {
                    fails.push(("limit-exceeded".into(), format!("batch of {} > {}", b.inputs.len(), n)));
                }
            }
            Kind::Refuse => {
                if b.inputs.len() != 1 {
                    fails.push(("limit-exceeded".into(), format!("refusing core got a batch of {}", b.inputs.len())));
                }
            }
            Kind::Parity => {
                if b.inputs.iter().any(|x| x % 2 != b.inputs[0] % 2) {
                    fails.push(("limit-exceeded".into(), format!("mixed parity batch {:?}", b.inputs)));
                }
            }
            _ => {}
        }
    }
    let mut own_ok = true;
    for c in &calls {
        if let Ok((v, _)) = &c.ret {
            if produced.get(&c.id) != Some(v) {
                own_ok = false;
                fails.push(("wrong-result".into(), format!("call {} returned {} but the core produced {:?} for it", c.id, v, produced.get(&c.id))));
            }
        }
    }
    if !dup {
        // order: per thread, and in real time (A returned before B started => A entered before B)
        for a in &calls {
            for b in &calls {
                if a.end < b.start && pos[&a.id] > pos[&b.id] {
                    let what = if a.tid == b.tid { "same thread" } else { "real time" };
                    fails.push(("order".into(), format!("{}: call {} returned before call {} started but the core saw {} first", what, a.id, b.id, b.id)));
                }
            }
        }
    }

    // ---------------------------------------------------------------- trace ------------------
    let nb = core.log.len() as u64;
    let gt1 = core.log.iter().filter(|b| b.inputs.len() > 1).count() as u64;
    let maxb = core.log.iter().map(|b| b.inputs.len()).max().unwrap_or(0) as u64;
    let mut early = 0u64;
    let (req, obs) = if dup || calls.iter().any(|c| c.ret.is_err()) {
        ("wcq unmappable".to_string(), "unmappable".to_string())
    } else {
        // (time, kind order, token, highest index the event needs)
        let mut evs: Vec<(u64, String, usize)> = vec![];
        let mut batch_of: Vec<usize> = vec![0; flat.len()];
        for (bi, b) in core.log.iter().enumerate() {
            let st = bstart[bi];
            evs.push((b.stamp, format!("B{},{}", st, b.inputs.len()), st + b.inputs.len() - 1));
            for (j, (t, v)) in b.outs.iter().enumerate() {
                evs.push((*t, format!("D{},{}", st, v), st + j));
            }
            for j in 0..b.inputs.len() {
                batch_of[st + j] = bi;
            }
        }
        let mut rets: Vec<u64> = vec![0; flat.len()];
        for c in &calls {
            let p = pos[&c.id];
            let (v, t) = c.ret.clone().unwrap();
            rets[p] = v;
            let bi = batch_of[p];
            if p == bstart[bi] {
                evs.push((t, format!("F{}", p), p));
            } else {
                evs.push((t, format!("O{}", p), p));
                // left while the leader was still at work?
                let fin = calls.iter().find(|c2| pos[&c2.id] == bstart[bi]).and_then(|c2| c2.ret.clone().ok()).map(|x| x.1).unwrap_or(0);
                if t < fin {
                    early += 1;
                }
            }
        }
        evs.sort();
        let mut toks: Vec<String> = vec![];
        let mut linked = 0usize;
        for (_, tok, need) in &evs {
            while linked <= *need {
                toks.push("L".into());
                linked += 1;
            }
            toks.push(tok.clone());
        }
        while linked < flat.len() {
            toks.push("L".into());
            linked += 1;
        }
        let req = format!("wcq {} {}", flat.len(), toks.join(" "));
        let obs = format!(
            "ok n={} log=range rets={} dw=0 linked=0 own={}",
            calls.len(),
            rets.iter().map(|v| v.to_string()).collect::<Vec<_>>().join(","),
            if own_ok { 1 } else { 0 }
        );
        (req, obs)
    };
    let verdict = if fails.is_empty() {
        Verdict::Ok
    } else {
        Verdict::Fail { class: fails[0].0.clone(), detail: fails.iter().take(4).map(|f| f.1.clone()).collect::<Vec<_>>().join("; ") }
    };
    WcqOut { req, obs, verdict, batches: nb, batches_gt1: gt1, max_batch: maxb, calls: calls.len() as u64, early_leavers: early }
}

// ================================================================== wake-up protocol ==========
// Needs the event hooks proposed in hooks/sync42-wcq-hooks.diff (module `sync42::verif`, emitted from
// `do_work` under cfg(rescrv_blue_verif)); compiled only with `--cfg rescrv_blue_verif`.

#[cfg(rescrv_blue_verif)]
mod wake {
    use super::*;

    #[derive(Clone, Copy, PartialEq, Debug)]
    enum St {
        Inp,
        Stolen,
        Outp,
    }
    #[derive(Clone, Copy, PartialEq, Debug)]
    enum Lead {
        None,
        Delivering(usize, usize, usize),
        Unlinked,
    }
    struct Ent {
        st: St,
        linked: bool,
        parked: bool,
    }
    /// mirror of `Blue.WcqWake.St`, used only to decide where the unobservable events (the
    /// moment a caller is parked, which notification explains a wake-up) go; the driver judges
    struct Mirror {
        ents: Vec<Ent>,
        lead: Lead,
        pending: u64,
        holder: Option<usize>,
        toks: Vec<String>,
        deliver_pos: HashMap<usize, usize>,
        early: u64,
        spurious: u64,
        window_hits: u64,
        problems: Vec<String>,
    }
    impl Mirror {
        fn head(&self) -> usize {
            self.ents.iter().position(|e| e.linked).unwrap_or(self.ents.len())
        }
        fn ensure(&mut self, idx: usize) {
            while self.ents.len() <= idx {
                self.ents.push(Ent { st: St::Inp, linked: true, parked: false });
                self.toks.push("L".into());
            }
        }
        fn flush_holder(&mut self) {
            if let Some(h) = self.holder.take() {
                self.toks.push("P".into());
                self.ents[h].parked = true;
            }
        }
        fn deliver_one(&mut self) {
            if let Lead::Delivering(l, k, j) = self.lead {
                if j < k {
                    let m = l + j;
                    self.toks.push("D".into());
                    self.deliver_pos.insert(m, self.toks.len() - 1);
                    if self.holder == Some(m) {
                        self.window_hits += 1;
                    }
                    self.ents[m].st = St::Outp;
                    self.ents[m].parked = false;
                    self.lead = Lead::Delivering(l, k, j + 1);
                    return;
                }
            }
            self.problems.push("deliver with no batch open".into());
        }
        /// deliveries that really happened (the member has seen its output) but whose log entry
        /// comes later: the leader logs after `store` + `notify`
        fn deliver_through(&mut self, i: usize) {
            while let Lead::Delivering(l, k, j) = self.lead {
                if l + j <= i && j < k {
                    self.deliver_one();
                    self.early += 1;
                } else {
                    break;
                }
            }
        }
        fn unpark_head(&mut self) {
            let h = self.head();
            if h < self.ents.len() {
                self.ents[h].parked = false;
            }
        }
    }

    pub struct WakeOut {
        pub req: String,
        pub obs: String,
        pub verdict: Verdict,
        pub spurious: u64,
        pub window_hits: u64,
        pub early: u64,
        pub calls: u64,
        pub parks: u64,
    }

    pub fn run_wake(seed: u64, case: u64, cfg: &WcqCfg, pause_us: u64, patience_s: u64) -> WakeOut {
        let fail = |what: &str, detail: String, calls: u64| WakeOut {
            req: format!("wake {}", what),
            obs: what.to_string(),
            verdict: Verdict::Fail { class: what.to_string(), detail },
            spurious: 0,
            window_hits: 0,
            early: 0,
            calls,
            parks: 0,
        };
        let _ = sync42::verif::take_events();
        sync42::verif::set_pause("wcq.park", 1, pause_us);
        sync42::verif::events_enable(true);
        let core = Core { kind: cfg.kind, same_out: cfg.same_out, work_sleep_us: cfg.work_sleep_us, yield_next: cfg.yield_next, log: vec![], last_can: Mutex::new(None), flags: Mutex::new(vec![]) };
        let q: Arc<WorkCoalescingQueue<In, Out, Core>> = Arc::new(WorkCoalescingQueue::new(core));
        let barrier = Arc::new(Barrier::new(cfg.threads as usize));
        let (tx, rx) = std::sync::mpsc::channel::<u64>();
        let total: u64 = cfg.calls.iter().sum();
        for t in 0..cfg.threads {
            let q = Arc::clone(&q);
            let barrier = Arc::clone(&barrier);
            let tx = tx.clone();
            let n = cfg.calls[t as usize];
            let pause = cfg.pause;
            let mut rng = Rng::for_case(seed, 2000 + t, case);
            std::thread::spawn(move || {
                TID.with(|x| x.set(t));
                barrier.wait();
                let mut bad = 0;
                for j in 0..n {
                    match if pause == 0 { 0 } else { rng.below(3 * pause) } {
                        0 => {}
                        1 => std::thread::yield_now(),
                        _ => std::thread::sleep(Duration::from_micros(rng.below(120))),
                    }
                    if guarded(AssertUnwindSafe(|| q.do_work(In { id: t * 1000 + j, w: rng.below(7) }))).is_err() {
                        bad += 1;
                    }
                }
                let _ = tx.send(bad);
            });
        }
        drop(tx);
        let deadline = Instant::now() + Duration::from_secs(patience_s);
        let mut finished = 0;
        let mut panics = 0;
        while finished < cfg.threads {
            match rx.recv_timeout(deadline.saturating_duration_since(Instant::now())) {
                Ok(b) => {
                    panics += b;
                    finished += 1;
                }
                Err(_) => break,
            }
        }
        sync42::verif::events_enable(false);
        sync42::verif::set_pause("wcq.park", 1, 0);
        let events = sync42::verif::take_events();
        if finished < cfg.threads {
            return fail("stuck", format!("{} of {} threads did not finish within {}s (pause before parking {}us)", cfg.threads - finished, cfg.threads, patience_s, pause_us), total);
        }
        if panics > 0 {
            return fail("panic", format!("{} calls panicked", panics), total);
        }
        // ---- the log as a run of Blue.WcqWake ----
        let mut m = Mirror { ents: vec![], lead: Lead::None, pending: 0, holder: None, toks: vec![], deliver_pos: HashMap::new(), early: 0, spurious: 0, window_hits: 0, problems: vec![] };
        let mut parks = 0u64;
        for (p, (_, _, tag, a)) in events.iter().enumerate() {
            let i = a[0] as usize;
            match *tag {
                "wcq.link" => m.ensure(i),
                "wcq.park" => {
                    m.ensure(i);
                    parks += 1;
                    if a[1] == 1 && m.ents[i].st == St::Outp {
                        // it read `Stolen` before the store whose log entry precedes this one: its
                        // check goes before that delivery (it held the queue mutex all along, so
                        // only the leader's lock-free steps can lie in between).  The release of
                        // the previous holder is written lazily (`flush_holder`): it is not among
                        // the tokens looked at here — looking at them after the flush took that
                        // `P` for a mutex event in between (the false alarm of the loaded runs) —
                        // and it goes in front of this caller's check, which needed the mutex.
                        let at = *m.deliver_pos.get(&i).unwrap_or(&usize::MAX);
                        if at == usize::MAX || m.toks[at..].iter().any(|t| !(t == "D" || t == "U" || t == "L")) {
                            m.flush_holder();
                            m.problems.push(format!("caller {} read Stolen after its delivery was logged, with mutex events in between", i));
                        } else {
                            let mut ins: Vec<String> = vec![];
                            if let Some(h) = m.holder.take() {
                                ins.push("P".into());
                                m.ents[h].parked = true;
                            }
                            ins.push(format!("K{},0,p", i));
                            let n_ins = ins.len();
                            for (k, t) in ins.into_iter().enumerate() {
                                m.toks.insert(at + k, t);
                            }
                            for (_, v) in m.deliver_pos.iter_mut() {
                                if *v >= at {
                                    *v += n_ins;
                                }
                            }
                            m.window_hits += 1;
                        }
                    } else {
                        m.flush_holder();
                        m.toks.push(format!("K{},0,p", i));
                    }
                    m.holder = Some(i);
                }
                "wcq.wake" => {
                    m.flush_holder();
                    m.ensure(i);
                    if m.ents[i].parked {
                        // what does the caller do next?
                        let next = events[p + 1..].iter().find(|e| e.3[0] as usize == i && (e.2 == "wcq.park" || e.2 == "wcq.leave" || e.2 == "wcq.lead"));
                        let leaves = next.map(|e| e.2 == "wcq.leave").unwrap_or(false);
                        if leaves && m.ents[i].st == St::Stolen {
                            m.deliver_through(i);
                        } else if m.pending > 0 && m.head() == i {
                            m.toks.push("H".into());
                            m.pending -= 1;
                            m.unpark_head();
                        } else {
                            m.toks.push(format!("S{}", i));
                            m.spurious += 1;
                            m.ents[i].parked = false;
                        }
                    }
                    m.toks.push(format!("W{}", i));
                }
                "wcq.leave" => {
                    m.flush_holder();
                    m.ensure(i);
                    if m.ents[i].st == St::Stolen {
                        m.deliver_through(i);
                    }
                    m.toks.push(format!("K{},0,l", i));
                    m.ents[i].linked = false;
                    m.unpark_head();
                }
                "wcq.lead" => {
                    m.flush_holder();
                    let k = a[1] as usize;
                    m.ensure(i + k.max(1) - 1);
                    m.toks.push(format!("K{},{},b", i, k));
                    m.lead = Lead::Delivering(i, k, 0);
                    for e in m.ents[i..i + k].iter_mut() {
                        e.st = St::Stolen;
                    }
                }
                "wcq.deliver" => {
                    let member = a[1] as usize;
                    let done = match m.lead {
                        Lead::Delivering(l, _, j) => member < l + j,
                        _ => true,
                    };
                    if done && m.early > 0 {
                        m.early -= 1; // already placed where the member saw it
                    } else {
                        m.deliver_one();
                    }
                }
                "wcq.leader_unlink" => {
                    m.toks.push("U".into());
                    m.ents[i].linked = false;
                    m.lead = Lead::Unlinked;
                }
                "wcq.clear" => {
                    m.flush_holder();
                    m.toks.push("C".into());
                    m.lead = Lead::None;
                    m.pending += 1;
                }
                "wcq.notify_head" => {
                    if m.pending > 0 {
                        m.toks.push("H".into());
                        m.pending -= 1;
                        m.unpark_head();
                    }
                }
                _ => {}
            }
        }
        m.flush_holder();
        // the hooks give the real link index of every leader: batch b of the core's log must be
        // the run [index, index + taken) — the identification "caller = position in the core's
        // log" on which the `wcq` stream rests
        match take_core(q) {
            Ok(core) => {
                let leads: Vec<(u64, u64)> = events.iter().filter(|e| e.2 == "wcq.lead").map(|e| (e.3[0], e.3[1])).collect();
                let mut start = 0u64;
                let want: Vec<(u64, u64)> = core
                    .log
                    .iter()
                    .map(|b| {
                        let r = (start, b.inputs.len() as u64);
                        start += b.inputs.len() as u64;
                        r
                    })
                    .collect();
                if leads != want {
                    m.problems.push(format!("batches by link index {:?} but the core's log has runs {:?}", &leads[..leads.len().min(6)], &want[..want.len().min(6)]));
                }
            }
            Err(e) => m.problems.push(e),
        }
        let verdict = if m.problems.is_empty() { Verdict::Ok } else { Verdict::Fail { class: "wake-log-inconsistent".into(), detail: m.problems.join("; ") } };
        WakeOut {
            req: format!("wake {} {}", total, m.toks.join(" ")),
            obs: format!("ok n={} linked=0 lead=0 pending=0 holder=0", total),
            verdict,
            spurious: m.spurious,
            window_hits: m.window_hits,
            early: m.early,
            calls: total,
            parks,
        }
    }
}

// ======================================================================= sync42 counters ======

/// sync42's own event counters (statics): how often callers parked with an input / while stolen,
/// found an output, how often `notify_head` found nobody — coverage information only
struct CounterDump(Vec<(String, u64)>);

impl biometrics::Emitter for CounterDump {
    type Error = ();
    fn emit_counter(&mut self, c: &biometrics::Counter, _: u64) -> Result<(), ()> {
        use biometrics::Sensor;
        self.0.push((c.label().to_string(), c.read()));
        Ok(())
    }
    fn emit_gauge(&mut self, _: &biometrics::Gauge, _: u64) -> Result<(), ()> {
        Ok(())
    }
    fn emit_moments(&mut self, _: &biometrics::Moments, _: u64) -> Result<(), ()> {
        Ok(())
    }
    fn emit_histogram(&mut self, _: &biometrics::Histogram, _: u64) -> Result<(), ()> {
        Ok(())
    }
}

fn sync42_counters() -> String {
    let collector = biometrics::Collector::new();
    sync42::wait_list::register_biometrics(&collector);
    sync42::work_coalescing_queue::register_biometrics(&collector);
    let mut d = CounterDump(vec![]);
    let _ = collector.emit(&mut d, 0);
    d.0.sort();
    let body: Vec<String> = d.0.iter().filter(|(k, _)| k.starts_with("sync42.")).map(|(k, v)| format!("{}: {}", json_str(k), v)).collect();
    format!("{{{}}}", body.join(", "))
}

// ==================================================================================== run ======

pub fn run(args: &Args) {
    let mut rec = Recorder::new(&args.out, args.only_case);
    let n_lru = if args.thorough { 12000 } else { 1500 };
    let n_wl = if args.thorough { 3000 } else { 400 };
    let n_wl_full = if args.thorough { 6 } else { 2 };
    let n_wl_wrap = if args.thorough { 30 } else { 6 };
    let n_wcq = if args.thorough { 1200 } else { 150 };

    // ---- stream 1: LRU ------------------------------------------------------------------------
    for i in 0..n_lru {
        if !rec.wants() {
            rec.skip();
            continue;
        }
        let mut rng = Rng::for_case(args.seed, 1, i);
        let (cap, ops, alphabet) = gen_lru(&mut rng, i);
        let req = format!("lru {} {}", cap, ops.iter().map(|o| o.tok()).collect::<Vec<_>>().join(" "));
        let req = req.trim_end().to_string();
        let ops2 = ops.clone();
        let r = guarded(move || run_lru(cap, &ops2));
        rec.count("lru");
        rec.add("lru.ops", ops.len() as u64);
        rec.count(&format!("lru.alphabet{}", alphabet));
        if cap <= 1 {
            rec.count("lru.cap_0_or_1");
        }
        let nt = if ops.len() >= 2 { Some(fnv(req.as_bytes())) } else { None };
        match r {
            Ok(o) => {
                rec.add("lru.evictions", o.evictions);
                rec.add("lru.states_over_capacity", o.over_cap_states);
                rec.add("lru.lookup_hits", o.hits);
                rec.add("lru.overwrites", o.overwrites);
                let obs = if o.obs.is_empty() { "-".to_string() } else { o.obs.join(" ") };
                let v = if o.fails.is_empty() {
                    Verdict::Ok
                } else {
                    Verdict::Fail { class: "lru-differs-from-sequential-lru".into(), detail: o.fails.iter().take(3).cloned().collect::<Vec<_>>().join("; ") }
                };
                rec.case(&req, &obs, v, nt);
            }
            Err(m) => rec.case(&req, "panic", Verdict::Fail { class: "lru-panic".into(), detail: m }, nt),
        }
    }

    // ---- stream 2: wait list ------------------------------------------------------------------
    let kinds: Vec<u64> = std::iter::repeat(0).take(n_wl).chain(std::iter::repeat(1).take(n_wl_full)).chain(std::iter::repeat(2).take(n_wl_wrap)).collect();
    for (i, kind) in kinds.iter().enumerate() {
        if !rec.wants() {
            rec.skip();
            continue;
        }
        let mut rng = Rng::for_case(args.seed, 2, i as u64);
        let kind = *kind;
        let r = guarded(AssertUnwindSafe(|| run_wl(&mut rng, kind)));
        rec.count(&format!("wl.kind{}", kind));
        match r {
            Ok(o) => {
                rec.add("wl.link_blocked_on_full_ring", o.blocked_seen);
                rec.add("wl.blocked_linker_released", o.unblocked_seen);
                rec.add("wl.unlink_head", o.head_unlinks);
                rec.add("wl.unlink_not_head", o.nonhead_unlinks);
                let ntoks = o.req.split(' ').count();
                let nt = if ntoks >= 5 { Some(fnv(o.req.as_bytes())) } else { None };
                let v = if o.fails.is_empty() {
                    Verdict::Ok
                } else {
                    Verdict::Fail { class: "wl-head".into(), detail: o.fails.iter().take(3).cloned().collect::<Vec<_>>().join("; ") }
                };
                rec.case(&o.req, &o.obs, v, nt);
            }
            Err(m) => rec.case(&format!("wl {} ?", SLOTS), "panic", Verdict::Fail { class: "wl-panic".into(), detail: m }, None),
        }
    }

    // ---- stream 3: coalescing queue -----------------------------------------------------------
    let mut n_stuck = 0;
    for i in 0..n_wcq {
        if !rec.wants() {
            rec.skip();
            continue;
        }
        if n_stuck >= 3 {
            // every further case would wait out its timeout too: the verdict is already red
            rec.count("wcq.not_run_after_three_stuck_cases");
            rec.skip();
            continue;
        }
        let mut rng = Rng::for_case(args.seed, 3, i);
        let cfg = gen_wcq(&mut rng, i, args.thorough);
        let o = run_wcq(args.seed, i, &cfg, if n_stuck == 0 { 40 } else { 10 });
        if o.obs == "stuck" {
            n_stuck += 1;
        }
        rec.count("wcq");
        rec.count(&format!("wcq.core.{}", match cfg.kind {
            Kind::Accept => "accept",
            Kind::Limit(_) => "limit",
            Kind::Refuse => "refuse",
            Kind::Weight(_) => "weight",
            Kind::Parity => "parity",
        }));
        rec.add("wcq.calls", o.calls);
        rec.add("wcq.threads", cfg.threads);
        // the following four depend on the thread schedule (they vary from run to run)
        rec.add("wcq.sched.batches", o.batches);
        rec.add("wcq.sched.batches_of_2_or_more", o.batches_gt1);
        rec.add("wcq.sched.followers_left_before_leader", o.early_leavers);
        let e = rec.counters.entry("wcq.sched.max_batch".into()).or_insert(0);
        *e = (*e).max(o.max_batch);
        let cfgs = format!("{} {:?} {:?} {} {} {} {}", cfg.threads, cfg.calls, cfg.kind, cfg.same_out, cfg.work_sleep_us, cfg.yield_next, cfg.pause);
        let nt = if o.calls >= 4 { Some(fnv(cfgs.as_bytes())) } else { None };
        rec.case(&o.req, &o.obs, o.verdict, nt);
    }

    // ---- stream 4 (only with the sync42 event hooks): the wake-up protocol ---------------------
    #[cfg(rescrv_blue_verif)]
    {
        let n_wake = if args.thorough { 600 } else { 100 };
        let mut n_stuck = 0;
        for i in 0..n_wake {
            if !rec.wants() {
                rec.skip();
                continue;
            }
            if n_stuck >= 3 {
                rec.count("wake.not_run_after_three_stuck_cases");
                rec.skip();
                continue;
            }
            let mut rng = Rng::for_case(args.seed, 4, i);
            let cfg = gen_wcq(&mut rng, i, args.thorough);
            // half of the cases widen the window between reading `Stolen` and parking
            let pause_us = *rng.pick(&[0, 0, 50, 200, 600]);
            let mut o = wake::run_wake(args.seed, i, &cfg, pause_us, if n_stuck == 0 { 40 } else { 10 });
            // The placement of a `park` that read `Stolen` relative to the logged deliveries is a
            // reconstruction by this harness (see `run_wake`); once, on a loaded machine and on a
            // tree whose queue code was untouched, it failed to place one.  A log that cannot be
            // placed is therefore taken again (the schedule differs from run to run); it counts as
            // a failure only when three runs of the configuration in a row cannot be placed.
            let mut attempts = 1;
            while attempts < 3 && matches!(&o.verdict, Verdict::Fail { class, .. } if class == "wake-log-inconsistent") {
                rec.count("wake.log_not_placed_run_again");
                o = wake::run_wake(args.seed, i, &cfg, pause_us, 10);
                attempts += 1;
            }
            if o.obs == "stuck" {
                n_stuck += 1;
            }
            rec.count("wake");
            if pause_us > 0 {
                rec.count("wake.with_pause_before_parking");
            }
            rec.add("wake.calls", o.calls);
            rec.add("wake.sched.park_decisions", o.parks);
            rec.add("wake.sched.wakeups_not_explained_by_a_model_notification", o.spurious);
            rec.add("wake.sched.output_handed_over_between_check_and_park", o.window_hits);
            let cfgs = format!("{} {:?} {:?} {} {} {} {} {}", cfg.threads, cfg.calls, cfg.kind, cfg.same_out, cfg.work_sleep_us, cfg.yield_next, cfg.pause, pause_us);
            let nt = if o.calls >= 4 { Some(fnv(cfgs.as_bytes())) } else { None };
            rec.case(&o.req, &o.obs, o.verdict, nt);
        }
    }

    // ---- stream 5: the cache under concurrent observers (oracle only) --------------------------
    // `insert` is one critical section: a cache into which nothing was ever inserted with eviction
    // disabled never shows an accounted size above its capacity, to any thread, at any moment.
    // One inserter keeps a cache that is exactly at capacity turning over; observers read the
    // accounted size and look up the entry that is next to go.  (Appended after the other streams:
    // their case numbers do not move.)
    let n_obs = if args.thorough { 12u64 } else { 4 };
    for i in 0..n_obs {
        if !rec.wants() {
            rec.skip();
            continue;
        }
        let mut rng = Rng::for_case(args.seed, 5, i);
        let entries = 1 + rng.below(6);
        let esize = 1 + rng.below(8) as usize;
        let observers = 1 + rng.below(3) as usize;
        let inserts: u64 = if args.thorough { 600_000 } else { 250_000 };
        let tag = format!("# lru observers {}: {} entries of size {}, {} observers, {} inserts", i, entries, esize, observers, inserts);
        let r = guarded(move || {
            let cap = esize * entries as usize;
            let c: LeastRecentlyUsedCache<u64, Val> = LeastRecentlyUsedCache::new(cap);
            for k in 0..entries {
                c.insert(k, Val { id: k, size: esize });
            }
            let done = std::sync::atomic::AtomicBool::new(false);
            let worst = std::sync::atomic::AtomicU64::new(0);
            let reads = std::sync::atomic::AtomicU64::new(0);
            std::thread::scope(|sc| {
                for o in 0..observers {
                    let (c, done, worst, reads) = (&c, &done, &worst, &reads);
                    sc.spawn(move || {
                        let mut n = 0u64;
                        while !done.load(std::sync::atomic::Ordering::Relaxed) {
                            let size = c.approximate_size() as u64;
                            if size > cap as u64 {
                                worst.fetch_max(size, std::sync::atomic::Ordering::SeqCst);
                            }
                            if o == 1 {
                                let _ = c.lookup(&(n % (entries + 3)));
                            }
                            n += 1;
                        }
                        reads.fetch_add(n, std::sync::atomic::Ordering::SeqCst);
                    });
                }
                for k in entries..entries + inserts {
                    c.insert(k, Val { id: k, size: esize });
                    if worst.load(std::sync::atomic::Ordering::Relaxed) != 0 {
                        break;
                    }
                }
                done.store(true, std::sync::atomic::Ordering::SeqCst);
            });
            (cap as u64, worst.load(std::sync::atomic::Ordering::SeqCst), reads.load(std::sync::atomic::Ordering::SeqCst), c.approximate_size() as u64)
        });
        rec.count("lruobs");
        let v = match r {
            Ok((cap, worst, reads, fin)) => {
                rec.add("lruobs.size_reads", reads);
                if worst != 0 {
                    Verdict::Fail { class: "lru-over-capacity-without-insert-no-evict".into(), detail: format!("an observer read the accounted size {} of a cache of capacity {} into which nothing was inserted with eviction disabled", worst, cap) }
                } else if fin > cap {
                    Verdict::Fail { class: "lru-over-capacity-without-insert-no-evict".into(), detail: format!("accounted size {} > capacity {} at the end", fin, cap) }
                } else {
                    Verdict::Ok
                }
            }
            Err(m) => Verdict::Fail { class: "lru-panic".into(), detail: m },
        };
        rec.case(&tag, "#", v, Some(fnv(tag.as_bytes())));
    }

    let mut extra: Vec<(&str, String)> = vec![];
    if args.only_case.is_none() {
        let (a, b) = probe_two_blocked_linkers();
        extra.push(("probe_two_blocked_linkers", format!("{{\"both_released_by_the_unlink_that_freed_two_slots\": {}, \"both_released_after_one_more_unlink\": {}}}", a, b)));
    }
    extra.push(("sync42_event_counters_schedule_dependent", sync42_counters()));
    rec.finish(
        "seeded streams. lruobs: a cache exactly at capacity kept turning over by one inserter (insert only) while 1-3 observer threads read the accounted size and look up entries: no observer may see the size above the capacity (oracle only; 4 runs of 250 000 inserts, thorough 12 of 600 000). lru: capacity in {0,1,2,3,5,8,10,16,4..40}, 1..5 keys, up to 30 ops insert/insert_no_evict/lookup/remove/pop with sizes in {0,1,2,cap-1,cap,cap+1,2cap+3,random}; after every op result, accounted size and full contents (prefix replayed on a fresh cache, drained by pop); non-trivial = at least 2 ops. wl: link/unlink-any-order/notify_head sequences on the real 65536-slot list, plus full-ring cases (65537th link blocks in a helper thread, released when the head advances) and wrap-around cases (tail beyond 65536 by cycling); non-trivial = at least 3 ops. wcq: 2..10 (thorough 2..24) real threads x 1..12 calls on one queue with accepting / limiting / refusing / weight-limited / parity-limited cores, optional sleep in work and yield between outputs; real event order from a global clock stamped in harness code (core.work, output iterator, Clone of the output); non-trivial = at least 4 calls; distinct by request text (lru, wl) or configuration (wcq; traces vary with the schedule, verdicts do not)",
        &extra,
    );
}
