//! C17 — the lock-free skiplist loses no insert and always iterates in order; iterators remain
//! valid while held; the same for the prepend-only list.
//!
//! Needs the `skipfree::verif` / `listfree::verif` hooks (hooks/skipfree-listfree-hooks.diff).
//!
//! Streams (instances `skip`, `list`):
//!  1. `skip seq` / `list seq`: sequential op sequences on the real structure vs. a `BTreeSet`
//!     (resp. `Vec`) oracle and vs. the Lean model run sequentially;
//!  2. `skip life`: who keeps the nodes alive (list handle, iterators), run in a child process with
//!     the allocation registry on (thorough: also under valgrind) — finding D-4;
//!  3. `skip run` / `list run`, controlled: worker threads park before every atomic access
//!     (`verif::point`) and the harness releases one at a time; interleavings of 2–3 inserters and
//!     0–2 readers over neighbouring / ascending / descending keys are enumerated (exhaustively by
//!     depth-first search for the small scenarios, by seeded random and preemption-bounded
//!     schedules for the larger ones); the event log *is* the order of the accesses;
//!  4. `skip run` / `list run`, free-running: real threads without control; the harness orders the
//!     logged accesses into a sequentially consistent history (reads-from / write-chain graph,
//!     topological sort) — the Lean driver then validates that history step by step.
//! The request is the event trace; the Lean driver replays it on the small-step model
//! (`Blue.SkipML`, `Blue.ListFree`): every access must be the one the model's thread does next
//! with the outcome the model computes.  The oracle looks only at what the API returned.
use crate::common::*;
use std::cmp::Reverse;
use std::collections::{BTreeMap, BTreeSet, BinaryHeap, HashMap};
use std::panic::AssertUnwindSafe;
use std::sync::atomic::{AtomicU64, Ordering};
use std::sync::{mpsc, Arc};

use listfree::verif as lv;
use listfree::List;
use skipfree::verif as sv;
use skipfree::SkipList;

static CLOCK: AtomicU64 = AtomicU64::new(1);
/// free-running case in progress: readers pause a little between operations so that they overlap
/// with the writers (never in controlled runs)
static FREE_RUNNING: AtomicU64 = AtomicU64::new(0);
fn reader_pause() {
    if FREE_RUNNING.load(Ordering::Relaxed) != 0 {
        std::thread::sleep(std::time::Duration::from_micros(20));
    }
}
fn tick() -> u64 {
    CLOCK.fetch_add(1, Ordering::SeqCst)
}

/////////////////////////////////////////////// scripts ////////////////////////////////////////////

#[derive(Clone, Debug, PartialEq)]
enum ROp {
    Seek(u64),
    Contains(u64),
    Next,
    Prev,
    First,
    Last,
}

impl ROp {
    fn tok(&self) -> String {
        match self {
            ROp::Seek(k) => format!("s{}", k),
            ROp::Contains(k) => format!("c{}", k),
            ROp::Next => "n".into(),
            ROp::Prev => "p".into(),
            ROp::First => "f".into(),
            ROp::Last => "l".into(),
        }
    }
    fn mark(&self) -> [u64; 5] {
        match self {
            ROp::Seek(k) => [2, *k, 0, 0, 0],
            ROp::Contains(k) => [3, *k, 0, 0, 0],
            ROp::Next => [4, 0, 0, 0, 0],
            ROp::Prev => [5, 0, 0, 0, 0],
            ROp::First => [6, 0, 0, 0, 0],
            ROp::Last => [7, 0, 0, 0, 0],
        }
    }
}

#[derive(Clone, Debug)]
enum Script {
    Ins(Vec<(u64, usize)>),
    Read(Vec<ROp>),
}

/// what one operation returned, with harness clock stamps around the call
#[derive(Clone, Debug)]
struct OpRec {
    /// 1 insert, 2 seek, 3 contains, 4 next, 5 prev, 6 first, 7 last; list: 1 prepend, 8 iterate
    code: u64,
    arg: u64,
    res: String,
    t0: u64,
    t1: u64,
}

fn apply_rop<const H: usize>(sl: &SkipList<u64, u64, H>, it: &mut skipfree::SkipListIterator<u64, u64, H>, op: &ROp) -> String {
    let r = guarded(AssertUnwindSafe(|| {
        match op {
            ROp::Seek(k) => it.seek(k),
            ROp::Contains(k) => return if sl.contains(k) { "T".to_string() } else { "F".to_string() },
            ROp::Next => it.next(),
            ROp::Prev => it.prev(),
            ROp::First => it.seek_to_first(),
            ROp::Last => it.seek_to_last(),
        }
        if it.is_valid() {
            format!("{}", it.key())
        } else {
            "-".to_string()
        }
    }));
    r.unwrap_or_else(|_| "panic".to_string())
}

fn run_script<const H: usize>(sl: &SkipList<u64, u64, H>, script: &Script) -> Vec<OpRec> {
    let mut recs = vec![];
    match script {
        Script::Ins(keys) => {
            for (k, h) in keys {
                sv::force_heights(&[*h]);
                let t0 = tick();
                sv::emit("mark", [1, *k, *h as u64, 0, 0]);
                let r = guarded(AssertUnwindSafe(|| sl.insert(*k, *k)));
                sv::emit("mark", [9, 0, 0, 0, 0]);
                let t1 = tick();
                recs.push(OpRec { code: 1, arg: *k, res: if r.is_ok() { "-".into() } else { "panic".into() }, t0, t1 });
            }
        }
        Script::Read(ops) => {
            let mut it = sl.iter();
            for op in ops {
                let m = op.mark();
                let t0 = tick();
                sv::emit("mark", m);
                let res = apply_rop(sl, &mut it, op);
                sv::emit("mark", [9, 0, 0, 0, 0]);
                let t1 = tick();
                recs.push(OpRec { code: m[0], arg: m[1], res, t0, t1 });
                if matches!(op, ROp::Seek(_) | ROp::First | ROp::Last) {
                    reader_pause();
                }
            }
        }
    }
    recs
}

/////////////////////////////////////////// controlled runs ////////////////////////////////////////

#[derive(Clone, Copy, PartialEq)]
enum Which {
    Skip,
    List,
}

struct Ctl(Which);
impl Ctl {
    fn control(&self, on: bool) {
        match self.0 {
            Which::Skip => sv::control(on),
            Which::List => lv::control(on),
        }
    }
    fn wait_quiescent(&self, n: usize) -> Vec<u64> {
        match self.0 {
            Which::Skip => sv::wait_quiescent(n),
            Which::List => lv::wait_quiescent(n),
        }
    }
    fn release(&self, tid: u64) {
        match self.0 {
            Which::Skip => sv::release(tid),
            Which::List => lv::release(tid),
        }
    }
}

type Job = Box<dyn FnOnce() -> Vec<OpRec> + Send>;

/// persistent worker threads, enrolled with the hooks as threads 1..=n
struct Pool {
    txs: Vec<mpsc::Sender<(Job, Which)>>,
    rx: mpsc::Receiver<(usize, Vec<OpRec>)>,
}

impl Pool {
    fn new(n: usize) -> Pool {
        let (rtx, rx) = mpsc::channel();
        let mut txs = vec![];
        for i in 0..n {
            let (tx, jrx) = mpsc::channel::<(Job, Which)>();
            let rtx = rtx.clone();
            std::thread::spawn(move || {
                sv::enroll(i as u64 + 1);
                lv::enroll(i as u64 + 1);
                for (job, which) in jrx {
                    let recs = job();
                    let _ = rtx.send((i, recs));
                    match which {
                        Which::Skip => sv::retire(),
                        Which::List => lv::retire(),
                    }
                }
            });
            txs.push(tx);
        }
        Pool { txs, rx }
    }
}

/// how the next thread is chosen among the parked ones (sorted by thread number)
trait Chooser {
    fn choose(&mut self, parked: &[u64]) -> usize;
}

/// replay a prefix of choices, then always the first; remembers the fan-out of every decision
struct DfsChooser<'a> {
    stack: &'a mut Vec<(usize, usize)>,
    depth: usize,
}
impl Chooser for DfsChooser<'_> {
    fn choose(&mut self, parked: &[u64]) -> usize {
        if self.depth == self.stack.len() {
            self.stack.push((0, parked.len()));
        }
        let c = self.stack[self.depth].0.min(parked.len() - 1);
        self.depth += 1;
        c
    }
}

/// seeded: keep running the same thread with probability `stay`/8, else a uniformly chosen one
struct RandomChooser {
    rng: Rng,
    stay: u64,
    last: u64,
}
impl Chooser for RandomChooser {
    fn choose(&mut self, parked: &[u64]) -> usize {
        if let Some(p) = parked.iter().position(|t| *t == self.last) {
            if self.rng.below(8) < self.stay {
                return p;
            }
        }
        let c = self.rng.below(parked.len() as u64) as usize;
        self.last = parked[c];
        c
    }
}

/// run the current thread until it is done, except at the given decision numbers where the
/// given other thread is switched to (preemption-bounded schedules)
struct PreemptChooser {
    at: Vec<(usize, u64)>,
    n: usize,
    last: u64,
}
impl Chooser for PreemptChooser {
    fn choose(&mut self, parked: &[u64]) -> usize {
        let here = self.n;
        self.n += 1;
        if let Some((_, skip)) = self.at.iter().find(|(d, _)| *d == here) {
            // switch away from the running thread to the `skip`-th other one
            let others: Vec<usize> = (0..parked.len()).filter(|i| parked[*i] != self.last).collect();
            if !others.is_empty() {
                let c = others[(*skip as usize) % others.len()];
                self.last = parked[c];
                return c;
            }
        }
        if let Some(p) = parked.iter().position(|t| *t == self.last) {
            return p;
        }
        self.last = parked[0];
        0
    }
}

/// start the jobs one after the other (each runs up to its first atomic access), then release
/// one parked thread at a time as the chooser says; returns each job's records and the number
/// of scheduling decisions / of changes of the running thread
fn controlled(pool: &Pool, which: Which, jobs: Vec<Job>, chooser: &mut dyn Chooser) -> (Vec<Vec<OpRec>>, u64, u64) {
    let ctl = Ctl(which);
    let n = jobs.len();
    ctl.control(true);
    for (i, job) in jobs.into_iter().enumerate() {
        pool.txs[i].send((job, which)).unwrap();
        ctl.wait_quiescent(i + 1);
    }
    let mut parked = ctl.wait_quiescent(n);
    let (mut steps, mut switches, mut last) = (0u64, 0u64, 0u64);
    while !parked.is_empty() {
        let c = chooser.choose(&parked);
        let tid = parked[c];
        if last != 0 && last != tid {
            switches += 1;
        }
        last = tid;
        steps += 1;
        ctl.release(tid);
        parked = ctl.wait_quiescent(n);
    }
    ctl.control(false);
    let mut out: Vec<Vec<OpRec>> = (0..n).map(|_| vec![]).collect();
    for _ in 0..n {
        let (i, recs) = pool.rx.recv().unwrap();
        out[i] = recs;
    }
    (out, steps, switches)
}

///////////////////////////////// ordering a free-running log (SC history) /////////////////////////

type Loc = (u64, u64);

/// one logged event as the linearizer sees it
#[derive(Default, Clone)]
struct LEv {
    th: usize,
    seq: u64,
    /// plain writes (allocation = null into every level, `set_next`)
    writes: Vec<(Loc, u64)>,
    /// a successful CAS: (location, old, new)
    cas: Option<(Loc, u64, u64)>,
    /// a load: (location, value seen)
    read: Option<(Loc, u64)>,
    /// a failed CAS: (location, the value it did not find)
    read_ne: Option<(Loc, u64)>,
}

/// A total order of the events that respects each thread's program order and in which every read
/// sees the latest write to its location: per location the writes are ordered (plain writes of the
/// owner in program order, then the successful CASes chained old -> new); a read of `v` goes
/// between the write of `v` and the next write; a failed CAS on `old` goes after the write that
/// replaced `old`.  Any topological order of that graph is a sequentially consistent history;
/// ties are broken by log order.  `initial` gives locations a value before any write.
fn linearize(evs: &[LEv], initial: &HashMap<Loc, u64>) -> Result<Vec<usize>, String> {
    let n = evs.len();
    // per location: write events in order, with the value written
    let mut plain: BTreeMap<Loc, Vec<(usize, u64)>> = BTreeMap::new();
    let mut cases: BTreeMap<Loc, HashMap<u64, (usize, u64)>> = BTreeMap::new();
    for (i, e) in evs.iter().enumerate() {
        for (l, v) in &e.writes {
            plain.entry(*l).or_default().push((i, *v));
        }
        if let Some((l, old, new)) = e.cas {
            if cases.entry(l).or_default().insert(old, (i, new)).is_some() {
                return Err(format!("two successful CASes on {:x}/{} from the same value", l.0, l.1));
            }
        }
    }
    let mut locs: BTreeSet<Loc> = plain.keys().cloned().collect();
    locs.extend(cases.keys().cloned());
    locs.extend(initial.keys().cloned());
    // usize::MAX = the virtual initial write
    let mut worder: BTreeMap<Loc, Vec<(usize, u64)>> = BTreeMap::new();
    for l in locs {
        let mut ws: Vec<(usize, u64)> = vec![];
        if let Some(v) = initial.get(&l) {
            ws.push((usize::MAX, *v));
        }
        if let Some(p) = plain.get(&l) {
            ws.extend(p.iter().cloned());
        }
        if let Some(mut cs) = cases.remove(&l) {
            let mut cur = match ws.last() {
                Some((_, v)) => *v,
                None => return Err(format!("CAS on {:x}/{} before any write", l.0, l.1)),
            };
            while let Some((i, new)) = cs.remove(&cur) {
                ws.push((i, new));
                cur = new;
            }
            if !cs.is_empty() {
                return Err(format!("successful CASes on {:x}/{} do not form a chain", l.0, l.1));
            }
        }
        worder.insert(l, ws);
    }
    let mut succ: Vec<Vec<usize>> = vec![vec![]; n];
    let mut indeg: Vec<usize> = vec![0; n];
    let edge = |a: usize, b: usize, succ: &mut Vec<Vec<usize>>, indeg: &mut Vec<usize>| {
        if a != usize::MAX && a != b {
            succ[a].push(b);
            indeg[b] += 1;
        }
    };
    // program order
    let mut last_of: HashMap<usize, usize> = HashMap::new();
    for (i, e) in evs.iter().enumerate() {
        if let Some(p) = last_of.insert(e.th, i) {
            edge(p, i, &mut succ, &mut indeg);
        }
    }
    // write order
    for ws in worder.values() {
        for w in ws.windows(2) {
            edge(w[0].0, w[1].0, &mut succ, &mut indeg);
        }
    }
    // reads
    for (i, e) in evs.iter().enumerate() {
        let reads: Vec<(Loc, u64, bool)> = e
            .read
            .iter()
            .map(|(l, v)| (*l, *v, true))
            .chain(e.cas.iter().map(|(l, old, _)| (*l, *old, true)))
            .chain(e.read_ne.iter().map(|(l, v)| (*l, *v, false)))
            .collect();
        for (l, v, sees) in reads {
            let ws = worder.get(&l).ok_or_else(|| format!("access to {:x}/{} that nothing wrote", l.0, l.1))?;
            let j = ws.iter().rposition(|(w, x)| *x == v && *w != i).ok_or_else(|| format!("read of a value never written to {:x}/{}", l.0, l.1))?;
            if sees {
                edge(ws[j].0, i, &mut succ, &mut indeg);
                if e.cas.is_none() {
                    if let Some((w, _)) = ws.get(j + 1) {
                        edge(i, *w, &mut succ, &mut indeg);
                    }
                }
            } else {
                match ws.get(j + 1) {
                    Some((w, _)) => edge(*w, i, &mut succ, &mut indeg),
                    None => return Err(format!("CAS on {:x}/{} failed although the expected value was never replaced", l.0, l.1)),
                }
            }
        }
    }
    let mut heap: BinaryHeap<Reverse<(u64, usize)>> = BinaryHeap::new();
    for i in 0..n {
        if indeg[i] == 0 {
            heap.push(Reverse((evs[i].seq, i)));
        }
    }
    let mut order = Vec::with_capacity(n);
    while let Some(Reverse((_, i))) = heap.pop() {
        order.push(i);
        for &j in &succ[i] {
            indeg[j] -= 1;
            if indeg[j] == 0 {
                heap.push(Reverse((evs[j].seq, j)));
            }
        }
    }
    if order.len() != n {
        return Err("the logged accesses have no sequentially consistent order (cycle)".into());
    }
    Ok(order)
}

//////////////////////////////////////////// skip: traces //////////////////////////////////////////

/// one operation as the oracle sees it: who, what, what it returned, and when (controlled runs:
/// positions of its first and last atomic access in the trace; free runs: harness clock stamps
/// taken before the call and after the return)
#[derive(Clone, Debug)]
struct OpObs {
    th: usize,
    code: u64,
    arg: u64,
    res: String,
    begin: u64,
    end: u64,
}

struct SkipTrace {
    toks: Vec<String>,
    /// (thread, index of the operation within the thread) of every `E` token, in trace order
    ends: Vec<(usize, usize)>,
    /// per thread, per operation: positions of the first and the last access (or of `E`)
    spans: Vec<Vec<(u64, u64)>>,
    cas_failed: u64,
    readvance_loads: u64,
    accesses: u64,
    reordered: u64,
}

fn thread_index(tid: u64, n_workers: usize) -> usize {
    if tid == 0 {
        n_workers
    } else {
        tid as usize - 1
    }
}

fn skip_trace(events: &[sv::Event], n_workers: usize, free: bool) -> Result<SkipTrace, String> {
    let order: Vec<usize> = if free {
        let mut levs = Vec::with_capacity(events.len());
        for (seq, tid, tag, a) in events {
            let mut e = LEv { th: thread_index(*tid, n_workers), seq: *seq, ..Default::default() };
            match *tag {
                "head" | "alloc" => {
                    for l in 0..a[1] {
                        e.writes.push(((a[0], l), 0));
                    }
                }
                "store" => e.writes.push(((a[0], a[1]), a[2])),
                "load" => e.read = Some(((a[0], a[1]), a[2])),
                "cas" => {
                    if a[4] == 1 {
                        e.cas = Some(((a[0], a[1]), a[2], a[3]));
                    } else {
                        e.read_ne = Some(((a[0], a[1]), a[2]));
                    }
                }
                _ => {}
            }
            levs.push(e);
        }
        linearize(&levs, &HashMap::new())?
    } else {
        (0..events.len()).collect()
    };
    let reordered = order.iter().enumerate().filter(|(i, j)| i != *j).count() as u64;
    let mut ids: HashMap<u64, u64> = HashMap::new();
    let mut next_id = 1u64;
    let nth = n_workers + 1;
    let mut t = SkipTrace { toks: vec![], ends: vec![], spans: vec![vec![]; nth], cas_failed: 0, readvance_loads: 0, accesses: 0, reordered };
    let mut in_adv = vec![false; nth];
    let mut open: Vec<Option<(Option<u64>, u64)>> = vec![None; nth];
    let id = |ids: &HashMap<u64, u64>, p: u64| -> Result<String, String> {
        if p == 0 {
            Ok("-".to_string())
        } else {
            ids.get(&p).map(|x| x.to_string()).ok_or_else(|| format!("pointer {:x} was never allocated", p))
        }
    };
    for &i in &order {
        let (_, tid, tag, a) = &events[i];
        let th = thread_index(*tid, n_workers);
        let pos = t.toks.len() as u64;
        let body = match *tag {
            "head" => {
                ids.insert(a[0], 0);
                continue;
            }
            "alloc" => {
                ids.insert(a[0], next_id);
                next_id += 1;
                format!("A{},{}", next_id - 1, a[1])
            }
            "load" => {
                if in_adv[th] {
                    t.readvance_loads += 1;
                }
                format!("L{},{}={}", id(&ids, a[0])?, a[1], id(&ids, a[2])?)
            }
            "store" => {
                in_adv[th] = false;
                format!("S{},{}={}", id(&ids, a[0])?, a[1], id(&ids, a[2])?)
            }
            "cas" => {
                if a[4] == 0 {
                    t.cas_failed += 1;
                    in_adv[th] = true;
                }
                format!("C{},{},{},{}={}", id(&ids, a[0])?, a[1], id(&ids, a[2])?, id(&ids, a[3])?, a[4])
            }
            "mark" => match a[0] {
                1 => format!("I{},{}", a[1], a[2]),
                2 => format!("Qs{}", a[1]),
                3 => format!("Qc{}", a[1]),
                4 => "Qn".into(),
                5 => "Qp".into(),
                6 => "Qf".into(),
                7 => "Ql".into(),
                9 => "E".into(),
                x => return Err(format!("unknown mark {}", x)),
            },
            x => return Err(format!("unknown event {}", x)),
        };
        if *tag == "mark" {
            if a[0] == 9 {
                let (first, last) = open[th].take().ok_or("return without call")?;
                let k = t.spans[th].len();
                t.spans[th].push((first.unwrap_or(pos), if first.is_some() { last } else { pos }));
                t.ends.push((th, k));
                in_adv[th] = false;
            } else {
                open[th] = Some((None, 0));
            }
        } else {
            t.accesses += 1;
            if let Some((first, last)) = open[th].as_mut() {
                if first.is_none() {
                    *first = Some(pos);
                }
                *last = pos;
            }
        }
        t.toks.push(format!("{}:{}", th, body));
    }
    Ok(t)
}

//////////////////////////////////////////// skip: oracle //////////////////////////////////////////

#[derive(Clone, Copy, PartialEq, Debug)]
enum Pos {
    Null,
    Head,
    Key(u64),
}

/// The property, on what the API returned.  `C(op)` = keys whose insert completed before `op`
/// began, `P(op)` = keys whose insert began before `op` ended: a search must find every key of
/// `C` and may find only keys of `P`; a move lands on a key of `P` with no key of `C` strictly
/// between the position it left and the position it reached.
fn skip_oracle(ops: &[OpObs], levels: &[Vec<u64>]) -> Vec<(String, String)> {
    let mut fails: Vec<(String, String)> = vec![];
    let inserts: Vec<&OpObs> = ops.iter().filter(|o| o.code == 1).collect();
    for o in &inserts {
        if o.res != "-" {
            fails.push(("insert-panicked".into(), format!("insert({}) -> {}", o.arg, o.res)));
        }
    }
    let all: BTreeSet<u64> = inserts.iter().map(|o| o.arg).collect();
    let mut threads: BTreeSet<usize> = BTreeSet::new();
    for o in ops {
        threads.insert(o.th);
    }
    for th in threads {
        let mut pos = Pos::Null;
        let mut iteration: Option<(Vec<u64>, BTreeSet<u64>)> = None;
        for o in ops.iter().filter(|o| o.th == th && o.code != 1) {
            let c: BTreeSet<u64> = inserts.iter().filter(|i| i.end < o.begin).map(|i| i.arg).collect();
            let p: BTreeSet<u64> = inserts.iter().filter(|i| i.begin < o.end).map(|i| i.arg).collect();
            if o.res == "panic" {
                fails.push(("reader-panicked".into(), format!("thread {} op {} {}", th, o.code, o.arg)));
                break;
            }
            let res: Option<u64> = o.res.parse().ok();
            let fwd = |lo: Option<u64>, what: &str, fails: &mut Vec<(String, String)>| match (lo, res) {
                (None, None) => {}
                (None, Some(r)) => fails.push((format!("{}-not-nearest", what), format!("thread {} moved past the largest key to {}", th, r))),
                (Some(lo), Some(r)) => {
                    if r < lo || !p.contains(&r) {
                        fails.push((if p.contains(&r) { format!("{}-not-nearest", what) } else { "phantom-key".into() }, format!("thread {} {} from {} landed on {}", th, what, lo, r)));
                    } else if let Some(m) = c.range(lo..r).next() {
                        fails.push((format!("{}-not-nearest", what), format!("thread {} {} from {} landed on {} skipping {} whose insert had returned", th, what, lo, r, m)));
                    }
                }
                (Some(lo), None) => {
                    if let Some(m) = c.range(lo..).next() {
                        fails.push((format!("{}-not-nearest", what), format!("thread {} {} from {} found nothing although insert({}) had returned", th, what, lo, m)));
                    }
                }
            };
            match o.code {
                3 => {
                    let found = o.res == "T";
                    if c.contains(&o.arg) && !found {
                        fails.push(("lost-insert".into(), format!("contains({}) = false after insert({}) returned", o.arg, o.arg)));
                    }
                    if !p.contains(&o.arg) && found {
                        fails.push(("phantom-key".into(), format!("contains({}) = true before any insert({}) began", o.arg, o.arg)));
                    }
                }
                2 => {
                    fwd(Some(o.arg), "seek", &mut fails);
                    pos = res.map(Pos::Key).unwrap_or(Pos::Null);
                }
                6 => {
                    fwd(Some(0), "seek_to_first", &mut fails);
                    pos = res.map(Pos::Key).unwrap_or(Pos::Null);
                    iteration = Some((res.into_iter().collect(), c.clone()));
                }
                4 => {
                    match pos {
                        Pos::Null => {
                            if res.is_some() {
                                fails.push(("next-not-nearest".into(), format!("thread {} next() at the end became valid at {:?}", th, res)));
                            }
                        }
                        Pos::Head => fwd(Some(0), "next", &mut fails),
                        Pos::Key(k) => fwd(k.checked_add(1), "next", &mut fails),
                    }
                    pos = res.map(Pos::Key).unwrap_or(Pos::Null);
                    if let Some((seen, _)) = iteration.as_mut() {
                        if let Some(r) = res {
                            seen.push(r);
                        }
                    }
                }
                5 => {
                    let hi: Option<Option<u64>> = match pos {
                        Pos::Null => Some(None),
                        Pos::Head => None,
                        Pos::Key(k) => Some(Some(k)),
                    };
                    match hi {
                        None => {
                            if res.is_some() {
                                fails.push(("prev-not-nearest".into(), format!("thread {} prev() before the first key became valid at {:?}", th, res)));
                            }
                        }
                        Some(hi) => {
                            let below = |s: &BTreeSet<u64>, from: Option<u64>| -> Option<u64> {
                                // largest element of s in (from, hi)
                                let top: Option<u64> = match hi {
                                    Some(h) => s.range(..h).next_back().cloned(),
                                    None => s.iter().next_back().cloned(),
                                };
                                top.filter(|x| from.map(|f| *x > f).unwrap_or(true))
                            };
                            match res {
                                Some(r) => {
                                    if hi.map(|h| r >= h).unwrap_or(false) || !p.contains(&r) {
                                        fails.push((if p.contains(&r) { "prev-not-nearest".into() } else { "phantom-key".into() }, format!("thread {} prev from {:?} landed on {}", th, hi, r)));
                                    } else if let Some(m) = below(&c, Some(r)) {
                                        fails.push(("prev-not-nearest".into(), format!("thread {} prev from {:?} landed on {} skipping {} whose insert had returned", th, hi, r, m)));
                                    }
                                }
                                None => {
                                    if let Some(m) = below(&c, None) {
                                        fails.push(("prev-not-nearest".into(), format!("thread {} prev from {:?} found nothing although insert({}) had returned", th, hi, m)));
                                    }
                                }
                            }
                        }
                    }
                    pos = match (res, pos) {
                        (Some(r), _) => Pos::Key(r),
                        (None, _) => Pos::Head,
                    };
                    iteration = None;
                }
                7 => {
                    if res.is_some() {
                        fails.push(("seek_to_last-valid".into(), format!("thread {}", th)));
                    }
                    pos = Pos::Null;
                    iteration = None;
                }
                _ => {}
            }
            if o.code == 2 {
                iteration = None;
            }
            // a complete forward iteration: strictly increasing, every completed insert exactly once
            if (o.code == 4 || o.code == 6) && res.is_none() {
                if let Some((seen, c0)) = iteration.take() {
                    if !seen.windows(2).all(|w| w[0] < w[1]) {
                        fails.push(("iteration-not-increasing".into(), format!("thread {} saw {:?}", th, seen)));
                    }
                    let s: BTreeSet<u64> = seen.iter().cloned().collect();
                    if let Some(m) = c0.difference(&s).next() {
                        fails.push(("lost-insert".into(), format!("full iteration by thread {} misses {} whose insert had returned", th, m)));
                    }
                    if let Some(m) = s.difference(&all).next() {
                        fails.push(("phantom-key".into(), format!("full iteration by thread {} shows {} which nobody inserted", th, m)));
                    }
                }
            }
        }
    }
    // the quiescent structure
    for (l, keys) in levels.iter().enumerate() {
        if !keys.windows(2).all(|w| w[0] < w[1]) {
            fails.push(("level-not-sorted".into(), format!("level {}: {:?}", l, keys)));
        }
        if l > 0 {
            let below: BTreeSet<u64> = levels[l - 1].iter().cloned().collect();
            if let Some(m) = keys.iter().find(|k| !below.contains(k)) {
                fails.push(("level-not-subchain".into(), format!("key {} on level {} but not on level {}", m, l, l - 1)));
            }
        }
    }
    if let Some(l0) = levels.first() {
        let s: BTreeSet<u64> = l0.iter().cloned().collect();
        if s != all || l0.len() != all.len() {
            fails.push(("lost-insert".into(), format!("level 0 holds {} keys, {} inserts returned", l0.len(), all.len())));
        }
    }
    fails
}

fn render_levels(levels: &[Vec<u64>]) -> String {
    let mut ls: Vec<&Vec<u64>> = levels.iter().collect();
    while ls.last().map(|l| l.is_empty()).unwrap_or(false) {
        ls.pop();
    }
    if ls.is_empty() {
        "-".into()
    } else {
        ls.iter().map(|l| l.iter().map(|k| k.to_string()).collect::<Vec<_>>().join(",")).collect::<Vec<_>>().join("/")
    }
}

//////////////////////////////////////////// skip: one run /////////////////////////////////////////

#[derive(Clone, Debug)]
struct SkipScenario {
    name: String,
    h: usize,
    preload: Vec<(u64, usize)>,
    scripts: Vec<Script>,
}

struct RunOut {
    req: String,
    obs: String,
    verdict: Verdict,
    cas_failed: u64,
    readvance_loads: u64,
    accesses: u64,
    steps: u64,
    switches: u64,
    reordered: u64,
    /// a reader returned a key whose insert had not returned yet / missed one that was in flight
    saw_inflight: u64,
}

const L0_LIMIT: usize = 4000;

enum Mode<'a> {
    Controlled(&'a Pool, &'a mut dyn Chooser),
    Free,
}

fn final_iteration<const H: usize>(sl: &SkipList<u64, u64, H>) -> Vec<OpRec> {
    let mut recs = vec![];
    let mut it = sl.iter();
    let mut op = ROp::First;
    loop {
        let m = op.mark();
        let t0 = tick();
        sv::emit("mark", m);
        let res = apply_rop(sl, &mut it, &op);
        sv::emit("mark", [9, 0, 0, 0, 0]);
        let t1 = tick();
        let done = res == "-" || res == "panic";
        recs.push(OpRec { code: m[0], arg: m[1], res, t0, t1 });
        if done {
            return recs;
        }
        op = ROp::Next;
    }
}

fn skip_run<const H: usize>(sc: &SkipScenario, mode: Mode) -> RunOut {
    let n = sc.scripts.len();
    let free = matches!(mode, Mode::Free);
    let _ = sv::take_events();
    sv::events_enable(true);
    let sl: Arc<SkipList<u64, u64, H>> = Arc::new(SkipList::default());
    let mut main_recs = run_script(&*sl, &Script::Ins(sc.preload.clone()));
    let (mut recs, steps, switches): (Vec<Vec<OpRec>>, u64, u64) = match mode {
        Mode::Controlled(pool, chooser) => {
            let jobs: Vec<Job> = sc
                .scripts
                .iter()
                .map(|s| {
                    let sl = Arc::clone(&sl);
                    let s = s.clone();
                    Box::new(move || run_script(&*sl, &s)) as Job
                })
                .collect();
            controlled(pool, Which::Skip, jobs, chooser)
        }
        Mode::Free => {
            FREE_RUNNING.store(1, Ordering::SeqCst);
            let barrier = std::sync::Barrier::new(n);
            let out = std::thread::scope(|scope| {
                let hs: Vec<_> = sc
                    .scripts
                    .iter()
                    .enumerate()
                    .map(|(i, s)| {
                        let sl = &sl;
                        let barrier = &barrier;
                        scope.spawn(move || {
                            sv::enroll(i as u64 + 1);
                            barrier.wait();
                            run_script(&**sl, s)
                        })
                    })
                    .collect();
                hs.into_iter().map(|h| h.join().unwrap_or_default()).collect::<Vec<_>>()
            });
            FREE_RUNNING.store(0, Ordering::SeqCst);
            (out, 0, 0)
        }
    };
    main_recs.extend(final_iteration(&*sl));
    let levels: Vec<Vec<u64>> = guarded(AssertUnwindSafe(|| sl.verif_levels().iter().map(|l| l.iter().map(|k| **k).collect()).collect())).unwrap_or_default();
    sv::events_enable(false);
    let events = sv::take_events();
    recs.push(main_recs);
    let head = format!("skip run {} {}", H, n + 1);
    let fail = |class: &str, detail: String| RunOut {
        req: format!("{} ?", head),
        obs: class.to_string(),
        verdict: Verdict::Fail { class: class.to_string(), detail },
        cas_failed: 0,
        readvance_loads: 0,
        accesses: 0,
        steps,
        switches,
        reordered: 0,
        saw_inflight: 0,
    };
    let tr = match skip_trace(&events, n, free) {
        Ok(t) => t,
        Err(e) => return fail("no-sc-order", format!("{}: {}", sc.name, e)),
    };
    // what the implementation returned, in the order in which the operations returned
    let mut r: Vec<String> = vec![];
    let mut ops: Vec<OpObs> = vec![];
    for (th, k) in &tr.ends {
        let rec = match recs[*th].get(*k) {
            Some(r) => r,
            None => return fail("harness-records", format!("thread {} has no record {}", th, k)),
        };
        if rec.code != 1 {
            r.push(format!("{}:{}", th, rec.res));
        }
        let (b, e) = if free { (rec.t0, rec.t1) } else { tr.spans[*th][*k] };
        ops.push(OpObs { th: *th, code: rec.code, arg: rec.arg, res: rec.res.clone(), begin: b, end: e });
    }
    // per-thread order is what the oracle walks: sort by (thread, op index) keeping E order inside
    let n_ins = ops.iter().filter(|o| o.code == 1 && o.res == "-").count();
    let l0 = if tr.toks.len() <= L0_LIMIT { "1" } else { "skip" };
    let obs = format!("ok r={} lv={} ins={} ret={} chk=1 l0={}", if r.is_empty() { "-".to_string() } else { r.join(",") }, render_levels(&levels), n_ins, n_ins, l0);
    let fails = skip_oracle(&ops, &levels);
    let inserts: Vec<&OpObs> = ops.iter().filter(|o| o.code == 1).collect();
    let mut saw_inflight = 0;
    for o in ops.iter().filter(|o| o.code != 1 && o.th != n) {
        if let Ok(k) = o.res.parse::<u64>() {
            if inserts.iter().any(|i| i.arg == k && i.end >= o.begin) {
                saw_inflight += 1;
            }
        }
    }
    let verdict = match fails.first() {
        None => Verdict::Ok,
        Some((c, d)) => Verdict::Fail { class: c.clone(), detail: format!("{}: {} ({} complaint(s))", sc.name, d, fails.len()) },
    };
    RunOut {
        req: format!("{} {}", head, tr.toks.join(" ")),
        obs,
        verdict,
        cas_failed: tr.cas_failed,
        readvance_loads: tr.readvance_loads,
        accesses: tr.accesses,
        steps,
        switches,
        reordered: tr.reordered,
        saw_inflight,
    }
}

fn skip_dispatch(sc: &SkipScenario, mode: Mode) -> RunOut {
    match sc.h {
        1 => skip_run::<1>(sc, mode),
        2 => skip_run::<2>(sc, mode),
        3 => skip_run::<3>(sc, mode),
        4 => skip_run::<4>(sc, mode),
        _ => skip_run::<12>(sc, mode),
    }
}

//////////////////////////////////////////////// list //////////////////////////////////////////////

#[derive(Clone, Debug)]
enum LScript {
    Prepend(Vec<u64>),
    /// this many full iterations
    Iter(usize),
}

#[derive(Clone, Debug)]
struct ListScenario {
    name: String,
    preload: Vec<u64>,
    scripts: Vec<LScript>,
}

fn r_data(ds: &[u64]) -> String {
    if ds.is_empty() {
        "-".into()
    } else {
        ds.iter().map(|d| d.to_string()).collect::<Vec<_>>().join(".")
    }
}

fn list_script(l: &List<u64>, s: &LScript) -> Vec<OpRec> {
    let mut recs = vec![];
    match s {
        LScript::Prepend(ds) => {
            for d in ds {
                let t0 = tick();
                lv::emit("mark", [1, *d, 0, 0, 0]);
                let r = guarded(AssertUnwindSafe(|| l.prepend(*d)));
                lv::emit("mark", [9, 0, 0, 0, 0]);
                let t1 = tick();
                recs.push(OpRec { code: 1, arg: *d, res: if r.is_ok() { "-".into() } else { "panic".into() }, t0, t1 });
            }
        }
        LScript::Iter(times) => {
            for _ in 0..*times {
                let t0 = tick();
                lv::emit("mark", [8, 0, 0, 0, 0]);
                let r = guarded(AssertUnwindSafe(|| l.iter().cloned().collect::<Vec<u64>>()));
                lv::emit("mark", [9, 0, 0, 0, 0]);
                let t1 = tick();
                recs.push(OpRec { code: 8, arg: 0, res: r.map(|v| r_data(&v)).unwrap_or_else(|_| "panic".into()), t0, t1 });
                reader_pause();
            }
        }
    }
    recs
}

const LHEAD: Loc = (0, 0);

fn list_trace(events: &[lv::Event], n_workers: usize, free: bool) -> Result<SkipTrace, String> {
    let order: Vec<usize> = if free {
        let mut levs = Vec::with_capacity(events.len());
        for (seq, tid, tag, a) in events {
            let mut e = LEv { th: thread_index(*tid, n_workers), seq: *seq, ..Default::default() };
            match *tag {
                "alloc" => e.writes.push(((a[0], 1), 0)),
                "store" => e.writes.push(((a[0], 1), a[1])),
                "head" => e.read = Some((LHEAD, a[0])),
                "load" => e.read = Some(((a[0], 1), a[1])),
                "cas" => {
                    if a[2] == 1 {
                        e.cas = Some((LHEAD, a[0], a[1]));
                    } else {
                        e.read_ne = Some((LHEAD, a[0]));
                    }
                }
                _ => {}
            }
            levs.push(e);
        }
        let mut initial = HashMap::new();
        initial.insert(LHEAD, 0);
        linearize(&levs, &initial)?
    } else {
        (0..events.len()).collect()
    };
    let reordered = order.iter().enumerate().filter(|(i, j)| i != *j).count() as u64;
    let mut ids: HashMap<u64, u64> = HashMap::new();
    let nth = n_workers + 1;
    let mut t = SkipTrace { toks: vec![], ends: vec![], spans: vec![vec![]; nth], cas_failed: 0, readvance_loads: 0, accesses: 0, reordered };
    let mut open: Vec<Option<(Option<u64>, u64)>> = vec![None; nth];
    let id = |ids: &HashMap<u64, u64>, p: u64| -> Result<String, String> {
        if p == 0 {
            Ok("-".to_string())
        } else {
            ids.get(&p).map(|x| x.to_string()).ok_or_else(|| format!("pointer {:x} was never allocated", p))
        }
    };
    for &i in &order {
        let (_, tid, tag, a) = &events[i];
        let th = thread_index(*tid, n_workers);
        let pos = t.toks.len() as u64;
        let body = match *tag {
            "alloc" => {
                let n = ids.len() as u64;
                ids.insert(a[0], n);
                format!("A{}", n)
            }
            "head" => format!("H={}", id(&ids, a[0])?),
            "store" => format!("S{}={}", id(&ids, a[0])?, id(&ids, a[1])?),
            "load" => format!("L{}={}", id(&ids, a[0])?, id(&ids, a[1])?),
            "cas" => {
                if a[2] == 0 {
                    t.cas_failed += 1;
                }
                format!("C{},{}={}", id(&ids, a[0])?, id(&ids, a[1])?, a[2])
            }
            "mark" => match a[0] {
                1 => format!("P{}", a[1]),
                8 => "Qi".into(),
                9 => "E".into(),
                x => return Err(format!("unknown mark {}", x)),
            },
            x => return Err(format!("unknown event {}", x)),
        };
        if *tag == "mark" {
            if a[0] == 9 {
                let (first, last) = open[th].take().ok_or("return without call")?;
                let k = t.spans[th].len();
                t.spans[th].push((first.unwrap_or(pos), if first.is_some() { last } else { pos }));
                t.ends.push((th, k));
            } else {
                open[th] = Some((None, 0));
            }
        } else {
            t.accesses += 1;
            if let Some((first, last)) = open[th].as_mut() {
                if first.is_none() {
                    *first = Some(pos);
                }
                *last = pos;
            }
        }
        t.toks.push(format!("{}:{}", th, body));
    }
    Ok(t)
}

/// every prepended element exactly once in every later iteration, newest first; an iteration is
/// the list as it was at some moment, i.e. a suffix of what the list finally holds
fn list_oracle(ops: &[OpObs], fin: &[u64]) -> Vec<(String, String)> {
    let mut fails = vec![];
    let pre: Vec<&OpObs> = ops.iter().filter(|o| o.code == 1).collect();
    for o in &pre {
        if o.res != "-" {
            fails.push(("prepend-panicked".to_string(), format!("prepend({})", o.arg)));
        }
    }
    let mut want: Vec<u64> = pre.iter().map(|o| o.arg).collect();
    let mut got: Vec<u64> = fin.to_vec();
    want.sort();
    got.sort();
    if want != got {
        fails.push(("lost-prepend".to_string(), format!("the list finally holds {:?}, prepended were {:?}", fin, want)));
    }
    let at: HashMap<u64, usize> = fin.iter().enumerate().map(|(i, d)| (*d, i)).collect();
    for a in &pre {
        for b in &pre {
            if a.end < b.begin {
                if let (Some(ia), Some(ib)) = (at.get(&a.arg), at.get(&b.arg)) {
                    if ib > ia {
                        fails.push(("not-newest-first".to_string(), format!("prepend({}) returned before prepend({}) began but comes first", a.arg, b.arg)));
                    }
                }
            }
        }
    }
    for o in ops.iter().filter(|o| o.code == 8) {
        if o.res == "panic" {
            fails.push(("reader-panicked".to_string(), format!("thread {}", o.th)));
            continue;
        }
        let seen: Vec<u64> = if o.res == "-" { vec![] } else { o.res.split('.').filter_map(|x| x.parse().ok()).collect() };
        let s: BTreeSet<u64> = seen.iter().cloned().collect();
        if s.len() != seen.len() {
            fails.push(("element-twice".to_string(), format!("thread {} saw {:?}", o.th, seen)));
        }
        if seen.len() > fin.len() || fin[fin.len() - seen.len()..] != seen[..] {
            fails.push(("iteration-not-a-past-state".to_string(), format!("thread {} saw {:?}, the list ends as {:?}", o.th, seen, fin)));
        }
        for p in &pre {
            if p.end < o.begin && !s.contains(&p.arg) {
                fails.push(("lost-prepend".to_string(), format!("iteration by thread {} misses {} whose prepend had returned", o.th, p.arg)));
            }
            if p.begin >= o.end && s.contains(&p.arg) {
                fails.push(("phantom-element".to_string(), format!("iteration by thread {} shows {} before its prepend began", o.th, p.arg)));
            }
        }
    }
    fails
}

fn list_run(sc: &ListScenario, mode: Mode) -> RunOut {
    let n = sc.scripts.len();
    let free = matches!(mode, Mode::Free);
    let _ = lv::take_events();
    lv::events_enable(true);
    let l: Arc<List<u64>> = Arc::new(List::default());
    let mut main_recs = list_script(&l, &LScript::Prepend(sc.preload.clone()));
    let (mut recs, steps, switches): (Vec<Vec<OpRec>>, u64, u64) = match mode {
        Mode::Controlled(pool, chooser) => {
            let jobs: Vec<Job> = sc
                .scripts
                .iter()
                .map(|s| {
                    let l = Arc::clone(&l);
                    let s = s.clone();
                    Box::new(move || list_script(&l, &s)) as Job
                })
                .collect();
            controlled(pool, Which::List, jobs, chooser)
        }
        Mode::Free => {
            FREE_RUNNING.store(1, Ordering::SeqCst);
            let barrier = std::sync::Barrier::new(n);
            let out = std::thread::scope(|scope| {
                let hs: Vec<_> = sc
                    .scripts
                    .iter()
                    .enumerate()
                    .map(|(i, s)| {
                        let l = &l;
                        let barrier = &barrier;
                        scope.spawn(move || {
                            lv::enroll(i as u64 + 1);
                            barrier.wait();
                            list_script(l, s)
                        })
                    })
                    .collect();
                hs.into_iter().map(|h| h.join().unwrap_or_default()).collect::<Vec<_>>()
            });
            FREE_RUNNING.store(0, Ordering::SeqCst);
            (out, 0, 0)
        }
    };
    main_recs.extend(list_script(&l, &LScript::Iter(1)));
    lv::events_enable(false);
    let events = lv::take_events();
    let fin: Vec<u64> = main_recs.last().map(|r| if r.res == "-" { vec![] } else { r.res.split('.').filter_map(|x| x.parse().ok()).collect() }).unwrap_or_default();
    recs.push(main_recs);
    let head = format!("list run {}", n + 1);
    let fail = |class: &str, detail: String| RunOut {
        req: format!("{} ?", head),
        obs: class.to_string(),
        verdict: Verdict::Fail { class: class.to_string(), detail },
        cas_failed: 0,
        readvance_loads: 0,
        accesses: 0,
        steps,
        switches,
        reordered: 0,
        saw_inflight: 0,
    };
    let tr = match list_trace(&events, n, free) {
        Ok(t) => t,
        Err(e) => return fail("no-sc-order", format!("{}: {}", sc.name, e)),
    };
    let mut r: Vec<String> = vec![];
    let mut ops: Vec<OpObs> = vec![];
    for (th, k) in &tr.ends {
        let rec = match recs[*th].get(*k) {
            Some(r) => r,
            None => return fail("harness-records", format!("thread {} has no record {}", th, k)),
        };
        if rec.code == 8 {
            r.push(format!("{}:{}", th, rec.res));
        }
        let (b, e) = if free { (rec.t0, rec.t1) } else { tr.spans[*th][*k] };
        ops.push(OpObs { th: *th, code: rec.code, arg: rec.arg, res: rec.res.clone(), begin: b, end: e });
    }
    let n_pre = ops.iter().filter(|o| o.code == 1 && o.res == "-").count();
    let obs = format!("ok r={} chain={} pushed={} chk=1", r.join(","), r_data(&fin), n_pre);
    let fails = list_oracle(&ops, &fin);
    let saw_inflight = ops.iter().filter(|o| o.code == 8 && o.th != n && o.res != "-" && o.res != r_data(&fin)).count() as u64;
    let verdict = match fails.first() {
        None => Verdict::Ok,
        Some((c, d)) => Verdict::Fail { class: c.clone(), detail: format!("{}: {} ({} complaint(s))", sc.name, d, fails.len()) },
    };
    RunOut { req: format!("{} {}", head, tr.toks.join(" ")), obs, verdict, cas_failed: tr.cas_failed, readvance_loads: 0, accesses: tr.accesses, steps, switches, reordered: tr.reordered, saw_inflight }
}

///////////////////////////////////////// sequential streams ///////////////////////////////////////

#[derive(Clone, Debug)]
enum SeqOp {
    Ins(u64, usize),
    R(ROp),
    Dump,
}

fn seq_skip<const H: usize>(ops: &[SeqOp]) -> (Vec<String>, Vec<String>, u64) {
    let sl: SkipList<u64, u64, H> = SkipList::default();
    let mut it = sl.iter();
    let mut set: BTreeSet<u64> = BTreeSet::new();
    let mut pos = Pos::Null;
    let (mut obs, mut fails, mut dups) = (vec![], vec![], 0);
    for op in ops {
        let (got, want) = match op {
            SeqOp::Ins(k, h) => {
                let dup = set.contains(k);
                if !dup {
                    sv::force_heights(&[*h]);
                } else {
                    dups += 1;
                }
                let r = guarded(AssertUnwindSafe(|| sl.insert(*k, *k)));
                set.insert(*k);
                (if r.is_ok() { "-".to_string() } else { "panic".to_string() }, if dup { "panic".to_string() } else { "-".to_string() })
            }
            SeqOp::R(rop) => {
                let got = apply_rop(&sl, &mut it, rop);
                let want: String = match rop {
                    ROp::Contains(k) => (if set.contains(k) { "T" } else { "F" }).to_string(),
                    _ => {
                        pos = match (rop, pos) {
                            (ROp::Seek(k), _) => set.range(*k..).next().map(|x| Pos::Key(*x)).unwrap_or(Pos::Null),
                            (ROp::First, _) => set.iter().next().map(|x| Pos::Key(*x)).unwrap_or(Pos::Null),
                            (ROp::Last, _) => Pos::Null,
                            (ROp::Next, Pos::Null) => Pos::Null,
                            (ROp::Next, Pos::Head) => set.iter().next().map(|x| Pos::Key(*x)).unwrap_or(Pos::Null),
                            (ROp::Next, Pos::Key(p)) => match p.checked_add(1) {
                                Some(q) => set.range(q..).next().map(|x| Pos::Key(*x)).unwrap_or(Pos::Null),
                                None => Pos::Null,
                            },
                            (ROp::Prev, Pos::Null) => set.iter().next_back().map(|x| Pos::Key(*x)).unwrap_or(Pos::Head),
                            (ROp::Prev, Pos::Head) => Pos::Head,
                            (ROp::Prev, Pos::Key(p)) => set.range(..p).next_back().map(|x| Pos::Key(*x)).unwrap_or(Pos::Head),
                            (ROp::Contains(_), p) => p,
                        };
                        match pos {
                            Pos::Key(k) => k.to_string(),
                            _ => "-".to_string(),
                        }
                    }
                };
                (got, want)
            }
            SeqOp::Dump => {
                let levels: Vec<Vec<u64>> = sl.verif_levels().iter().map(|l| l.iter().map(|k| **k).collect()).collect();
                let all: Vec<u64> = set.iter().cloned().collect();
                let mut ok = levels.first().map(|l| *l == all).unwrap_or(false);
                for l in 1..levels.len() {
                    let below: BTreeSet<u64> = levels[l - 1].iter().cloned().collect();
                    ok &= levels[l].windows(2).all(|w| w[0] < w[1]) && levels[l].iter().all(|k| below.contains(k));
                }
                let s = format!("lv={}", render_levels(&levels));
                (s.clone(), if ok { s } else { "levels-broken".to_string() })
            }
        };
        if got != want {
            fails.push(format!("op {:?}: got {} want {}", op, got, want));
        }
        obs.push(got);
    }
    (obs, fails, dups)
}

/// The same sequential program on a list of SIGNED keys: key k of the program is stored as
/// `k - 2^63` (an order-preserving bijection u64 -> i64), so about half of the keys lie below
/// `i64::default()`, the key the head node carries.  What the iterator may do at the front of the
/// list (prev() from before the first element stays there, whatever lies below the head's key) is
/// only visible with such keys.  Observations are mapped back, so the request, the model's answer
/// and the reference are those of the unsigned program.
fn seq_skip_signed<const H: usize>(ops: &[SeqOp]) -> (Vec<String>, Vec<String>, u64) {
    let enc = |k: u64| (k ^ (1u64 << 63)) as i64;
    let dec = |k: i64| (k as u64) ^ (1u64 << 63);
    let sl: SkipList<i64, u64, H> = SkipList::default();
    let mut it = sl.iter();
    let (ops_u, _) = (ops, ());
    // reference and expected answers: reuse the unsigned reference by running the unsigned list too
    let (want_obs, _, dups) = seq_skip::<H>(ops_u);
    let (mut obs, mut fails) = (vec![], vec![]);
    for (i, op) in ops.iter().enumerate() {
        let got = match op {
            SeqOp::Ins(k, h) => {
                // the unsigned run above consumed its forced heights; force the same ones here
                let dup = want_obs[i] == "panic";
                if !dup {
                    sv::force_heights(&[*h]);
                }
                let r = guarded(AssertUnwindSafe(|| sl.insert(enc(*k), *k)));
                if r.is_ok() { "-".to_string() } else { "panic".to_string() }
            }
            SeqOp::R(rop) => {
                let r = guarded(AssertUnwindSafe(|| {
                    match rop {
                        ROp::Seek(k) => it.seek(&enc(*k)),
                        ROp::Contains(k) => return if sl.contains(&enc(*k)) { "T".to_string() } else { "F".to_string() },
                        ROp::Next => it.next(),
                        ROp::Prev => it.prev(),
                        ROp::First => it.seek_to_first(),
                        ROp::Last => it.seek_to_last(),
                    }
                    if it.is_valid() {
                        format!("{}", dec(*it.key()))
                    } else {
                        "-".to_string()
                    }
                }));
                r.unwrap_or_else(|_| "panic".to_string())
            }
            SeqOp::Dump => {
                let levels: Vec<Vec<u64>> = sl.verif_levels().iter().map(|l| l.iter().map(|k| dec(**k)).collect()).collect();
                format!("lv={}", render_levels(&levels))
            }
        };
        if got != want_obs[i] {
            fails.push(format!("signed keys, op {:?}: got {} want {}", op, got, want_obs[i]));
        }
        obs.push(got);
    }
    (obs, fails, dups)
}

fn seq_dispatch_signed(h: usize, ops: &[SeqOp]) -> (Vec<String>, Vec<String>, u64) {
    match h {
        1 => seq_skip_signed::<1>(ops),
        2 => seq_skip_signed::<2>(ops),
        3 => seq_skip_signed::<3>(ops),
        4 => seq_skip_signed::<4>(ops),
        _ => seq_skip_signed::<12>(ops),
    }
}

fn seq_dispatch(h: usize, ops: &[SeqOp]) -> (Vec<String>, Vec<String>, u64) {
    match h {
        1 => seq_skip::<1>(ops),
        2 => seq_skip::<2>(ops),
        3 => seq_skip::<3>(ops),
        4 => seq_skip::<4>(ops),
        _ => seq_skip::<12>(ops),
    }
}

fn height(rng: &mut Rng, h: usize) -> usize {
    // the distribution of `random_height` (branching 4), with the top of the tower over-weighted
    if rng.chance(1, 10) {
        return h;
    }
    let mut x = 1;
    while x < h && rng.below(4) == 0 {
        x += 1;
    }
    x
}

fn gen_seq(rng: &mut Rng) -> (usize, Vec<SeqOp>, &'static str) {
    let h = *rng.pick(&[1usize, 2, 3, 4, 12]);
    let (space, name): (Vec<u64>, &'static str) = match rng.below(5) {
        0 => ((1..=6).collect(), "dense6"),
        1 => ((1..=16).collect(), "dense16"),
        2 => (vec![0, 1, 2, u64::MAX - 1, u64::MAX, 1 << 63, (1 << 63) - 1], "boundary"),
        3 => ((0..12).map(|i| i * 10).collect(), "gaps"),
        _ => ((0..20).map(|_| rng.next()).collect(), "random64"),
    };
    let n = rng.range(3, 40) as usize;
    let mut ops = vec![];
    let mut used: BTreeSet<u64> = BTreeSet::new();
    // with and without the occasional duplicate key (the code asserts; outside the property)
    let dup_ok = rng.chance(1, 6);
    for _ in 0..n {
        let near = |rng: &mut Rng| -> u64 {
            let k = *rng.pick(&space);
            match rng.below(4) {
                0 => k.wrapping_add(1),
                1 => k.wrapping_sub(1),
                _ => k,
            }
        };
        match rng.below(12) {
            0..=3 => {
                let k = *rng.pick(&space);
                if !used.contains(&k) || dup_ok {
                    used.insert(k);
                    ops.push(SeqOp::Ins(k, height(rng, h)));
                }
            }
            4 => ops.push(SeqOp::R(ROp::Seek(near(rng)))),
            5 => ops.push(SeqOp::R(ROp::Contains(near(rng)))),
            6 | 7 => ops.push(SeqOp::R(ROp::Next)),
            8 | 9 => ops.push(SeqOp::R(ROp::Prev)),
            10 => ops.push(SeqOp::R(if rng.chance(1, 2) { ROp::First } else { ROp::Last })),
            _ => ops.push(SeqOp::Dump),
        }
    }
    ops.push(SeqOp::Dump);
    // a full iteration in both directions at the end
    ops.push(SeqOp::R(ROp::First));
    for _ in 0..used.len() {
        ops.push(SeqOp::R(ROp::Next));
    }
    ops.push(SeqOp::R(ROp::Last));
    for _ in 0..used.len() + 1 {
        ops.push(SeqOp::R(ROp::Prev));
    }
    (h, ops, name)
}

fn seq_tok(op: &SeqOp) -> String {
    match op {
        SeqOp::Ins(k, h) => format!("i{},{}", k, h),
        SeqOp::R(r) => r.tok(),
        SeqOp::Dump => "d".into(),
    }
}

////////////////////////////////////// node lifetime (child process) ///////////////////////////////

fn gen_life(rng: &mut Rng, i: u64) -> Vec<String> {
    // the first programs are the shapes of finding D-4; the rest are random
    let fixed: [&[&str]; 4] = [
        &["i", "i", "i", "t", "L", "u0", "D0"],
        &["i", "t", "c0", "L", "D0", "u1", "D1"],
        &["t", "L", "u0", "D0"],
        &["i", "i", "t", "u0", "D0", "L"],
    ];
    if (i as usize) < fixed.len() {
        return fixed[i as usize].iter().map(|s| s.to_string()).collect();
    }
    let mut ops = vec![];
    let mut list = true;
    let mut iters: Vec<bool> = vec![];
    let n = rng.range(3, 14);
    for _ in 0..n {
        let held: Vec<usize> = (0..iters.len()).filter(|j| iters[*j]).collect();
        match rng.below(9) {
            0 | 1 if list => ops.push("i".to_string()),
            2 | 3 if list => {
                ops.push("t".to_string());
                iters.push(true);
            }
            4 if !held.is_empty() => {
                ops.push(format!("c{}", rng.pick(&held)));
                iters.push(true);
            }
            5 if list => {
                ops.push("L".to_string());
                list = false;
            }
            6 if !held.is_empty() => {
                let j = *rng.pick(&held);
                ops.push(format!("D{}", j));
                iters[j] = false;
            }
            _ if !held.is_empty() => ops.push(format!("u{}", rng.pick(&held))),
            _ => {}
        }
    }
    ops
}

/// is an iterator held at the moment the list is dropped (the trigger of D-4)?
fn life_iterator_outlives_list(ops: &[String]) -> bool {
    let mut iters: Vec<bool> = vec![];
    for op in ops {
        match op.as_bytes()[0] {
            b't' | b'c' => iters.push(true),
            b'D' => {
                let j: usize = op[1..].parse().unwrap_or(0);
                if j < iters.len() {
                    iters[j] = false;
                }
            }
            b'L' => return iters.iter().any(|x| *x),
            _ => {}
        }
    }
    false
}

/// `blueharness C17child life <op>…`: one line per op, `<nodes alive>`; when nodes have been
/// released although a handle is still held: `<nodes alive> D4`, then one dereference through a held
/// iterator (so that the registry's deref check and valgrind see it), `viol <n>`, and exit.
pub fn child_run(rest: &[String]) -> ! {
    use std::io::Write as _;
    if rest.first().map(|s| s.as_str()) == Some("kvs") {
        child_kvs();
    }
    if rest.first().map(|s| s.as_str()) != Some("life") {
        std::process::exit(2);
    }
    sv::registry_enable(true);
    let mut list: Option<SkipList<u64, u64>> = Some(SkipList::default());
    let mut iters: Vec<Option<skipfree::SkipListIterator<u64, u64>>> = vec![];
    let mut next_key = 1u64;
    let out = std::io::stdout();
    for op in &rest[1..] {
        let j: usize = op[1..].parse().unwrap_or(0);
        match op.as_bytes()[0] {
            b'i' => {
                list.as_ref().unwrap().insert(next_key, next_key);
                next_key += 1;
            }
            b't' => iters.push(Some(list.as_ref().unwrap().iter())),
            b'c' => {
                let c = iters[j].clone();
                iters.push(c);
            }
            b'L' => list = None,
            b'D' => iters[j] = None,
            b'u' => {
                let it = iters[j].as_mut().unwrap();
                it.seek_to_first();
                let mut sum = 0u64;
                while it.is_valid() {
                    sum = sum.wrapping_add(*it.key());
                    it.next();
                }
                it.prev();
                std::hint::black_box(sum);
            }
            _ => std::process::exit(2),
        }
        let (live, freed, _) = sv::registry_report();
        let held = list.is_some() || iters.iter().any(|x| x.is_some());
        if held && freed > 0 {
            writeln!(out.lock(), "{} D4", live).unwrap();
            out.lock().flush().unwrap();
            if let Some(it) = iters.iter_mut().flatten().next() {
                let _ = guarded(AssertUnwindSafe(|| it.seek_to_first()));
            }
            let (_, _, viol) = sv::registry_report();
            writeln!(out.lock(), "viol {}", viol.len()).unwrap();
            out.lock().flush().unwrap();
            std::process::exit(0);
        }
        writeln!(out.lock(), "{}", live).unwrap();
    }
    let (_, _, viol) = sv::registry_report();
    writeln!(out.lock(), "viol {}", viol.len()).unwrap();
    out.lock().flush().unwrap();
    std::process::exit(0);
}

/// `blueharness C17child kvs`: the use of the skiplist iterator that finding D-4 is about.  A
/// `KeyValueStore::range_scan` cursor is opened over five keys in the memtable; then the store
/// takes another write and flushes (single-stepped memtable thread), which drops the store's last
/// `Arc<MemTable>`; then the cursor is read.  Lines: `open <nodes alive>`, `flushed <alive>
/// <released>`, then `D4` + one cursor step (nodes were released under the cursor) or `read <n>`.
fn child_kvs() -> ! {
    use crate::store::{scratch_dir, Cfg, Sim};
    use sst::Cursor as _;
    use std::io::Write as _;
    use std::ops::Bound;
    let say = |l: String| {
        let out = std::io::stdout();
        writeln!(out.lock(), "{}", l).unwrap();
        out.lock().flush().unwrap();
    };
    sv::registry_enable(true);
    let root = scratch_dir("c17kvs");
    let cfg = Cfg { memtable_bytes: 1 << 20, target_file: 1 << 22, min_file: 1 << 12, target_block: 4096, l0_mandatory_files: 4, l0_stall_files: 12, max_compaction_files: 64, gc_versions: 1, mani_ratio: 10 };
    let sim = match Sim::open(&root, &cfg) {
        Ok(s) => s,
        Err(e) => {
            say(format!("error open {}", e));
            std::process::exit(3);
        }
    };
    let kvs = sim.kvs();
    for i in 0..5u8 {
        kvs.put(&[b'k', b'0' + i], &[b'v', b'0' + i]).unwrap();
    }
    let mut cur = kvs.range_scan::<&[u8]>(&Bound::Unbounded, &Bound::Unbounded).unwrap();
    cur.seek_to_first().unwrap();
    say(format!("open {}", sv::registry_report().0));
    kvs.put(b"k9", b"v9").unwrap();
    kvs.verif_request_flush();
    lsmtk::verif::set_single_step(Some(0));
    let r = kvs.memtable_thread();
    lsmtk::verif::set_single_step(None);
    if let Err(e) = r {
        say(format!("error flush {:?}", e));
        std::process::exit(3);
    }
    let (live, freed, _) = sv::registry_report();
    say(format!("flushed {} {}", live, freed));
    if freed > 0 {
        say("D4".to_string());
        let _ = guarded(AssertUnwindSafe(|| cur.next()));
        say(format!("viol {}", sv::registry_report().2.len()));
        std::process::exit(0);
    }
    let mut n = 0;
    loop {
        cur.next().unwrap();
        if cur.key_value().is_none() {
            break;
        }
        n += 1;
    }
    say(format!("read {}", n));
    drop(cur);
    say(format!("closed {}", sv::registry_report().0));
    let _ = std::fs::remove_dir_all(&root);
    std::process::exit(0);
}

fn run_kvs_child(valgrind: bool) -> (String, Verdict) {
    let exe = std::env::current_exe().unwrap();
    let mut cmd = if valgrind {
        let mut c = std::process::Command::new("valgrind");
        c.args(["-q", "--error-exitcode=9"]).arg(&exe);
        c
    } else {
        std::process::Command::new(&exe)
    };
    cmd.arg("C17child").arg("kvs");
    let out = match cmd.output() {
        Ok(o) => o,
        Err(e) => return ("child-failed".into(), Verdict::Fail { class: "harness-child".into(), detail: e.to_string() }),
    };
    let text = String::from_utf8_lossy(&out.stdout).to_string();
    let lines: Vec<&str> = text.lines().collect();
    let obs = lines.join(" / ");
    let code = out.status.code();
    let d4 = lines.iter().any(|l| *l == "D4");
    let read5 = lines.iter().any(|l| *l == "read 5");
    let v = if d4 || code == Some(9) || code.is_none() {
        Verdict::Fail {
            class: "iterator-outlives-list".into(),
            detail: format!("KeyValueStore::range_scan cursor held across a memtable flush: {} (child {})", obs, match code {
                Some(c) => format!("exit={}{}", c, if c == 9 { ", valgrind: invalid read" } else { "" }),
                None => {
                    use std::os::unix::process::ExitStatusExt;
                    format!("killed by signal {:?}", out.status.signal())
                }
            }),
        }
    } else if code != Some(0) || !read5 {
        Verdict::Fail { class: "kvs-cursor".into(), detail: format!("{} exit={:?} {}", obs, code, String::from_utf8_lossy(&out.stderr)) }
    } else {
        Verdict::Ok
    };
    (obs, v)
}

struct LifeOut {
    obs: String,
    verdict: Verdict,
    valgrind: Option<i32>,
}

fn run_life(ops: &[String], valgrind: bool) -> LifeOut {
    let exe = std::env::current_exe().unwrap();
    let mut cmd = if valgrind {
        let mut c = std::process::Command::new("valgrind");
        c.args(["-q", "--error-exitcode=9"]).arg(&exe);
        c
    } else {
        std::process::Command::new(&exe)
    };
    cmd.arg("C17child").arg("life").args(ops);
    let out = match cmd.output() {
        Ok(o) => o,
        Err(e) => return LifeOut { obs: "child-failed".into(), verdict: Verdict::Fail { class: "harness-child".into(), detail: e.to_string() }, valgrind: None },
    };
    let text = String::from_utf8_lossy(&out.stdout).to_string();
    let mut toks: Vec<String> = vec![];
    let mut d4 = false;
    let mut viol = 0u64;
    for l in text.lines() {
        if let Some(v) = l.strip_prefix("viol ") {
            viol = v.trim().parse().unwrap_or(0);
        } else if let Some(x) = l.strip_suffix(" D4") {
            toks.push(x.to_string());
            d4 = true;
        } else {
            toks.push(l.trim().to_string());
        }
    }
    while toks.len() < ops.len() {
        toks.push("x".into());
    }
    let code = out.status.code();
    let trigger = life_iterator_outlives_list(ops);
    let verdict = if d4 || viol > 0 || code == Some(9) || code.is_none() {
        Verdict::Fail {
            class: if trigger { "iterator-outlives-list".into() } else { "nodes-released-while-held".into() },
            detail: format!(
                "skip life {}: nodes released while a handle is held={} deref-after-free seen by the registry={} child {}{}",
                ops.join(" "),
                d4,
                viol,
                match code {
                    Some(c) => format!("exit={}", c),
                    None => {
                        use std::os::unix::process::ExitStatusExt;
                        format!("killed by signal {:?} at the dereference through the held iterator", out.status.signal())
                    }
                },
                if code == Some(9) { " (valgrind: invalid read)" } else { "" }
            ),
        }
    } else if code != Some(0) {
        Verdict::Fail { class: "harness-child".into(), detail: format!("exit {:?}: {}", code, String::from_utf8_lossy(&out.stderr)) }
    } else {
        Verdict::Ok
    };
    LifeOut { obs: if toks.is_empty() { "-".into() } else { toks.join(" ") }, verdict, valgrind: if valgrind { code } else { None } }
}

////////////////////////////////////////////// scenarios ///////////////////////////////////////////

fn ins(keys: &[(u64, usize)]) -> Script {
    Script::Ins(keys.to_vec())
}

/// small scenarios whose interleavings are enumerated exhaustively (up to a cap)
fn exhaustive_skip() -> Vec<SkipScenario> {
    use ROp::*;
    let sc = |name: &str, h: usize, preload: &[(u64, usize)], scripts: Vec<Script>| SkipScenario { name: name.into(), h, preload: preload.to_vec(), scripts };
    vec![
        sc("race-for-head", 1, &[], vec![ins(&[(5, 1)]), ins(&[(3, 1)])]),
        sc("same-predecessor", 1, &[(4, 1)], vec![ins(&[(5, 1)]), ins(&[(6, 1)])]),
        sc("neighbours-between", 1, &[(2, 1), (8, 1)], vec![ins(&[(4, 1)]), ins(&[(6, 1)])]),
        sc("descending-same-gap", 1, &[(2, 1), (8, 1)], vec![ins(&[(6, 1)]), ins(&[(5, 1)])]),
        sc("towers", 2, &[], vec![ins(&[(5, 2)]), ins(&[(3, 2)])]),
        sc("tower-vs-flat", 2, &[(4, 2)], vec![ins(&[(5, 2)]), ins(&[(6, 1)])]),
        sc("seek-during-inserts", 1, &[(4, 1)], vec![ins(&[(5, 1)]), ins(&[(6, 1)]), Script::Read(vec![Seek(5)])]),
        sc("iterate-during-inserts", 1, &[], vec![ins(&[(2, 1)]), ins(&[(1, 1)]), Script::Read(vec![First, Next, Next])]),
        sc("reverse-during-inserts", 1, &[(5, 1)], vec![ins(&[(3, 1)]), ins(&[(4, 1)]), Script::Read(vec![Last, Prev, Prev])]),
        sc("contains-during-tower", 2, &[], vec![ins(&[(5, 2)]), Script::Read(vec![Contains(5), Seek(5), Prev])]),
        sc("ascending-3", 1, &[], vec![ins(&[(1, 1)]), ins(&[(2, 1)]), ins(&[(3, 1)])]),
        sc("descending-3", 1, &[(9, 1)], vec![ins(&[(3, 1)]), ins(&[(2, 1)]), ins(&[(1, 1)])]),
        sc("two-each-interleaved", 1, &[], vec![ins(&[(4, 1), (2, 1)]), ins(&[(3, 1), (1, 1)])]),
        sc("two-readers", 1, &[(4, 1)], vec![ins(&[(5, 1)]), ins(&[(3, 1)]), Script::Read(vec![Seek(4), Next]), Script::Read(vec![Seek(4), Prev])]),
    ]
}

fn exhaustive_list() -> Vec<ListScenario> {
    let sc = |name: &str, preload: &[u64], scripts: Vec<LScript>| ListScenario { name: name.into(), preload: preload.to_vec(), scripts };
    vec![
        sc("two-prependers", &[], vec![LScript::Prepend(vec![1]), LScript::Prepend(vec![2])]),
        sc("two-prependers-reader", &[9], vec![LScript::Prepend(vec![1]), LScript::Prepend(vec![2]), LScript::Iter(1)]),
        sc("three-prependers", &[], vec![LScript::Prepend(vec![1]), LScript::Prepend(vec![2]), LScript::Prepend(vec![3])]),
        sc("two-each-reader-twice", &[], vec![LScript::Prepend(vec![1, 2]), LScript::Prepend(vec![3, 4]), LScript::Iter(2)]),
    ]
}

/// keys that collide on neighbouring positions, dealt to the writers
fn deal_keys(rng: &mut Rng, writers: usize, per: usize, base: u64) -> (Vec<Vec<u64>>, &'static str) {
    let total = writers * per;
    let (mut keys, name): (Vec<u64>, &'static str) = match rng.below(5) {
        0 => ((0..total as u64).map(|i| base + i).collect(), "ascending"),
        1 => ((0..total as u64).rev().map(|i| base + i).collect(), "descending"),
        2 => {
            let mut k: Vec<u64> = (0..total as u64).map(|i| base + i).collect();
            rng.shuffle(&mut k);
            (k, "dense-shuffled")
        }
        3 => ((0..total as u64).map(|i| base + 2 * i).collect(), "even-ascending"),
        _ => {
            let mut s = BTreeSet::new();
            while s.len() < total {
                s.insert(rng.next() >> 2);
            }
            let mut k: Vec<u64> = s.into_iter().collect();
            rng.shuffle(&mut k);
            (k, "random62")
        }
    };
    // round-robin (neighbouring keys go to different writers) or in blocks
    let mut out = vec![vec![]; writers];
    if rng.chance(2, 3) {
        for (i, k) in keys.drain(..).enumerate() {
            out[i % writers].push(k);
        }
    } else {
        for (i, k) in keys.drain(..).enumerate() {
            out[i / per].push(k);
        }
    }
    (out, name)
}

fn gen_reader(rng: &mut Rng, lo: u64, hi: u64, len: usize, total_keys: usize) -> Vec<ROp> {
    let mut ops = vec![];
    while ops.len() < len {
        let k = if hi - lo < 1 << 40 { rng.range(lo.saturating_sub(1), hi + 1) } else { rng.next() >> 2 };
        match rng.below(10) {
            0 | 1 => ops.push(ROp::Seek(k)),
            2 | 3 => ops.push(ROp::Contains(k)),
            4 | 5 => ops.push(ROp::Next),
            6 | 7 => ops.push(ROp::Prev),
            8 => {
                // a full forward iteration
                ops.push(ROp::First);
                for _ in 0..total_keys + 1 {
                    ops.push(ROp::Next);
                }
            }
            _ => {
                ops.push(ROp::Last);
                for _ in 0..rng.range(1, 4) {
                    ops.push(ROp::Prev);
                }
            }
        }
    }
    ops
}

fn gen_skip_scenario(rng: &mut Rng, stress: bool, thorough: bool) -> SkipScenario {
    let h = if stress { *rng.pick(&[12usize, 12, 4, 2]) } else { *rng.pick(&[1usize, 2, 2, 3, 4]) };
    let writers = if stress { rng.range(2, 6) as usize } else { rng.range(2, 3) as usize };
    let per = if stress { rng.range(5, if thorough { 80 } else { 40 }) as usize } else { rng.range(1, 3) as usize };
    let readers = if stress { rng.range(1, 3) as usize } else { rng.range(0, 2) as usize };
    let base = rng.range(1, 5);
    let (dealt, kname) = deal_keys(rng, writers, per, base + 2);
    let all: Vec<u64> = dealt.iter().flatten().cloned().collect();
    let (lo, hi) = (*all.iter().min().unwrap(), *all.iter().max().unwrap());
    let mut preload = vec![];
    for k in [lo.saturating_sub(1), hi.saturating_add(1), lo.saturating_sub(2)] {
        if rng.chance(1, 2) && !all.contains(&k) && !preload.iter().any(|(x, _)| *x == k) {
            preload.push((k, height(rng, h)));
        }
    }
    let total = all.len() + preload.len();
    let mut scripts: Vec<Script> = dealt.into_iter().map(|ks| Script::Ins(ks.into_iter().map(|k| (k, height(rng, h))).collect())).collect();
    for _ in 0..readers {
        let len = if stress { rng.range(8, 40) as usize } else { rng.range(1, 5) as usize };
        scripts.push(Script::Read(gen_reader(rng, lo, hi, len, if stress { total } else { 2 })));
    }
    SkipScenario { name: format!("{}-h{}-w{}x{}-r{}", kname, h, writers, per, readers), h, preload, scripts }
}

fn gen_list_scenario(rng: &mut Rng, stress: bool, thorough: bool) -> ListScenario {
    let writers = if stress { rng.range(2, 6) as usize } else { rng.range(2, 3) as usize };
    let per = if stress { rng.range(10, if thorough { 150 } else { 60 }) as usize } else { rng.range(1, 3) as usize };
    let readers = if stress { rng.range(1, 3) as usize } else { rng.range(0, 2) as usize };
    let mut d = 1u64;
    let mut scripts = vec![];
    let preload: Vec<u64> = (0..rng.below(3)).map(|i| 1000 + i).collect();
    for _ in 0..writers {
        scripts.push(LScript::Prepend((0..per).map(|_| {
            d += 1;
            d
        }).collect()));
    }
    for _ in 0..readers {
        scripts.push(LScript::Iter(if stress { rng.range(2, 6) as usize } else { rng.range(1, 2) as usize }));
    }
    ListScenario { name: format!("w{}x{}-r{}", writers, per, readers), preload, scripts }
}

///////////////////////////////////////////////// run //////////////////////////////////////////////

fn record(rec: &mut Recorder, prefix: &str, o: RunOut, nontrivial: bool) {
    rec.count(prefix);
    rec.add(&format!("{}.atomic_accesses", prefix), o.accesses);
    rec.add(&format!("{}.cas_failed", prefix), o.cas_failed);
    rec.add(&format!("{}.readvance_loads_after_failed_cas", prefix), o.readvance_loads);
    rec.add(&format!("{}.reader_saw_insert_in_flight", prefix), o.saw_inflight);
    if o.cas_failed > 0 {
        rec.count(&format!("{}.runs_with_a_failed_cas", prefix));
    }
    if o.steps > 0 {
        rec.add(&format!("{}.scheduling_decisions", prefix), o.steps);
        rec.add(&format!("{}.thread_switches", prefix), o.switches);
    }
    if o.reordered > 0 {
        rec.count(&format!("{}.sched.log_order_was_not_the_access_order", prefix));
    }
    let nt = if nontrivial { Some(fnv(o.req.as_bytes())) } else { None };
    rec.case(&o.req, &o.obs, o.verdict, nt);
}

pub fn run(args: &Args) {
    let mut rec = Recorder::new(&args.out, args.only_case);
    let t = args.thorough;
    let n_seq = if t { 4000 } else { 500 };
    let n_lseq = if t { 300 } else { 60 };
    let n_life = if t { 200 } else { 40 };
    let n_valgrind = if t { 4 } else { 0 };
    let dfs_cap = if t { 60000 } else { 1200 };
    let n_random = if t { 12000 } else { 1500 };
    let n_lrandom = if t { 2000 } else { 300 };
    let n_stress = if t { 300 } else { 40 };
    let n_lstress = if t { 150 } else { 20 };

    // ---- stream 1: sequential differential -----------------------------------------------------
    for i in 0..n_seq {
        if !rec.wants() {
            rec.skip();
            continue;
        }
        let mut rng = Rng::for_case(args.seed, 1, i);
        let (h, ops, name) = gen_seq(&mut rng);
        let req = format!("skip seq {} {}", h, ops.iter().map(seq_tok).collect::<Vec<_>>().join(" "));
        let (obs, mut fails, dups) = seq_dispatch(h, &ops);
        // the same program on signed keys (observations mapped back must be identical)
        let (obs_signed, fails_signed, _) = seq_dispatch_signed(h, &ops);
        if fails.is_empty() && obs_signed != obs {
            fails.push("signed-key list answers differ from the unsigned one".to_string());
        }
        fails.extend(fails_signed);
        rec.count("seq.skip.signed_twin_runs");
        rec.count("seq.skip");
        rec.count(&format!("seq.skip.keys.{}", name));
        rec.count(&format!("seq.skip.max_height{}", h));
        rec.add("seq.skip.ops", ops.len() as u64);
        rec.add("seq.skip.duplicate_inserts_refused_by_assertion", dups);
        let v = if fails.is_empty() { Verdict::Ok } else { Verdict::Fail { class: "seq-differs-from-btreeset".into(), detail: fails.iter().take(3).cloned().collect::<Vec<_>>().join("; ") } };
        rec.case(&req, &format!("{} chk=1", obs.join(" ")), v, if ops.len() >= 3 { Some(fnv(req.as_bytes())) } else { None });
    }
    for i in 0..n_lseq {
        if !rec.wants() {
            rec.skip();
            continue;
        }
        let mut rng = Rng::for_case(args.seed, 2, i);
        let l: List<u64> = List::default();
        let mut want: Vec<u64> = vec![];
        let (mut toks, mut obs, mut fails) = (vec![], vec![], vec![]);
        for j in 0..rng.range(1, 30) {
            if rng.chance(2, 3) {
                let d = rng.below(50);
                toks.push(format!("p{}", d));
                let r = guarded(AssertUnwindSafe(|| l.prepend(d)));
                want.insert(0, d);
                obs.push(if r.is_ok() { "-".to_string() } else { "panic".to_string() });
            } else {
                toks.push("a".into());
                let got = guarded(AssertUnwindSafe(|| l.iter().cloned().collect::<Vec<u64>>())).unwrap_or_default();
                if got != want {
                    fails.push(format!("op {}: got {:?} want {:?}", j, got, want));
                }
                obs.push(format!("a={}", r_data(&got)));
            }
        }
        toks.push("a".into());
        let got = guarded(AssertUnwindSafe(|| l.iter().cloned().collect::<Vec<u64>>())).unwrap_or_default();
        if got != want {
            fails.push(format!("final: got {:?} want {:?}", got, want));
        }
        obs.push(format!("a={}", r_data(&got)));
        rec.count("seq.list");
        let req = format!("list seq {}", toks.join(" "));
        let v = if fails.is_empty() { Verdict::Ok } else { Verdict::Fail { class: "seq-differs-from-vec".into(), detail: fails.join("; ") } };
        rec.case(&req, &obs.join(" "), v, if toks.len() >= 3 { Some(fnv(req.as_bytes())) } else { None });
    }

    // ---- stream 2: node lifetime ---------------------------------------------------------------
    let have_valgrind = std::process::Command::new("valgrind").arg("--version").output().map(|o| o.status.success()).unwrap_or(false);
    for i in 0..n_life {
        if !rec.wants() {
            rec.skip();
            continue;
        }
        let mut rng = Rng::for_case(args.seed, 3, i);
        let ops = gen_life(&mut rng, i);
        if ops.is_empty() {
            rec.corr("skip life", "-", None);
            continue;
        }
        let vg = i < n_valgrind && have_valgrind;
        let o = run_life(&ops, vg);
        rec.count("life");
        if life_iterator_outlives_list(&ops) {
            rec.count("life.iterator_held_when_list_dropped");
        }
        if vg {
            rec.count("life.under_valgrind");
            if o.valgrind == Some(0) {
                rec.count("life.valgrind_clean");
            }
        } else if i < n_valgrind {
            rec.count("life.valgrind_unavailable");
        }
        let req = format!("skip life {}", ops.join(" "));
        rec.case(&req, &o.obs, o.verdict, if ops.len() >= 3 { Some(fnv(req.as_bytes())) } else { None });
    }

    // the same at store level: a range-scan cursor held across a memtable flush
    for vg in [false, true] {
        if !rec.wants() {
            rec.skip();
            continue;
        }
        if vg && !(t && have_valgrind) {
            rec.corr("# kvs cursor across flush under valgrind: thorough tier only", "# kvs cursor across flush under valgrind: thorough tier only", None);
            continue;
        }
        let (obs, v) = run_kvs_child(vg);
        rec.count(if vg { "life.kvs_cursor_across_flush_under_valgrind" } else { "life.kvs_cursor_across_flush" });
        let req = format!("# kvs range_scan cursor over 5 memtable keys, put, flush, read the cursor{} -> {}", if vg { " (valgrind)" } else { "" }, obs);
        rec.case(&req, &req, v, Some(fnv(req.as_bytes())));
    }

    // ---- stream 3: controlled schedules --------------------------------------------------------
    let pool = Pool::new(5);
    for sc in exhaustive_skip() {
        let mut stack: Vec<(usize, usize)> = vec![];
        let mut runs = 0;
        loop {
            let mut ch = DfsChooser { stack: &mut stack, depth: 0 };
            let o = skip_dispatch(&sc, Mode::Controlled(&pool, &mut ch));
            let depth = ch.depth;
            stack.truncate(depth);
            runs += 1;
            let nontrivial = o.switches > 0;
            if rec.wants() {
                record(&mut rec, "ctl.skip.exhaustive", o, nontrivial);
            } else {
                rec.skip();
            }
            // next schedule in depth-first order
            while let Some((c, n)) = stack.last_mut() {
                if *c + 1 < *n {
                    *c += 1;
                    break;
                }
                stack.pop();
            }
            if stack.is_empty() {
                rec.count("ctl.skip.scenarios_enumerated_completely");
                break;
            }
            if runs >= dfs_cap {
                rec.count("ctl.skip.scenarios_cut_off_at_the_cap");
                break;
            }
        }
        rec.add(&format!("ctl.skip.schedules.{}", sc.name), runs as u64);
    }
    for sc in exhaustive_list() {
        let mut stack: Vec<(usize, usize)> = vec![];
        let mut runs = 0;
        loop {
            let mut ch = DfsChooser { stack: &mut stack, depth: 0 };
            let o = list_run(&sc, Mode::Controlled(&pool, &mut ch));
            let depth = ch.depth;
            stack.truncate(depth);
            runs += 1;
            let nontrivial = o.switches > 0;
            if rec.wants() {
                record(&mut rec, "ctl.list.exhaustive", o, nontrivial);
            } else {
                rec.skip();
            }
            while let Some((c, n)) = stack.last_mut() {
                if *c + 1 < *n {
                    *c += 1;
                    break;
                }
                stack.pop();
            }
            if stack.is_empty() {
                rec.count("ctl.list.scenarios_enumerated_completely");
                break;
            }
            if runs >= dfs_cap {
                rec.count("ctl.list.scenarios_cut_off_at_the_cap");
                break;
            }
        }
        rec.add(&format!("ctl.list.schedules.{}", sc.name), runs as u64);
    }
    for i in 0..n_random + n_lrandom {
        if !rec.wants() {
            rec.skip();
            continue;
        }
        let is_list = i >= n_random;
        let mut rng = Rng::for_case(args.seed, 4, i);
        let preempt = rng.chance(1, 3);
        let mut rc = RandomChooser { rng: Rng::for_case(args.seed, 5, i), stay: rng.below(8), last: 0 };
        let mut pc = PreemptChooser { at: (0..rng.range(1, 3)).map(|_| (rng.below(40) as usize, rng.below(4))).collect(), n: 0, last: 0 };
        let ch: &mut dyn Chooser = if preempt { &mut pc } else { &mut rc };
        if is_list {
            let sc = gen_list_scenario(&mut rng, false, t);
            let o = list_run(&sc, Mode::Controlled(&pool, ch));
            let nt = o.switches > 0;
            record(&mut rec, if preempt { "ctl.list.preemption_bounded" } else { "ctl.list.random" }, o, nt);
        } else {
            let sc = gen_skip_scenario(&mut rng, false, t);
            rec.count(&format!("ctl.skip.max_height{}", sc.h));
            let o = skip_dispatch(&sc, Mode::Controlled(&pool, ch));
            let nt = o.switches > 0;
            record(&mut rec, if preempt { "ctl.skip.preemption_bounded" } else { "ctl.skip.random" }, o, nt);
        }
    }

    // ---- stream 4: free-running threads ----------------------------------------------------------
    for i in 0..n_stress + n_lstress {
        if !rec.wants() {
            rec.skip();
            continue;
        }
        let mut rng = Rng::for_case(args.seed, 6, i);
        if i < n_stress {
            let sc = gen_skip_scenario(&mut rng, true, t);
            rec.count(&format!("free.skip.max_height{}", sc.h));
            rec.count(&format!("free.skip.keys.{}", sc.name.split("-h").next().unwrap_or("?")));
            rec.add("free.skip.threads", sc.scripts.len() as u64);
            let o = skip_dispatch(&sc, Mode::Free);
            record(&mut rec, "free.skip", o, true);
        } else {
            let sc = gen_list_scenario(&mut rng, true, t);
            rec.add("free.list.threads", sc.scripts.len() as u64);
            let o = list_run(&sc, Mode::Free);
            record(&mut rec, "free.list", o, true);
        }
    }

    rec.finish(
        "four streams. seq: random op sequences (insert with a given tower height, contains, seek, next, prev, seek_to_first/last, dump of all levels) on one list + one iterator, MAX_HEIGHT in {1,2,3,4,12}, keys dense / with gaps / at the u64 boundaries / random, vs a BTreeSet and vs the Lean model; non-trivial = at least 3 ops. life: list handle + iterators made, cloned, dropped and used in a child process with the allocation registry on (thorough: the first under valgrind). ctl: worker threads park before every atomic access and are released one at a time; the small scenarios (2-3 inserters, 0-2 readers, neighbouring/ascending/descending keys, MAX_HEIGHT 1-2; 2-3 prependers, 0-1 reader) are enumerated depth-first over all schedules up to a cap, the larger ones (MAX_HEIGHT up to 4, up to 3 keys per inserter, readers with up to 5 ops) get seeded random and preemption-bounded schedules; non-trivial = the running thread changed at least once; distinct by trace. free: 2-6 writers and 1-3 readers as real threads, MAX_HEIGHT 12/4/2, dense ascending/descending/shuffled and random keys dealt round-robin or in blocks; the logged accesses are ordered into a sequentially consistent history by the harness and validated step by step by the model driver (traces vary with the schedule, verdicts do not)",
        &[],
    );
}
