//! C03 — range scans return exactly the live keys in range, in order, matching reads.
//!
//! Same single-stepped store histories as C01.  After every operation several (bounds, cursor
//! program) pairs are run on `KeyValueStore::range_scan`; the entry shown after each call is
//!  * compared with the Lean model: a reference cursor over
//!    `[e in all versions of the dumped state | newest version <= ts of its key, not a tombstone, key in range]`
//!    (the right-hand side of theorem `scan_spec`), and
//!  * judged by the oracle: a reference cursor over the sequential map restricted to the bounds,
//!    and agreement of the scan with a point read of every key.
use crate::c01::state_with_ids;
use crate::common::*;

fn tainted(v: Verdict, taint: &Option<String>) -> Verdict {
    match (v, taint) {
        (Verdict::Ok, Some(c)) => Verdict::Taint { class: c.clone() },
        (v, _) => v,
    }
}

use crate::store::*;
use sst::Cursor;
use std::ops::Bound;

#[derive(Clone, Debug)]
enum COp {
    First,
    Last,
    Next,
    Prev,
    Seek(Vec<u8>),
}

fn gen_bound(rng: &mut Rng, nkeys: usize) -> Bound<Vec<u8>> {
    match rng.below(5) {
        0 | 1 => Bound::Unbounded,
        2 | 3 => Bound::Included(gen_key(rng, nkeys)),
        _ => Bound::Excluded(gen_key(rng, nkeys)),
    }
}

fn render_bound(b: &Bound<Vec<u8>>) -> String {
    match b {
        Bound::Unbounded => "u".into(),
        Bound::Included(k) => format!("i{}", hex(k)),
        Bound::Excluded(k) => format!("e{}", hex(k)),
    }
}

fn gen_program(rng: &mut Rng, nkeys: usize) -> Vec<COp> {
    let n = rng.range(2, 12) as usize;
    let mut ops = vec![match rng.below(4) {
        0 => COp::Last,
        1 => COp::Seek(gen_key(rng, nkeys)),
        _ => COp::First,
    }];
    for _ in 1..n {
        ops.push(match rng.below(12) {
            0 => COp::First,
            1 => COp::Last,
            2 | 3 => COp::Seek(if rng.chance(1, 5) { let mut k = gen_key(rng, nkeys); k.push(0); k } else { gen_key(rng, nkeys) }),
            4..=7 => COp::Next,
            _ => COp::Prev,
        });
    }
    ops
}

fn render_ops(ops: &[COp]) -> String {
    ops.iter()
        .map(|o| match o {
            COp::First => "F".to_string(),
            COp::Last => "L".to_string(),
            COp::Next => "N".to_string(),
            COp::Prev => "P".to_string(),
            COp::Seek(k) => format!("S{}", hex(k)),
        })
        .collect::<Vec<_>>()
        .join(" ")
}

fn in_range(k: &[u8], lo: &Bound<Vec<u8>>, hi: &Bound<Vec<u8>>) -> bool {
    let a = match lo {
        Bound::Unbounded => true,
        Bound::Included(b) => k >= b.as_slice(),
        Bound::Excluded(b) => k > b.as_slice(),
    };
    let b = match hi {
        Bound::Unbounded => true,
        Bound::Included(b) => k <= b.as_slice(),
        Bound::Excluded(b) => k < b.as_slice(),
    };
    a && b
}

/// reference cursor from the specification: position 0 = before first, n+1 = after last
fn ref_run(list: &[(Vec<u8>, Vec<u8>)], ops: &[COp]) -> Vec<Option<(Vec<u8>, Vec<u8>)>> {
    let n = list.len();
    let mut pos = 0usize;
    let mut out = vec![];
    for op in ops {
        match op {
            COp::First => pos = 0,
            COp::Last => pos = n + 1,
            COp::Next => {
                if pos <= n {
                    pos += 1
                }
            }
            COp::Prev => {
                if pos > 0 {
                    pos -= 1
                }
            }
            COp::Seek(k) => pos = list.iter().position(|e| e.0.as_slice() >= k.as_slice()).unwrap_or(n) + 1,
        }
        out.push(if pos >= 1 && pos <= n { Some(list[pos - 1].clone()) } else { None });
    }
    out
}

pub fn run_history(rec: &mut Recorder, seed: u64, hidx: u64, len: usize, nkeys: usize, scans_per_step: usize) {
    run_history_with(rec, seed, hidx, len, nkeys, scans_per_step, None)
}

/// One key written many times with long values under a small target file size, flushed and
/// compacted round after round with all versions retained: compactions cut that key's versions
/// across ADJACENT FILES OF ONE LEVEL (`[..k] [k..k] [k..]`), the layout in which a bound or a seek
/// that is exactly `k` must still find the newest version in the earlier file.  Random short
/// histories do not produce it.
fn spanning_history(rng: &mut Rng, variant: u64) -> (Cfg, Vec<Op>, Vec<u8>) {
    let mut cfg = Cfg::gen(rng);
    cfg.memtable_bytes = 1 << 20;
    cfg.target_file = [128, 256, 512, 256][(variant % 4) as usize];
    cfg.min_file = 64;
    cfg.target_block = *rng.pick(&[64, 256]);
    cfg.gc_versions = 40;
    cfg.max_compaction_files = 64;
    let hot = ALPHABET[9].to_vec(); // "m"
    let others: Vec<Vec<u8>> = [1usize, 5, 10, 11].iter().map(|i| ALPHABET[*i].to_vec()).collect();
    let mut ops = vec![];
    let mut counter = 0u64;
    let long = |counter: &mut u64| -> Vec<u8> {
        *counter += 1;
        let mut v = format!("v{}", counter).into_bytes();
        v.extend(std::iter::repeat(b'.').take(70));
        v
    };
    for round in 0..5 {
        let writes = 5 + (variant as usize + round) % 4;
        for w in 0..writes {
            ops.push(Op::Put(hot.clone(), long(&mut counter)));
            if w % 3 == 1 {
                let k = rng.pick(&others).clone();
                ops.push(Op::Put(k, long(&mut counter)));
            }
        }
        if round == 3 {
            ops.push(Op::Del(hot.clone()));
            ops.push(Op::Put(hot.clone(), long(&mut counter)));
        }
        ops.push(Op::Flush);
        for _ in 0..(16 + round * 2) {
            ops.push(Op::Compact(1));
        }
    }
    (cfg, ops, hot)
}

fn has_key_spanning_files(d: &crate::store::StateDump) -> bool {
    d.levels.iter().skip(1).any(|l| l.windows(2).any(|w| w[0].last_key == w[1].first_key))
}

pub fn run_history_with(rec: &mut Recorder, seed: u64, hidx: u64, len: usize, nkeys: usize, scans_per_step: usize, directed: Option<u64>) {
    let mut rng = Rng::for_case(seed, 103, hidx);
    let mut cfg = Cfg::gen(&mut rng);
    let mode = hidx % 4 % 3;
    let mut ops = gen_history(&mut rng, if mode == 1 { len * 2 } else { len }, nkeys, mode);
    let mut focus: Option<Vec<u8>> = None;
    if let Some(variant) = directed {
        let (c, o, hot) = spanning_history(&mut rng, variant);
        cfg = c;
        ops = o;
        focus = Some(hot);
    }
    let root = scratch_dir(&format!("c03.{}", hidx));
    rec.aux(&format!("history {} cfg {} ops {}", hidx, cfg.render(), ops.iter().map(|o| o.render()).collect::<Vec<_>>().join(" ")));
    let mut sim = match Sim::open(&root, &cfg) {
        Ok(s) => s,
        Err(e) => {
            rec.case(&format!("# history {} open", hidx), "#", Verdict::Fail { class: "open-error".into(), detail: e }, None);
            return;
        }
    };
    let mut taint: Option<String> = None;
    for (step, op) in ops.iter().enumerate() {
        let tag = format!("h{}s{}:{}", hidx, step, op.render());
        if let Op::Reopen = op {
            if taint.is_none() {
                if let Ok(d) = sim.dump() {
                    if crate::c01::d9_trigger(&d) {
                        taint = Some("reopen-with-key-and-timestamp-overlapping-files".to_string());
                        rec.count("histories_tainted_by_D9_trigger");
                    }
                }
            }
        }
        let res = match guarded(std::panic::AssertUnwindSafe(|| sim.apply(op))) {
            Ok(r) => r,
            Err(p) => Err(format!("panic:{}", p)),
        };
        if let Err(e) = res {
            rec.case(&format!("# {}", tag), "#", Verdict::Fail { class: taint.clone().unwrap_or_else(|| "fault-free-op-error".to_string()), detail: format!("{} -> {}", tag, e) }, None);
            break;
        }
        let pf = std::mem::take(&mut sim.probe_failures);
        if !pf.is_empty() {
            rec.case(&format!("# {} inside", tag), "#", Verdict::Fail { class: taint.clone().unwrap_or_else(|| "scan-differs-from-live-keys-in-range".to_string()), detail: format!("{} {}", tag, pf.iter().take(3).cloned().collect::<Vec<_>>().join("; ")) }, None);
        }
        sim.chosen.clear();
        let d = match sim.dump() {
            Ok(d) => d,
            Err(e) => {
                rec.case(&format!("# {}", tag), "#", Verdict::Fail { class: "dump-error".into(), detail: e }, None);
                break;
            }
        };
        let st = state_with_ids(&d);
        let comps_with_tomb = d.all_entries().iter().filter(|e| e.2.is_none()).count();
        let spanning = has_key_spanning_files(&d);
        if spanning {
            rec.count("states_with_one_key_spanning_adjacent_files_of_a_level");
        }
        // directed histories: scans only once the tree has files, more of them where a key spans files
        let nscans = match (&focus, spanning) {
            (Some(_), true) => scans_per_step + 3,
            (Some(_), false) => if matches!(op, Op::Compact(_)) { 0 } else { 1 },
            (None, _) => scans_per_step,
        };
        for _ in 0..nscans {
            let mut lo = gen_bound(&mut rng, nkeys);
            let mut hi = gen_bound(&mut rng, nkeys);
            let mut prog = gen_program(&mut rng, nkeys);
            if let Some(hot) = &focus {
                // bounds and seeks exactly at the hot key, half of the time
                match rng.below(6) {
                    0 => lo = Bound::Included(hot.clone()),
                    1 => lo = Bound::Excluded(hot.clone()),
                    2 => hi = Bound::Included(hot.clone()),
                    3 => hi = Bound::Excluded(hot.clone()),
                    _ => {}
                }
                if rng.chance(1, 2) {
                    let at = rng.below(prog.len() as u64 + 1) as usize;
                    prog.insert(at, COp::Seek(hot.clone()));
                }
            }
            let req = format!("kvs scan {} :: {} {} :: {}", st, render_bound(&lo), render_bound(&hi), render_ops(&prog));
            // implementation
            let obs: Result<Vec<Option<(Vec<u8>, u64, Option<Vec<u8>>)>>, String> = match guarded(std::panic::AssertUnwindSafe(|| -> Result<Vec<Option<(Vec<u8>, u64, Option<Vec<u8>>)>>, String> {
                let e = |e: lsmtk::SError| format!("{:?}", e).replace(' ', "_").chars().take(120).collect::<String>();
                let mut c = sim.kvs().range_scan(&lo, &hi).map_err(e)?;
                let mut out = vec![];
                for op in &prog {
                    match op {
                        COp::First => c.seek_to_first().map_err(e)?,
                        COp::Last => c.seek_to_last().map_err(e)?,
                        COp::Next => c.next().map_err(e)?,
                        COp::Prev => c.prev().map_err(e)?,
                        COp::Seek(k) => c.seek(k).map_err(e)?,
                    }
                    out.push(c.key_value().map(|kv| (kv.key.to_vec(), kv.timestamp, kv.value.map(|v| v.to_vec()))));
                }
                Ok(out)
            })) {
                Ok(r) => r,
                Err(p) => Err(format!("panic:{}", p)),
            };
            // oracle: sequential map restricted to the bounds
            let live: Vec<(Vec<u8>, Vec<u8>)> = sim.oracle.iter().filter_map(|(k, v)| v.as_ref().map(|v| (k.clone(), v.clone()))).filter(|(k, _)| in_range(k, &lo, &hi)).collect();
            let want = ref_run(&live, &prog);
            let (rendered, verdict) = match &obs {
                Ok(o) => {
                    let r = o
                        .iter()
                        .map(|x| match x {
                            None => "none".to_string(),
                            Some((k, t, Some(v))) => format!("{}@{}={}", hex(k), t, hex(v)),
                            Some((k, t, None)) => format!("{}@{}!", hex(k), t),
                        })
                        .collect::<Vec<_>>()
                        .join(" ");
                    let got: Vec<Option<(Vec<u8>, Vec<u8>)>> = o.iter().map(|x| x.as_ref().map(|(k, _, v)| (k.clone(), v.clone().unwrap_or_else(|| b"<tombstone>".to_vec())))).collect();
                    let mut bad = vec![];
                    if got != want {
                        let i = (0..got.len()).find(|&i| got[i] != want[i]).unwrap();
                        bad.push(format!("call {} of [{}] bounds {} {} shows {:?} want {:?}", i, render_ops(&prog), render_bound(&lo), render_bound(&hi), got[i].as_ref().map(|(k, v)| format!("{}={}", hex(k), hex(v))), want[i].as_ref().map(|(k, v)| format!("{}={}", hex(k), hex(v)))));
                    }
                    // scan and point read agree
                    for x in o.iter().flatten() {
                        let mut tomb = false;
                        if let Ok(r) = sim.kvs().load(&x.0, &mut tomb) {
                            if r != x.2 {
                                bad.push(format!("scan shows {}={:?} but load returns {:?}", hex(&x.0), x.2.as_ref().map(|v| hex(v)), r.as_ref().map(|v| hex(v))));
                            }
                        }
                    }
                    (r, if bad.is_empty() { Verdict::Ok } else { Verdict::Fail { class: taint.clone().unwrap_or_else(|| "scan-differs-from-live-keys-in-range".to_string()), detail: format!("{} {}", tag, bad.join("; ")) } })
                }
                Err(e) => (format!("err:{}", e), Verdict::Fail { class: taint.clone().unwrap_or_else(|| "scan-error".to_string()), detail: format!("{} {}", tag, e) }),
            };
            rec.count("scans");
            match (&lo, &hi) {
                (Bound::Unbounded, Bound::Unbounded) => rec.count("bounds.unbounded_both"),
                (Bound::Unbounded, _) | (_, Bound::Unbounded) => rec.count("bounds.half_open"),
                _ => rec.count("bounds.both_bounded"),
            }
            if live.is_empty() {
                rec.count("scans.empty_result_set");
            }
            let nontrivial = live.len() >= 2 && comps_with_tomb > 0 && d.nfiles() >= 1;
            rec.case(&req, &rendered, tainted(verdict, &taint), if nontrivial { Some(fnv(req.as_bytes())) } else { None });
        }
    }
    rec.add("flushes", sim.flushes);
    rec.add("compactions", sim.compactions);
    rec.add("reopens", sim.reopens);
    rec.add("observations_inside_flush_or_compaction", sim.probes_run);
    sim.close();
}

pub fn run(args: &Args) {
    let mut rec = Recorder::new(&args.out, args.only_case);
    let (nh, len, sps) = if args.thorough { (400, 100, 4) } else { (80, 50, 3) };
    for h in 0..nh {
        let nkeys = if h % 3 == 0 { 4 } else if h % 3 == 1 { 7 } else { 12 };
        run_history(&mut rec, args.seed, h, len, nkeys, sps);
    }
    // directed: one key's versions across adjacent files of a level (after the seeded histories, so
    // their case numbers do not move)
    let nd = if args.thorough { 12 } else { 4 };
    for v in 0..nd {
        run_history_with(&mut rec, args.seed, nh + v, len, 12, sps, Some(v));
    }
    rec.finish(
        "store histories as in C01; after every op several (start bound, end bound, cursor program) triples are run on KeyValueStore::range_scan: bounds unbounded/included/excluded on both ends over the key alphabet (so empty and inverted ranges occur), programs of 2-12 calls of seek_to_first/seek_to_last/seek/next/prev with reversals; non-trivial = at least two live keys in range while the store holds a tombstone and at least one SST; distinct by (state, bounds, program)",
        &[],
    );
}
