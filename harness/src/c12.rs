//! C12 — the log returns each batch once, in order; a torn tail loses only the tail; concurrent
//! appends are durable before return and appear exactly once, whole.
//!
//! Streams (all seeded, every case regenerates alone):
//!   1 small    sequences of small batches -> real `LogBuilder<&mut Vec<u8>>` bytes + `LogIterator`
//!              drain vs the model's `writeAll` / reader (whole file in hex)
//!   2 boundary >= 1 MiB files whose frames end 0..21 bytes before a block boundary, exactly on it,
//!              1..24 bytes past it, plus tiny and maximal batches (hash + windows round the boundary)
//!   3 tsmall   small files, every truncation length
//!   4 tbig     >= 1 MiB files, every cut within +-W bytes of every frame/header/block boundary
//!              near the block boundary (reader started at a frame shortly before it)
//!   5 mutate   small files with header/length/padding bytes overwritten (correspondence of the
//!              reader on malformed input; outside the property, so no prefix oracle)
//!   6 conc     N threads through `ConcurrentLogBuilder<File>`; the observed grouping of batches
//!              into frames is sent to the model; optionally traced with strace
use crate::common::*;
use arrrg::CommandLine;
use sst::log::{ConcurrentLogBuilder, LogBuilder, LogIterator, LogOptions, WriteBatch};
use sst::{Builder, Setsum};
use std::io::{Cursor, Read, Seek};

const BLOCK: usize = 1 << 20;
const HMAX: usize = sst::log::HEADER_MAX_SIZE as usize;
const MAX_BATCH: usize = sst::log::MAX_BATCH_SIZE as usize;
const MAX_KEY: usize = 1 << 14;
const MAX_VAL: usize = 1 << 15;

// ---------------------------------------------------------------------------------------------
// payload descriptions

fn gen_bytes(seed: u64, len: usize) -> Vec<u8> {
    if seed == 0 {
        return vec![0u8; len];
    }
    let mut s = seed;
    (0..len)
        .map(|_| {
            s = s.wrapping_mul(6364136223846793005).wrapping_add(1442695040888963407);
            (s >> 56) as u8
        })
        .collect()
}

#[derive(Clone, Debug)]
enum Bs {
    Gen(u64, usize),
    Lit(Vec<u8>),
}

impl Bs {
    fn len(&self) -> usize {
        match self {
            Bs::Gen(_, n) => *n,
            Bs::Lit(v) => v.len(),
        }
    }
    fn bytes(&self) -> Vec<u8> {
        match self {
            Bs::Gen(s, n) => gen_bytes(*s, *n),
            Bs::Lit(v) => v.clone(),
        }
    }
    fn tok(&self) -> String {
        match self {
            Bs::Gen(s, n) => format!("{}.{}", s, n),
            Bs::Lit(v) => format!("x{}", hex(v)),
        }
    }
}

#[derive(Clone, Debug)]
struct Ent {
    put: bool,
    key: Bs,
    ts: u64,
    val: Bs,
}

fn vl(x: u64) -> usize {
    let mut n = 1;
    let mut x = x >> 7;
    while x > 0 {
        n += 1;
        x >>= 7;
    }
    n
}

/// size of the packed `KeyValueEntry` (checked against `WriteBatch::approximate_size` at run time)
fn entry_size(put: bool, klen: usize, ts: u64, vlen: usize) -> usize {
    let mut body = 2 + 1 + vl(klen as u64) + klen + 1 + vl(ts);
    if put {
        body += 1 + vl(vlen as u64) + vlen;
    }
    1 + vl(body as u64) + body
}

impl Ent {
    fn size(&self) -> usize {
        entry_size(self.put, self.key.len(), self.ts, self.val.len())
    }
    fn tok(&self) -> String {
        if self.put {
            format!("p{},{},{}", self.key.tok(), self.ts, self.val.tok())
        } else {
            format!("d{},{}", self.key.tok(), self.ts)
        }
    }
    fn kv(&self) -> Kv {
        Kv { key: self.key.bytes(), ts: self.ts, val: if self.put { Some(self.val.bytes()) } else { None } }
    }
}

type Batch = Vec<Ent>;
/// one append: the batches merged into it (sequential streams: usually one)
type Group = Vec<Batch>;

fn batch_size(b: &Batch) -> usize {
    b.iter().map(|e| e.size()).sum()
}
fn group_size(g: &Group) -> usize {
    g.iter().map(batch_size).sum()
}
fn group_entries(g: &Group) -> usize {
    g.iter().map(|b| b.len()).sum()
}
fn group_tok(g: &Group) -> String {
    g.iter().map(|b| b.iter().map(|e| e.tok()).collect::<Vec<_>>().join("+")).collect::<Vec<_>>().join("|")
}
fn groups_tok(gs: &[Group]) -> String {
    gs.iter().map(group_tok).collect::<Vec<_>>().join(" ")
}

#[derive(Clone, PartialEq, Debug)]
struct Kv {
    key: Vec<u8>,
    ts: u64,
    val: Option<Vec<u8>>,
}

fn groups_kvs(gs: &[Group]) -> Vec<Kv> {
    gs.iter().flat_map(|g| g.iter().flat_map(|b| b.iter().map(|e| e.kv()))).collect()
}

fn code(e: &sst::SError) -> String {
    sst::error_code(e).unwrap_or("unknown").to_string()
}

fn build_batch(b: &Batch) -> Result<WriteBatch, String> {
    let mut wb = WriteBatch::default();
    for e in b {
        let k = e.key.bytes();
        let r = if e.put { wb.put(&k, e.ts, &e.val.bytes()) } else { wb.del(&k, e.ts) };
        r.map_err(|x| code(&x))?;
    }
    if wb.approximate_size() != batch_size(b) {
        return Err(format!("harness-size-formula {} {}", wb.approximate_size(), batch_size(b)));
    }
    Ok(wb)
}

fn build_group(g: &Group) -> Result<WriteBatch, String> {
    let mut wb = build_batch(&g[0])?;
    for b in &g[1..] {
        wb.merge(&build_batch(b)?).map_err(|x| code(&x))?;
    }
    Ok(wb)
}

fn mk_opts(rb: Option<usize>, wb: Option<usize>) -> LogOptions {
    let mut a: Vec<String> = vec![];
    if let Some(r) = rb {
        a.push("--read-buffer".into());
        a.push(r.to_string());
    }
    if let Some(w) = wb {
        a.push("--write-buffer".into());
        a.push(w.to_string());
    }
    if a.is_empty() {
        LogOptions::default()
    } else {
        let refs: Vec<&str> = a.iter().map(|s| s.as_str()).collect();
        LogOptions::from_arguments_relaxed("c12", &refs).0
    }
}

fn knobs_tok(rb: Option<usize>, wb: Option<usize>) -> String {
    let mut s = String::new();
    if let Some(r) = rb {
        s.push_str(&format!("rb={} ", r));
    }
    if let Some(w) = wb {
        s.push_str(&format!("wb={} ", w));
    }
    s
}

fn gen_knob(rng: &mut Rng) -> Option<usize> {
    if rng.chance(1, 2) {
        None
    } else {
        Some(*rng.pick(&[1usize, 2, 7, 19, 20, 64, 4096, 1 << 20]))
    }
}

// ---------------------------------------------------------------------------------------------
// rendering (must match Blue.Driver.C12)

fn fnv_step(h: u64, b: u8) -> u64 {
    (h ^ b as u64).wrapping_mul(0x100000001b3)
}
const FNV_INIT: u64 = 0xcbf29ce484222325;

fn summary(file: &[u8]) -> String {
    let chunks: Vec<String> = file.chunks(65536).map(|c| format!("{:016x}", fnv(c))).collect();
    let nb = file.len() / BLOCK;
    let win = if nb == 0 {
        "-".to_string()
    } else {
        (1..=nb)
            .map(|k| {
                let b = k * BLOCK;
                format!("{}:{}", b, hex(&file[b - 48..(b + 48).min(file.len())]))
            })
            .collect::<Vec<_>>()
            .join(",")
    };
    format!(
        "len={} fnv={:016x} chunks={} win={} hex={}",
        file.len(),
        fnv(file),
        chunks.join(","),
        win,
        if file.len() <= 600 { hex(file) } else { "~".to_string() }
    )
}

fn hash_nat8(mut h: u64, x: u64) -> u64 {
    for b in x.to_le_bytes() {
        h = fnv_step(h, b);
    }
    h
}

fn hash_kv(mut h: u64, key: &[u8], ts: u64, val: Option<&[u8]>) -> u64 {
    h = fnv_step(h, if val.is_some() { 1 } else { 2 });
    h = hash_nat8(h, key.len() as u64);
    for b in key {
        h = fnv_step(h, *b);
    }
    h = hash_nat8(h, ts);
    if let Some(v) = val {
        h = hash_nat8(h, v.len() as u64);
        for b in v {
            h = fnv_step(h, *b);
        }
    }
    h
}

/// what draining the real reader showed
struct Drained {
    n: usize,
    hash: u64,
    /// `None` = ended; `Some(code)` = reported an error
    err: Option<String>,
    /// entries delivered equal `expected[..n]`
    prefix_ok: bool,
    /// observation only: one more `next()` after an error hands out an entry (of the partially
    /// assembled buffer); every caller in the repository stops at the first error
    after_err_delivers: bool,
}

impl Drained {
    fn render(&self) -> String {
        format!("read={}:{:016x}:{}", self.n, self.hash, if self.err.is_some() { "err" } else { "end" })
    }
}

/// drain the REAL `LogIterator` over `reader` (positioned where reading starts)
fn drain<R: Read + Seek>(o: &LogOptions, reader: R, expected: &[Kv]) -> Result<Drained, String> {
    let o = o.clone();
    guarded(std::panic::AssertUnwindSafe(move || {
        let mut d = Drained { n: 0, hash: FNV_INIT, err: None, prefix_ok: true, after_err_delivers: false };
        let mut it = match LogIterator::from_reader(o, reader) {
            Ok(it) => it,
            Err(e) => {
                d.err = Some(code(&e));
                return d;
            }
        };
        loop {
            match it.next() {
                Ok(Some(kvr)) => {
                    d.hash = hash_kv(d.hash, kvr.key, kvr.timestamp, kvr.value);
                    match expected.get(d.n) {
                        Some(x) if x.key == kvr.key && x.ts == kvr.timestamp && x.val.as_deref() == kvr.value => {}
                        _ => d.prefix_ok = false,
                    }
                    d.n += 1;
                }
                Ok(None) => break,
                Err(e) => {
                    d.err = Some(code(&e));
                    if let Ok(Some(_)) = it.next() {
                        d.after_err_delivers = true;
                    }
                    break;
                }
            }
        }
        d
    }))
}

// ---------------------------------------------------------------------------------------------
// writing with the REAL LogBuilder into memory

struct Written {
    bytes: Vec<u8>,
    /// `bytes_written` after each append
    ends: Vec<usize>,
    errs: Vec<String>,
    setsum: Option<String>,
}

fn write_seq(gs: &[Group], o: &LogOptions) -> Result<Written, String> {
    let o = o.clone();
    guarded(std::panic::AssertUnwindSafe(move || {
        let mut out: Vec<u8> = Vec::new();
        let mut w = Written { bytes: vec![], ends: vec![], errs: vec![], setsum: None };
        {
            let mut lb = match LogBuilder::from_write(o, &mut out) {
                Ok(lb) => lb,
                Err(e) => {
                    w.errs.push(code(&e));
                    return w;
                }
            };
            for g in gs {
                match build_group(g) {
                    Ok(wb) => {
                        if let Err(e) = lb.append(&wb) {
                            w.errs.push(format!("append:{}", code(&e)));
                        }
                    }
                    Err(m) => w.errs.push(format!("batch:{}", m)),
                }
                w.ends.push(lb.approximate_size());
            }
            match lb.seal() {
                Ok((s, _)) => w.setsum = Some(s.hexdigest()),
                Err(e) => w.errs.push(format!("seal:{}", code(&e))),
            }
        }
        w.bytes = out;
        w
    }))
}

fn expected_setsum(kvs: &[Kv]) -> String {
    let mut s = Setsum::default();
    for k in kvs {
        match &k.val {
            Some(v) => s.put(&k.key, k.ts, v),
            None => s.del(&k.key, k.ts),
        }
    }
    s.hexdigest()
}

// ---------------------------------------------------------------------------------------------
// an independent walker over frames (harness-side; used for cut points, grouping, statistics)

#[derive(Clone, Debug)]
struct Phys {
    start: usize,
    hdr_end: usize,
    end: usize,
    disc: u64,
    size: usize,
}

fn rd_varint(b: &[u8], i: &mut usize) -> Option<u64> {
    let mut x: u64 = 0;
    let mut sh = 0;
    loop {
        let c = *b.get(*i)?;
        *i += 1;
        if sh < 64 {
            x |= ((c & 0x7f) as u64) << sh;
        }
        sh += 7;
        if c < 128 {
            return Some(x);
        }
        if sh > 70 {
            return None;
        }
    }
}

fn parse_hdr(h: &[u8]) -> Option<(u64, u64)> {
    let (mut size, mut disc) = (0, 0);
    let mut i = 0;
    while i < h.len() {
        match rd_varint(h, &mut i)? {
            80 => size = rd_varint(h, &mut i)?,
            88 => disc = rd_varint(h, &mut i)?,
            101 => i += 4,
            _ => return None,
        }
    }
    if i != h.len() {
        return None;
    }
    Some((size, disc))
}

/// frames and padding runs of a well-formed log; `Err` where the walker cannot continue
fn walk(b: &[u8]) -> Result<(Vec<Phys>, Vec<(usize, usize)>), String> {
    let mut fr = vec![];
    let mut pads = vec![];
    let mut o = 0;
    while o < b.len() {
        let hs = b[o] as usize;
        if hs == 0 {
            let t = if (o + 1) % BLOCK == 0 { o + 1 } else { ((o + 1) / BLOCK + 1) * BLOCK };
            pads.push((o, t.min(b.len())));
            o = t;
            continue;
        }
        if hs > HMAX || o + 1 + hs > b.len() {
            return Err(format!("bad-header-at-{}", o));
        }
        let (size, disc) = parse_hdr(&b[o + 1..o + 1 + hs]).ok_or(format!("unparsable-header-at-{}", o))?;
        let end = o + 1 + hs + size as usize;
        if end > b.len() {
            return Err(format!("short-payload-at-{}", o));
        }
        fr.push(Phys { start: o, hdr_end: o + 1 + hs, end, disc, size: size as usize });
        o = end;
    }
    Ok((fr, pads))
}

/// logical frames (one per append): payload size and end offset
fn logical(fr: &[Phys]) -> Result<Vec<(usize, usize)>, String> {
    let mut out = vec![];
    let mut i = 0;
    while i < fr.len() {
        match fr[i].disc {
            1 => {
                out.push((fr[i].size, fr[i].end));
                i += 1;
            }
            2 => {
                if i + 1 >= fr.len() || fr[i + 1].disc != 3 {
                    return Err(format!("first-without-second-at-{}", fr[i].start));
                }
                out.push((fr[i].size + fr[i + 1].size, fr[i + 1].end));
                i += 2;
            }
            d => return Err(format!("discriminant-{}-at-{}", d, fr[i].start)),
        }
    }
    Ok(out)
}

// ---------------------------------------------------------------------------------------------
// generators

fn ts_with_len(l: usize, rng: &mut Rng) -> u64 {
    match l {
        1 => rng.below(128),
        10 => (1u64 << 63) | (rng.next() >> 1),
        _ => {
            let lo = 1u64 << (7 * (l - 1));
            let hi = (1u64 << (7 * l)) - 1;
            rng.range(lo, hi)
        }
    }
}

fn gen_seed(rng: &mut Rng) -> u64 {
    if rng.chance(1, 8) {
        0
    } else {
        1 + rng.below(1 << 40)
    }
}

/// one entry whose packed size is exactly `s`
fn solve_entry(s: usize, rng: &mut Rng) -> Option<Ent> {
    if s < 8 {
        return None;
    }
    for _ in 0..300 {
        let put = s >= 10 && (s > MAX_KEY || rng.chance(3, 4));
        let tslen = *rng.pick(&[1usize, 1, 1, 2, 3, 5, 9, 10]);
        let ts = ts_with_len(tslen, rng);
        if !put {
            for k in s.saturating_sub(24)..=s {
                if k <= MAX_KEY && entry_size(false, k, ts, 0) == s {
                    return Some(Ent { put: false, key: Bs::Gen(gen_seed(rng), k), ts, val: Bs::Gen(0, 0) });
                }
            }
        } else {
            let kmin = s.saturating_sub(MAX_VAL + 8);
            let klen = if kmin > 0 {
                rng.range(kmin as u64 + 16, (kmin as u64 + 4000).min(MAX_KEY as u64)) as usize
            } else {
                let c = *rng.pick(&[0usize, 1, 2, 3, 8, 16, 127, 128, 200, MAX_KEY]);
                if c + 12 <= s { c } else { 0 }
            };
            for v in s.saturating_sub(klen + 40)..=s {
                if v <= MAX_VAL && entry_size(true, klen, ts, v) == s {
                    return Some(Ent { put: true, key: Bs::Gen(gen_seed(rng), klen), ts, val: Bs::Gen(gen_seed(rng), v) });
                }
            }
        }
    }
    None
}

/// a batch whose buffer is exactly `t` bytes (few, large entries for large `t`)
fn make_batch(t: usize, rng: &mut Rng) -> Option<Batch> {
    let mut out = vec![];
    let mut rem = t;
    let mut tries = 0;
    while rem > 0 {
        tries += 1;
        if tries > 2000 {
            return None;
        }
        if rem <= 49000 && (rem < 64 || rng.chance(1, 2)) {
            if let Some(e) = solve_entry(rem, rng) {
                out.push(e);
                return Some(out);
            }
        }
        if rem < 16 {
            return None;
        }
        let chunk = if rem > 100000 { rng.range(30000, 49000) as usize } else { rng.range(8, (rem - 8).min(49000) as u64) as usize };
        if let Some(e) = solve_entry(chunk, rng) {
            out.push(e);
            rem -= chunk;
        }
    }
    Some(out)
}

/// size of the whole frame (`header length byte + header + payload`) of a `t`-byte batch
fn frame_size(t: usize) -> usize {
    1 + 1 + vl(t as u64) + 2 + 5 + t
}

/// payload size whose whole frame is exactly `f` bytes
fn payload_for_frame(f: usize) -> Option<usize> {
    for v in 1..=4 {
        if f >= 9 + v + 8 {
            let t = f - 9 - v;
            if vl(t as u64) == v {
                return Some(t);
            }
        }
    }
    None
}

fn small_entry(rng: &mut Rng) -> Ent {
    let klen = *rng.pick(&[0usize, 1, 1, 2, 3, 5, 8]);
    let put = rng.chance(2, 3);
    let vlen = *rng.pick(&[0usize, 1, 2, 7, 20, 40, 100, 119, 120, 121, 127, 128, 129]);
    let tsl = *rng.pick(&[1usize, 1, 2, 5, 10]);
    Ent { put, key: Bs::Lit(rng.bytes(klen)), ts: ts_with_len(tsl, rng), val: if put { Bs::Gen(gen_seed(rng), vlen) } else { Bs::Gen(0, 0) } }
}

fn small_batch(rng: &mut Rng) -> Batch {
    let n = 1 + rng.below(3) as usize;
    (0..n).map(|_| small_entry(rng)).collect()
}

fn tiny_batch() -> Batch {
    vec![Ent { put: false, key: Bs::Lit(vec![]), ts: 0, val: Bs::Gen(0, 0) }]
}

/// frames that take the writer from `cur` (inside a block) exactly to `p0` in the same block
fn lead_to(cur0: usize, p0: usize, rng: &mut Rng) -> Option<Vec<Group>> {
    'retry: for _ in 0..200 {
        let mut out: Vec<Group> = vec![];
        let mut cur = cur0;
        // a few small frames first so that frames exist at small offsets
        for _ in 0..rng.below(3) {
            let b = small_batch(rng);
            if cur + frame_size(batch_size(&b)) + 40 < p0 {
                cur += frame_size(batch_size(&b));
                out.push(vec![b]);
            }
        }
        let pieces = 1 + rng.below(6);
        for _ in 0..pieces {
            let rem = p0 - cur;
            if rem > 60 && rng.chance(2, 3) {
                let f = rng.range(18, (rem - 20).min(700_000) as u64) as usize;
                if let Some(t) = payload_for_frame(f) {
                    if let Some(b) = make_batch(t, rng) {
                        out.push(vec![b]);
                        cur += f;
                    }
                }
            }
        }
        let rem = p0 - cur;
        if rem == 0 {
            return Some(out);
        }
        // the last one lands exactly (in two steps if the remainder is too big for one batch)
        let mut rem = rem;
        while rem > BLOCK - 100 {
            let f = 500_000;
            let t = payload_for_frame(f)?;
            out.push(vec![make_batch(t, rng)?]);
            rem -= f;
        }
        match payload_for_frame(rem).and_then(|t| make_batch(t, rng)) {
            Some(b) => {
                out.push(vec![b]);
                return Some(out);
            }
            None => continue 'retry,
        }
    }
    None
}

struct BndCase {
    groups: Vec<Group>,
    kind: String,
}

/// stream 2: a file whose interesting frame sits at a chosen place relative to a block boundary
fn gen_boundary(i: u64, rng: &mut Rng, thorough: bool) -> Option<BndCase> {
    let random_sel = |rng: &mut Rng| match rng.below(10) {
        0..=3 => (0, rng.below(22) as usize),
        4..=7 => (1, if rng.chance(1, 4) { rng.range(25, 200_000) as usize } else { 1 + rng.below(24) as usize }),
        _ => (2, rng.below(10) as usize),
    };
    let sel = if i < 22 {
        (0, i as usize)
    } else if thorough {
        if i < 46 { (1, (i - 21) as usize) } else if i < 56 { (2, (i - 46) as usize) } else { random_sel(rng) }
    } else if i < 30 {
        (1, [1usize, 2, 3, 10, 19, 20, 21, 24][(i - 22) as usize])
    } else if i < 36 {
        (2, [1usize, 2, 4, 7, 8, 9][(i - 30) as usize])
    } else {
        random_sel(rng)
    };
    // the block in which the scenario plays (block 1 needs a first block filled to within padding)
    let blk = if (thorough && i >= 56 && rng.chance(1, 6)) || (!thorough && i == 10) { 1 } else { 0 };
    let mut groups: Vec<Group> = vec![];
    if blk == 1 {
        // fewer bytes left than the smallest frame (18): the next append pads to the boundary
        let gap = rng.below(18) as usize;
        groups.extend(lead_to(0, BLOCK - gap, rng)?);
    }
    let filled = groups.len();
    let classes = [8usize, 40, 200, 5000, 300_000];
    match sel {
        (0, d) => {
            // the test frame ends exactly `d` bytes before the boundary; what follows meets
            // roundup = d (padding for d <= 19, a FIRST frame of d - 19 payload bytes above)
            let l = {
                let c = classes[(i as usize + rng.below(2) as usize) % 4];
                if c == 8 { 8 } else { rng.range(c as u64 / 2, c as u64 * 2) as usize }
            };
            let p0 = BLOCK - d - frame_size(l);
            groups.extend(lead_to(0, p0, rng)?.into_iter());
            groups.push(vec![make_batch(l, rng)?]);
            // mostly a follow-up that does not fit in the `d` bytes left (padding / split)
            let follow = if rng.chance(1, 5) { 8 } else { classes[1 + (i as usize / 4 + rng.below(3) as usize) % 4] };
            groups.push(vec![if follow == 8 { tiny_batch() } else { make_batch(rng.range(follow as u64 / 2, follow as u64) as usize, rng)? }]);
            groups.push(vec![small_batch(rng)]);
            Some(BndCase { groups, kind: format!("ends-{}-before", d) })
        }
        (1, e) => {
            // the whole frame would end `e` bytes past the boundary: split (roundup > H) or pad
            let r = *rng.pick(&[20usize, 21, 22, 30, 40, 60, 100, 5000, 300_000]);
            let f = r + e;
            let t = payload_for_frame(f).or_else(|| payload_for_frame(f + 1))?;
            groups.extend(lead_to(0, BLOCK - r, rng)?.into_iter());
            groups.push(vec![make_batch(t, rng)?]);
            groups.push(vec![small_batch(rng)]);
            if rng.chance(1, 2) {
                groups.push(vec![make_batch(rng.range(8, 3000) as usize, rng)?]);
            }
            Some(BndCase { groups, kind: format!("past-by-{}", if e <= 24 { e.to_string() } else { "many".into() }) })
        }
        (_, v) => {
            // maximal batches: what `WriteBatch` accepts (BLOCK_SIZE) and MAX_BATCH_SIZE, +-1
            let sizes = [MAX_BATCH - 1, MAX_BATCH, MAX_BATCH + 1, BLOCK - 13, BLOCK - 12, BLOCK - 11, BLOCK - 1, BLOCK, BLOCK, MAX_BATCH];
            let t = sizes[v % sizes.len()];
            let pre = match v % 4 {
                0 => 0,
                1 => 1,
                2 => 2,
                _ => 3,
            };
            for _ in 0..pre {
                groups.push(vec![if rng.chance(1, 2) { tiny_batch() } else { small_batch(rng) }]);
            }
            if v >= 8 {
                // start the maximal batch 20..40 bytes before a boundary: its SECOND frame is
                // itself longer than a block
                let cur: usize = groups[filled..].iter().map(|g| frame_size(group_size(g))).sum();
                let r = rng.range(20, 40) as usize;
                groups.extend(lead_to(cur, BLOCK - r, rng)?.into_iter());
            }
            groups.push(vec![make_batch(t, rng)?]);
            groups.push(vec![small_batch(rng)]);
            groups.push(vec![tiny_batch()]);
            Some(BndCase { groups, kind: format!("max-batch-{}", if t == BLOCK { "block".to_string() } else if t > MAX_BATCH { "above-max".into() } else { "upto-max".into() }) })
        }
    }
}

struct PadCase {
    groups: Vec<Group>,
    kind: String,
    /// the padding run the writer must produce: [start, end) with `end` on a block boundary
    pad: (usize, usize),
}

/// stream 7: directed padding.  The reader's `true_up` reads the bytes it skips and accepts only the
/// writer's zeros (repair of D-11): every length of real padding is read back through that check —
/// a frame ending exactly d = 1..=19 bytes before a block boundary followed by an append that does
/// not fit (d zero bytes, the next frame on the boundary), and the split path (a FIRST frame, then
/// 9 / 8 / 7 zero bytes according to the length of its size varint, the SECOND frame on the
/// boundary), in the first block and behind a first block that itself ends in padding.
fn gen_padding(i: u64, rng: &mut Rng) -> Option<PadCase> {
    let blk = if i >= 26 && rng.chance(1, 2) { 1 } else { 0 };
    let mut groups: Vec<Group> = vec![];
    if blk == 1 {
        let gap = 1 + rng.below(17) as usize;
        groups.extend(lead_to(0, BLOCK - gap, rng)?);
    }
    let base = blk * BLOCK;
    let sel = if i < 26 { i } else { rng.below(26) };
    if sel < 19 {
        let d = sel as usize + 1;
        let l = *rng.pick(&[8usize, 8, 9, 30, 120, 121, 2000]);
        let p0 = BLOCK - d - frame_size(l);
        groups.extend(lead_to(0, p0, rng)?);
        groups.push(vec![make_batch(l, rng)?]);
        // never fits in the d <= 19 bytes that are left
        groups.push(vec![make_batch(rng.range(20, 400) as usize, rng)?]);
        groups.push(vec![small_batch(rng)]);
        Some(PadCase { groups, kind: format!("pad-{}", d), pad: (base + BLOCK - d, base + BLOCK) })
    } else {
        // roundup r > HEADER_MAX_SIZE: a FIRST frame of r - 19 payload bytes, then padding
        let r = match sel {
            19 => 20,
            20 => 21,
            21 => HMAX + 127,
            22 => HMAX + 128,
            23 => HMAX + 16383,
            24 => HMAX + 16384,
            _ => rng.range(20, 40000) as usize,
        };
        let first = r - HMAX;
        let z = 10 - vl(first as u64);
        groups.extend(lead_to(0, BLOCK - r, rng)?);
        groups.push(vec![make_batch(r + rng.range(1, 300) as usize, rng)?]);
        groups.push(vec![small_batch(rng)]);
        Some(PadCase { groups, kind: format!("split-pad-{}", z), pad: (base + BLOCK - z, base + BLOCK) })
    }
}

/// statistics from the walker: how the frames sit relative to block boundaries
fn structure_counters(rec: &mut Recorder, pfx: &str, bytes: &[u8]) {
    if let Ok((fr, pads)) = walk(bytes) {
        for p in &pads {
            rec.count(&format!("{}.struct.pad_run_len_{}", pfx, p.1 - p.0));
        }
        for f in &fr {
            match f.disc {
                1 => rec.count(&format!("{}.struct.whole_frames", pfx)),
                2 => {
                    rec.count(&format!("{}.struct.first_frames", pfx));
                    if f.size <= 2 {
                        rec.count(&format!("{}.struct.first_payload_{}", pfx, f.size));
                    }
                }
                _ => {
                    rec.count(&format!("{}.struct.second_frames", pfx));
                    if f.size <= 24 {
                        rec.count(&format!("{}.struct.second_payload_le24", pfx));
                    }
                    if f.end / BLOCK != f.start / BLOCK && f.end % BLOCK != 0 {
                        rec.count(&format!("{}.struct.second_frame_crosses_next_boundary", pfx));
                    }
                }
            }
            if f.disc != 3 && f.end % BLOCK == 0 {
                rec.count(&format!("{}.struct.frame_ends_on_boundary", pfx));
            }
            if f.start % BLOCK == 0 && f.start > 0 && f.disc == 1 {
                rec.count(&format!("{}.struct.whole_frame_starts_on_boundary", pfx));
            }
        }
    } else {
        rec.count(&format!("{}.struct.walker_failed", pfx));
    }
}

// ---------------------------------------------------------------------------------------------
// cases

/// write `gs` with the real builder, drain the real reader; returns (request, observed, verdict)
fn case_write(gs: &[Group], rb: Option<usize>, wb: Option<usize>, extra_check: Option<String>) -> (String, String, Verdict, Option<Vec<u8>>) {
    let req = format!("log w {}{}", knobs_tok(rb, wb), groups_tok(gs));
    let o = mk_opts(rb, wb);
    let kvs = groups_kvs(gs);
    let w = match write_seq(gs, &o) {
        Ok(w) => w,
        Err(m) => return (req, "panic".into(), Verdict::Fail { class: "write-panic".into(), detail: m }, None),
    };
    let mut fails: Vec<String> = vec![];
    if !w.errs.is_empty() {
        fails.push(format!("append-errors:{}", w.errs.join(";")));
    }
    if w.ends.last().copied().unwrap_or(0) != w.bytes.len() {
        fails.push("bytes_written-differs-from-output-length".into());
    }
    if w.setsum.as_deref() != Some(expected_setsum(&kvs).as_str()) {
        fails.push("sealed-setsum-differs".into());
    }
    if let Some(x) = extra_check {
        fails.push(x);
    }
    let d = match drain(&o, Cursor::new(&w.bytes[..]), &kvs) {
        Ok(d) => d,
        Err(m) => return (req, format!("{} panic", summary(&w.bytes)), Verdict::Fail { class: "read-panic".into(), detail: m }, Some(w.bytes)),
    };
    // the property on the implementation: exactly the appended entries, in order, then the end
    if !(d.prefix_ok && d.n == kvs.len() && d.err.is_none()) {
        fails.push(format!("roundtrip: delivered {} of {} entries, prefix_ok={}, end={:?}", d.n, kvs.len(), d.prefix_ok, d.err));
    }
    let obs = format!("{} {}", summary(&w.bytes), d.render());
    let v = if fails.is_empty() { Verdict::Ok } else { Verdict::Fail { class: "roundtrip".into(), detail: fails.join(" | ") } };
    (req, obs, v, Some(w.bytes))
}

fn rle(xs: &[String]) -> String {
    let mut out: Vec<String> = vec![];
    let mut i = 0;
    while i < xs.len() {
        let mut j = i;
        while j < xs.len() && xs[j] == xs[i] {
            j += 1;
        }
        out.push(format!("{}*{}", xs[i], j - i));
        i = j;
    }
    out.join(",")
}

fn ranges_tok(r: &[(usize, usize)]) -> String {
    r.iter().map(|(a, b)| if a == b { a.to_string() } else { format!("{}-{}", a, b) }).collect::<Vec<_>>().join(",")
}

fn merge_ranges(mut r: Vec<(usize, usize)>) -> Vec<(usize, usize)> {
    r.sort();
    let mut out: Vec<(usize, usize)> = vec![];
    for (a, b) in r {
        match out.last_mut() {
            Some(l) if a <= l.1 + 1 => l.1 = l.1.max(b),
            _ => out.push((a, b)),
        }
    }
    out
}

/// truncation: for every cut in `ranges`, the real reader over `bytes[..n]` started at the offset
/// where append `k` began
fn case_trunc(rec: &mut Recorder, pfx: &str, gs: &[Group], k: usize, ranges: &[(usize, usize)], rb: Option<usize>) -> (String, String, Verdict) {
    let req = format!("log t {} @ {} {}", groups_tok(gs), k, ranges_tok(ranges));
    let o = mk_opts(rb, None);
    let w = match write_seq(gs, &mk_opts(None, None)) {
        Ok(w) if w.errs.is_empty() => w,
        Ok(w) => return (req, "write-error".into(), Verdict::Fail { class: "trunc-write".into(), detail: w.errs.join(";") }),
        Err(m) => return (req, "panic".into(), Verdict::Fail { class: "write-panic".into(), detail: m }),
    };
    let start = if k == 0 { 0 } else { w.ends[k - 1] };
    let kvs = groups_kvs(&gs[k..]);
    let mut boundaries: Vec<usize> = vec![0];
    for g in &gs[k..] {
        boundaries.push(boundaries.last().unwrap() + group_entries(g));
    }
    let mut res: Vec<String> = vec![];
    let mut fails: Vec<String> = vec![];
    for (a, b) in ranges {
        for n in *a..=*b {
            let cut = &w.bytes[..n.min(w.bytes.len())];
            let mut c = Cursor::new(cut);
            c.set_position(start as u64);
            match drain(&o, c, &kvs) {
                Ok(d) => {
                    res.push(format!("{}{}", d.n, if d.err.is_some() { "x" } else { "e" }));
                    rec.count(&format!("{}.cut.{}", pfx, d.err.clone().unwrap_or("end".into())));
                    if d.after_err_delivers {
                        rec.count(&format!("{}.observation.next_after_error_delivers_an_entry", pfx));
                    }
                    if n >= w.bytes.len() && (d.n != kvs.len() || d.err.is_some()) {
                        fails.push(format!("cut@{}: whole file not read back", n));
                    }
                    if !d.prefix_ok {
                        fails.push(format!("cut@{}: delivered an entry that was not appended there", n));
                    } else if !boundaries.contains(&d.n) {
                        fails.push(format!("cut@{}: delivered part of a batch ({} entries)", n, d.n));
                    }
                }
                Err(m) => {
                    res.push("panic".into());
                    fails.push(format!("cut@{}: panic {}", n, m));
                }
            }
        }
    }
    rec.add(&format!("{}.cuts", pfx), res.len() as u64);
    let obs = format!("len={} fnv={:016x} start={} cuts={}", w.bytes.len(), fnv(&w.bytes), start, rle(&res));
    fails.truncate(4);
    let v = if fails.is_empty() { Verdict::Ok } else { Verdict::Fail { class: "truncation".into(), detail: fails.join(" | ") } };
    (req, obs, v)
}

/// cut points round every frame start / header end / payload end / padding / block boundary
/// at or after `from`
fn cut_ranges(bytes: &[u8], from: usize, w: usize) -> Vec<(usize, usize)> {
    let mut pts: Vec<usize> = vec![from, bytes.len()];
    if let Ok((fr, pads)) = walk(bytes) {
        for f in fr {
            if f.end >= from {
                pts.extend([f.start, f.hdr_end, f.end]);
            }
        }
        for p in pads {
            if p.1 >= from {
                pts.extend([p.0, p.1]);
            }
        }
    }
    for k in 1..=bytes.len() / BLOCK {
        pts.push(k * BLOCK);
    }
    merge_ranges(pts.into_iter().filter(|p| *p + w >= from).map(|p| (p.saturating_sub(w).max(from.saturating_sub(2)), (p + w).min(bytes.len() + 2))).collect())
}

fn mutate(rng: &mut Rng, orig: &[u8]) -> (Vec<u8>, &'static str) {
    let mut b = orig.to_vec();
    let (fr, _) = walk(orig).unwrap_or((vec![], vec![]));
    if fr.is_empty() {
        return (b, "none");
    }
    let f = rng.pick(&fr).clone();
    let alphabet = [0u8, 1, 2, 3, 4, 9, 10, 18, 19, 20, 21, 80, 88, 96, 101, 0x7f, 0x80, 0x81, 0xff];
    let kind = rng.below(8);
    let name = match kind {
        0 => {
            b[f.start] = *rng.pick(&alphabet);
            "length-byte"
        }
        1 | 2 => {
            let n = 1 + rng.below(2);
            for _ in 0..n {
                let p = rng.range(f.start as u64 + 1, f.hdr_end as u64 - 1) as usize;
                b[p] = if rng.chance(1, 2) { *rng.pick(&alphabet) } else { b[p] ^ (1 << rng.below(8)) };
            }
            "header-byte"
        }
        3 => {
            // discriminant value (header is: 80 size.. 88 disc 101 crc)
            let p = f.hdr_end - 6;
            b[p] = *rng.pick(&[0u8, 1, 2, 3, 4, 0x7f, 0x80]);
            "discriminant"
        }
        4 => {
            let n = 1 + rng.below(20) as usize;
            let z: Vec<u8> = vec![0; n];
            let at = *rng.pick(&[f.start, f.end]);
            b.splice(at..at, z);
            "zeros-inserted"
        }
        5 => {
            b.truncate(rng.range(f.start as u64, f.end as u64) as usize);
            let n = rng.below(24) as usize;
            if rng.chance(1, 2) {
                b.extend(vec![0u8; n]);
            } else {
                b.extend(rng.bytes(n));
            }
            "torn-then-junk"
        }
        6 => {
            let dup = orig[f.start..f.end].to_vec();
            b.splice(f.end..f.end, dup);
            "frame-duplicated"
        }
        _ => {
            if f.end > f.hdr_end {
                let p = rng.range(f.hdr_end as u64, f.end as u64 - 1) as usize;
                b[p] ^= 1 << rng.below(8);
            }
            "payload-bit"
        }
    };
    (b, name)
}

/// a header that declares a huge payload makes the reader allocate that much: keep those out
fn declares_huge(b: &[u8]) -> bool {
    let mut o = 0;
    while o < b.len() {
        let hs = b[o] as usize;
        if hs == 0 || hs > HMAX || o + 1 + hs > b.len() {
            return false;
        }
        // lenient scan: any `80 <varint>` inside the header
        let h = &b[o + 1..o + 1 + hs];
        let mut size = 0u64;
        let mut i = 0;
        while i < h.len() {
            if h[i] == 80 {
                let mut j = i + 1;
                if let Some(x) = rd_varint(h, &mut j) {
                    size = size.max(x);
                }
            }
            i += 1;
        }
        if size > (8 << 20) {
            return true;
        }
        match parse_hdr(h) {
            Some((s, _)) if o + 1 + hs + s as usize <= b.len() => o = o + 1 + hs + s as usize,
            _ => return false,
        }
    }
    false
}

fn run_sequential(args: &Args, rec: &mut Recorder) {
    let th = args.thorough;
    let n_small = if th { 3000 } else { 300 };
    let n_bnd = if th { 200 } else { 36 };
    let n_tsmall = if th { 1500 } else { 150 };
    let n_tbig = if th { 8 } else { 2 };
    let n_mut = if th { 5000 } else { 500 };

    // ---- stream 1: small sequences ------------------------------------------------------------
    for i in 0..n_small {
        if !rec.wants() {
            rec.skip();
            continue;
        }
        let mut rng = Rng::for_case(args.seed, 1, i);
        let nb = match i {
            0 => 0,
            1 => 1,
            _ => 1 + rng.below(8) as usize,
        };
        let mut gs: Vec<Group> = vec![];
        for _ in 0..nb {
            let merged = if rng.chance(1, 8) { 2 + rng.below(2) as usize } else { 1 };
            gs.push((0..merged).map(|_| if rng.chance(1, 10) { tiny_batch() } else if rng.chance(1, 12) { make_batch(rng.range(100, 40000) as usize, &mut rng).unwrap_or_else(tiny_batch) } else { small_batch(&mut rng) }).collect());
        }
        let (rb, wb) = (gen_knob(&mut rng), gen_knob(&mut rng));
        // an empty batch is refused and writes nothing (checked on the implementation only)
        let empty_check = guarded(|| {
            let mut out: Vec<u8> = vec![];
            let mut lb = LogBuilder::from_write(LogOptions::default(), &mut out).unwrap();
            let r = lb.append(&WriteBatch::default());
            let sz = lb.approximate_size();
            (r.err().map(|e| code(&e)), sz)
        });
        let extra = match empty_check {
            Ok((Some(c), 0)) if c == "empty-batch" => None,
            other => Some(format!("empty-batch-append: {:?}", other)),
        };
        let (req, obs, v, bytes) = case_write(&gs, rb, wb, extra);
        rec.count("small");
        rec.add("small.batches", gs.iter().map(|g| g.len() as u64).sum());
        if gs.iter().any(|g| g.len() > 1) {
            rec.count("small.with_merged_batches");
        }
        if let Some(b) = &bytes {
            structure_counters(rec, "small", b);
        }
        let nt = if nb >= 2 { Some(fnv(req.as_bytes())) } else { None };
        rec.case(&req, &obs, v, nt);
    }

    // ---- stream 2: block boundaries, tiny and maximal batches ----------------------------------
    for i in 0..n_bnd {
        if !rec.wants() {
            rec.skip();
            continue;
        }
        let mut rng = Rng::for_case(args.seed, 2, i);
        let case = (0..50).find_map(|_| gen_boundary(i, &mut rng, th));
        let case = match case {
            Some(c) => c,
            None => {
                rec.count("bnd.generator_gave_up");
                rec.corr("log w", &format!("{} read=0:{:016x}:end", summary(&[]), FNV_INIT), None);
                continue;
            }
        };
        let (rb, wb) = (gen_knob(&mut rng), gen_knob(&mut rng));
        // WriteBatch limit: a batch that holds BLOCK_SIZE bytes takes nothing more
        let mut extra = None;
        if case.kind == "max-batch-block" {
            let big = case.groups.iter().flatten().find(|b| batch_size(b) == BLOCK).cloned();
            if let Some(b) = big {
                let r = guarded(move || {
                    let mut wb = build_batch(&b).unwrap();
                    let e = wb.del(&[], 0).err().map(|e| code(&e));
                    (e, wb.approximate_size())
                });
                match r {
                    Ok((Some(c), s)) if c == "table-full" && s == BLOCK => rec.count("bnd.batch_limit_checked"),
                    other => extra = Some(format!("batch-limit: {:?}", other)),
                }
            }
        }
        let (req, obs, v, bytes) = case_write(&case.groups, rb, wb, extra);
        rec.count("bnd");
        rec.count(&format!("bnd.kind.{}", case.kind));
        if let Some(b) = &bytes {
            structure_counters(rec, "bnd", b);
            rec.add("bnd.bytes", b.len() as u64);
            if b.len() > 2 * BLOCK {
                rec.count("bnd.files_over_two_blocks");
            }
        }
        rec.case(&req, &obs, v, Some(fnv(req.as_bytes())));
    }

    // ---- stream 3: small files, every truncation length ----------------------------------------
    for i in 0..n_tsmall {
        if !rec.wants() {
            rec.skip();
            continue;
        }
        let mut rng = Rng::for_case(args.seed, 3, i);
        let nb = 1 + rng.below(6) as usize;
        let gs: Vec<Group> = (0..nb).map(|_| vec![if rng.chance(1, 6) { tiny_batch() } else { small_batch(&mut rng) }]).collect();
        let total: usize = gs.iter().map(|g| frame_size(group_size(g))).sum();
        let k = if rng.chance(1, 4) { rng.below(nb as u64) as usize } else { 0 };
        let (req, obs, v) = case_trunc(rec, "tsmall", &gs, k, &[(0, total + 2)], gen_knob(&mut rng));
        rec.count("tsmall");
        rec.case(&req, &obs, v, Some(fnv(req.as_bytes())));
    }

    // ---- stream 4: files over a block boundary, cuts round every boundary near it ---------------
    for i in 0..n_tbig {
        if !rec.wants() {
            rec.skip();
            continue;
        }
        let mut rng = Rng::for_case(args.seed, 4, i);
        // a split frame (even cases) or a padded boundary (odd cases) with frames before and after
        let mut made = None;
        for _ in 0..50 {
            let mut gs: Vec<Group> = vec![];
            let r = if i % 2 == 0 { *rng.pick(&[21usize, 40, 40, 60, 120, 300]) } else { rng.below(20) as usize };
            let before = 1 + rng.below(3) as usize; // small frames right before the interesting one
            let mut tail: Vec<Group> = (0..before).map(|_| vec![small_batch(&mut rng)]).collect();
            let tail_sz: usize = tail.iter().map(|g| frame_size(group_size(g))).sum();
            if let Some(lead) = lead_to(0, BLOCK - r - tail_sz, &mut rng) {
                let k = lead.len();
                gs.extend(lead);
                gs.append(&mut tail);
                // split case: several small entries, so that entry boundaries fall inside the FIRST
                // frame's payload (a reader that handed out a FIRST frame alone would deliver them)
                let b = if i % 2 == 0 {
                    let mut b: Batch = vec![tiny_batch().remove(0), tiny_batch().remove(0)];
                    while batch_size(&b) < r + 24 {
                        b.push(small_entry(&mut rng));
                    }
                    Some(b)
                } else {
                    make_batch(rng.range(8, 300) as usize, &mut rng)
                };
                if let Some(b) = b {
                    gs.push(vec![b]);
                    gs.push(vec![small_batch(&mut rng)]);
                    gs.push(vec![tiny_batch()]);
                    made = Some((gs, k));
                    break;
                }
            }
        }
        let (gs, k) = match made {
            Some(x) => x,
            None => {
                rec.count("tbig.generator_gave_up");
                rec.corr("log w", &format!("{} read=0:{:016x}:end", summary(&[]), FNV_INIT), None);
                continue;
            }
        };
        let bytes = write_seq(&gs, &mk_opts(None, None)).map(|w| w.bytes).unwrap_or_default();
        let start = bytes.len().min(gs[..k].iter().map(|g| frame_size(group_size(g))).sum());
        let w = if th { 96 } else { 64 };
        let ranges = cut_ranges(&bytes, start, w);
        let (req, obs, v) = case_trunc(rec, "tbig", &gs, k, &ranges, gen_knob(&mut rng));
        rec.count("tbig");
        rec.case(&req, &obs, v, Some(fnv(req.as_bytes())));
        // the same file read from the very beginning at a few cuts (the expensive direction)
        let pick: Vec<(usize, usize)> = (0..if th { 6 } else { 3 }).map(|_| { let c = rng.range(start as u64, bytes.len() as u64) as usize; (c, c) }).collect();
        let (req, obs, v) = case_trunc(rec, "tbig0", &gs, 0, &merge_ranges(pick), None);
        rec.count("tbig.from_offset_zero");
        rec.case(&req, &obs, v, Some(fnv(req.as_bytes())));
    }

    // ---- stream 5: malformed input (correspondence of the reader; no prefix oracle) -------------
    for i in 0..n_mut {
        if !rec.wants() {
            rec.skip();
            continue;
        }
        let mut rng = Rng::for_case(args.seed, 5, i);
        let nb = 1 + rng.below(4) as usize;
        let gs: Vec<Group> = (0..nb).map(|_| vec![if rng.chance(1, 6) { tiny_batch() } else { small_batch(&mut rng) }]).collect();
        let orig = write_seq(&gs, &mk_opts(None, None)).map(|w| w.bytes).unwrap_or_default();
        let mut m = (orig.clone(), "none");
        for _ in 0..20 {
            m = mutate(&mut rng, &orig);
            if !declares_huge(&m.0) {
                break;
            }
            m = (orig.clone(), "none");
        }
        let req = format!("log r {}", hex(&m.0));
        rec.count(&format!("mut.{}", m.1));
        match drain(&mk_opts(gen_knob(&mut rng), None), Cursor::new(&m.0[..]), &[]) {
            Ok(d) => {
                rec.count(&format!("mut.result.{}", d.err.clone().unwrap_or("end".into())));
                rec.corr(&req, &d.render(), Some(fnv(req.as_bytes())));
            }
            Err(e) => rec.case(&req, "panic", Verdict::Fail { class: "read-panic-malformed".into(), detail: e }, None),
        }
    }
}

// ---------------------------------------------------------------------------------------------
// stream 6: concurrent appends through ConcurrentLogBuilder<File>

/// In-process observation of durability: the harness binary defines `fdatasync` itself, so the
/// call `FsyncCoalescingCore::work` makes through the libc crate lands here (the static link
/// resolves the executable's own symbol first).  For the watched descriptor it notes how long the
/// file was when the call was ISSUED, makes the real system call, and publishes that length as
/// durable only when the call has returned 0: an fdatasync promises nothing about bytes written
/// after it was issued, and a failed one promises nothing at all.  It can hold one call open after
/// the system call (a slow device), which lets a directed scenario queue other callers behind the
/// fsync leader.  It can make chosen calls FAIL (return -1, errno EIO): the calls number
/// `FAIL_FROM .. FAIL_TO` of the watched descriptor, either without making the system call or
/// (`FAIL_REAL`) after making it — the device reports an error either way, and what the probe
/// publishes follows the REPORTED result.  Every call is logged with a tick of a process-wide
/// logical clock (the harness ticks the same clock when an append begins and returns), and, when
/// the sync42 event log is on, as `probe.issue` / `probe.ret` events of the calling thread.
/// Every other descriptor is passed straight through.
mod sync_probe {
    use std::sync::atomic::{AtomicBool, AtomicI32, AtomicU64, Ordering::SeqCst};
    pub static WATCH_FD: AtomicI32 = AtomicI32::new(-1);
    pub static DURABLE_LEN: AtomicU64 = AtomicU64::new(0);
    pub static CALLS: AtomicU64 = AtomicU64::new(0);
    pub static HOLD_NEXT: AtomicBool = AtomicBool::new(false);
    pub static HELD: AtomicBool = AtomicBool::new(false);
    pub static RELEASE: AtomicBool = AtomicBool::new(false);
    /// calls number `FAIL_FROM <= k < FAIL_TO` (1-based, of the watched descriptor) fail
    pub static FAIL_FROM: AtomicU64 = AtomicU64::new(0);
    pub static FAIL_TO: AtomicU64 = AtomicU64::new(0);
    pub static FAIL_REAL: AtomicBool = AtomicBool::new(false);
    pub static CLOCK: AtomicU64 = AtomicU64::new(0);
    pub static LOG: std::sync::Mutex<Vec<Call>> = std::sync::Mutex::new(Vec::new());

    #[derive(Clone, Debug)]
    pub struct Call {
        pub k: u64,
        /// file length when the call was issued
        pub len: u64,
        /// what the caller was told
        pub ok: bool,
        pub syscall_made: bool,
        pub issue_tick: u64,
        pub ret_tick: u64,
        /// the probe's durable length right after this call
        pub durable_after: u64,
    }

    pub fn tick() -> u64 {
        CLOCK.fetch_add(1, SeqCst) + 1
    }

    fn len_of(fd: i32) -> u64 {
        unsafe {
            let mut st: libc::stat = std::mem::zeroed();
            if libc::fstat(fd, &mut st) == 0 { st.st_size as u64 } else { 0 }
        }
    }

    #[no_mangle]
    pub extern "C" fn fdatasync(fd: libc::c_int) -> libc::c_int {
        if fd < 0 || fd != WATCH_FD.load(SeqCst) {
            return unsafe { libc::syscall(libc::SYS_fdatasync, fd) as libc::c_int };
        }
        let len_when_issued = len_of(fd);
        let k = CALLS.fetch_add(1, SeqCst) + 1;
        let issue_tick = tick();
        sync42::verif::emit("probe.issue", [k, len_when_issued, 0]);
        let fail = FAIL_FROM.load(SeqCst) <= k && k < FAIL_TO.load(SeqCst);
        let syscall_made = !fail || FAIL_REAL.load(SeqCst);
        let mut ret = if syscall_made { unsafe { libc::syscall(libc::SYS_fdatasync, fd) as libc::c_int } } else { -1 };
        if HOLD_NEXT.swap(false, SeqCst) {
            HELD.store(true, SeqCst);
            let t0 = std::time::Instant::now();
            while !RELEASE.load(SeqCst) && t0.elapsed() < std::time::Duration::from_secs(20) {
                std::thread::sleep(std::time::Duration::from_micros(200));
            }
            HELD.store(false, SeqCst);
        }
        if fail {
            ret = -1;
        }
        if ret == 0 {
            DURABLE_LEN.fetch_max(len_when_issued, SeqCst);
        }
        let durable_after = DURABLE_LEN.load(SeqCst);
        let ret_tick = tick();
        LOG.lock().unwrap().push(Call { k, len: len_when_issued, ok: ret == 0, syscall_made, issue_tick, ret_tick, durable_after });
        sync42::verif::emit("probe.ret", [k, (ret == 0) as u64, durable_after]);
        if ret != 0 {
            unsafe { *libc::__errno_location() = libc::EIO };
        }
        ret
    }

    pub fn watch(fd: i32) {
        WATCH_FD.store(fd, SeqCst);
        DURABLE_LEN.store(0, SeqCst);
        CALLS.store(0, SeqCst);
        HOLD_NEXT.store(false, SeqCst);
        HELD.store(false, SeqCst);
        RELEASE.store(false, SeqCst);
        FAIL_FROM.store(0, SeqCst);
        FAIL_TO.store(0, SeqCst);
        FAIL_REAL.store(false, SeqCst);
        LOG.lock().unwrap().clear();
    }

    pub fn fail_calls(from: u64, to: u64, real: bool) {
        FAIL_REAL.store(real, SeqCst);
        FAIL_TO.store(to, SeqCst);
        FAIL_FROM.store(from, SeqCst);
    }

    pub fn take_log() -> Vec<Call> {
        std::mem::take(&mut *LOG.lock().unwrap())
    }
}
use std::sync::atomic::Ordering::SeqCst;

struct ConcPlan {
    threads: Vec<Vec<Batch>>,
    /// free-running plans: thread `t` calls `ConcurrentLogBuilder::fsync()` before its batch `i`
    fsync_before: Vec<Vec<bool>>,
    /// free-running plans: extra threads that only call `fsync()` this many times
    fsync_only: Vec<usize>,
    /// 0 = free running; 1 = an append and then an `fsync()` caller queue behind a held fsync
    /// leader; 2 = the same with an earlier completed append and two appends before the caller
    directed: u8,
    wb: Option<usize>,
    desc: String,
    /// fdatasync calls of the log that the probe makes fail
    fault: Option<Fault>,
    /// record the sync42 event log (and the harness's own `h.op` / `probe.*` events) of the run:
    /// the fsync rounds (who was in which batch, whether a call was made, what it returned) are
    /// then part of the request the model replays
    events: bool,
    /// directed fault plans: number of appenders queued behind the leader, an earlier completed
    /// append P, a late append Z after everything
    roles: (usize, bool, bool),
}

/// which calls of the watched descriptor fail: numbers `from <= k < to` (1-based; for directed plans
/// relative to the calls made before the script arms the probe), with or without the system call
#[derive(Clone, Debug)]
struct Fault {
    from: u64,
    to: u64,
    real: bool,
    kind: &'static str,
}

fn conc_entry(rng: &mut Rng, t: usize, b: usize, j: usize, put: bool, vlen: usize) -> Ent {
    let mut key = vec![t as u8, b as u8, j as u8];
    let extra = rng.below(4) as usize;
    key.extend(rng.bytes(extra));
    Ent { put, key: Bs::Lit(key), ts: ts_with_len(*rng.pick(&[1usize, 2, 5]), rng), val: if put { Bs::Gen(1 + rng.below(1 << 30), vlen) } else { Bs::Gen(0, 0) } }
}

fn conc_plan(seed: u64, i: u64, thorough: bool) -> ConcPlan {
    let mut rng = Rng::for_case(seed, 6, i);
    let nt = 2 + rng.below(7) as usize;
    let heavy = if thorough { i % 10 == 9 } else { i == 5 };
    let medium = !heavy && rng.chance(1, 3);
    let per = if heavy { 2 + rng.below(2) as usize } else { 1 + rng.below(6) as usize };
    let mut threads = vec![];
    for t in 0..nt {
        let mut bs = vec![];
        for b in 0..per {
            let ne = if heavy { 4 } else { 1 + rng.below(3) as usize };
            let mut batch = vec![];
            for j in 0..ne {
                let put = heavy || rng.chance(3, 4);
                let vlen = if heavy { rng.range(20000, 32768) as usize } else if medium && rng.chance(1, 2) { rng.range(1000, 32768) as usize } else { rng.below(60) as usize };
                batch.push(conc_entry(&mut rng, t, b, j, put, vlen));
            }
            bs.push(batch);
        }
        threads.push(bs);
    }
    let wb = if rng.chance(1, 3) { Some(*rng.pick(&[1usize, 64, 4096])) } else { None };
    // `fsync()` callers among the appenders (they submit watermark 0 to the fsync queue)
    let with_fsyncs = !heavy && rng.chance(2, 3);
    let fsync_before: Vec<Vec<bool>> = threads.iter().map(|bs| bs.iter().map(|_| with_fsyncs && rng.chance(1, 3)).collect()).collect();
    let fsync_only: Vec<usize> = if with_fsyncs { (0..rng.below(3)).map(|_| 1 + rng.below(2 * per as u64) as usize).collect() } else { vec![] };
    let desc = format!("threads={} per={} {} fsync_calls={}", nt, per, if heavy { "heavy" } else if medium { "medium" } else { "light" },
        fsync_before.iter().flatten().filter(|x| **x).count() + fsync_only.iter().sum::<usize>());
    ConcPlan { threads, fsync_before, fsync_only, directed: 0, wb, desc, fault: None, events: false, roles: (0, false, false) }
}

/// stream 8, free running: a light or medium plan of stream 6's generator (own seed stream) with
/// a seeded failure of the log's fdatasync: the k-th call, every call from the k-th on, or one
/// call in the middle of the run
fn fault_plan(seed: u64, i: u64, thorough: bool) -> ConcPlan {
    // an index that is never `heavy` in `conc_plan`
    let mut plan = conc_plan(seed, 100_000 + i * 10, thorough);
    let mut rng = Rng::for_case(seed, 8, i);
    let appends: u64 = plan.threads.iter().map(|b| b.len() as u64).sum();
    let (from, to, kind) = match i % 3 {
        0 => {
            let k = 1 + rng.below(4);
            (k, k + 1, "kth")
        }
        1 => {
            let k = 1 + rng.below(5);
            (k, u64::MAX, "from-kth-on")
        }
        _ => {
            // the number of calls a run makes is schedule dependent (1 ..= appends + fsync()s):
            // aim at the middle of what a well-coalesced run makes
            let k = 2 + rng.below((appends / 3).max(1));
            (k, k + 1, "middle")
        }
    };
    let real = rng.chance(1, 3);
    plan.fault = Some(Fault { from, to, real, kind });
    plan.events = true;
    plan.desc = format!("{} fault={}:{}{}", plan.desc, kind, from, if real { ":syscall-made" } else { "" });
    plan
}

/// stream 8, directed (thread 0 = A, the held fsync leader; threads 1..=n = the appenders queued
/// behind it; then P, an earlier completed append; then Z, an append after everything):
///   kind 3: A and B share one coalesced WRITE; one of them leads the fsync queue alone and its
///           call FAILS while the other reaches the fsync queue only afterwards (next round)
///   kind 4: A's call succeeds; the round behind it {Y1..Yn} FAILS: all n must see the error; Z ok
///   kind 5: A's call FAILS; the round behind it {Y1..Yn} succeeds: only they (and Z) return Ok
fn directed_fault_plan(seed: u64, i: u64, kind: u8) -> ConcPlan {
    let mut rng = Rng::for_case(seed, 9, i);
    let n_y = if kind == 3 { 1 } else { 1 + rng.below(3) as usize };
    let has_p = rng.chance(1, 2);
    let has_z = kind != 3 || rng.chance(1, 2);
    let nt = 1 + n_y + has_p as usize + has_z as usize;
    let mut threads = vec![];
    for t in 0..nt {
        let ne = 1 + rng.below(3) as usize;
        let vmax = *rng.pick(&[40u64, 300, 5000]);
        threads.push(vec![(0..ne).map(|j| { let v = rng.below(vmax) as usize; conc_entry(&mut rng, t, 0, j, true, v) }).collect::<Batch>()]);
    }
    let fsync_before = threads.iter().map(|b| vec![false; b.len()]).collect();
    let real = rng.chance(1, 3);
    // call numbers relative to the moment the script arms the probe (after P)
    let fault = match kind { 4 => Fault { from: 2, to: 3, real, kind: "directed" }, _ => Fault { from: 1, to: 2, real, kind: "directed" } };
    let desc = match kind {
        3 => "directed fault: two appends in one coalesced write; the first one's fdatasync FAILS, the other queues for the next round",
        4 => "directed fault: leader's fdatasync ok; the round of appenders queued behind it FAILS",
        _ => "directed fault: leader's fdatasync FAILS; the round of appenders queued behind it succeeds",
    };
    ConcPlan { threads, fsync_before, fsync_only: vec![], directed: kind, wb: None,
        desc: format!("{} (behind={} earlier={} later={}{})", desc, n_y, has_p, has_z, if real { " syscall-made" } else { "" }),
        fault: Some(fault), events: true, roles: (n_y, has_p, has_z) }
}

/// the two directed schedules (thread 0 = A, the held fsync leader; threads 1, 2 = the appends
/// that must be durable on return; thread 3 = P, a completed earlier append, kind 2 only)
fn directed_plan(seed: u64, i: u64, kind: u8) -> ConcPlan {
    let mut rng = Rng::for_case(seed, 7, i);
    let nt = if kind == 2 { 4 } else { 2 };
    let mut threads = vec![];
    for t in 0..nt {
        let ne = 1 + rng.below(4) as usize;
        let vmax = *rng.pick(&[40u64, 300, 5000]);
        threads.push(vec![(0..ne).map(|j| { let v = rng.below(vmax) as usize; conc_entry(&mut rng, t, 0, j, true, v) }).collect::<Batch>()]);
    }
    let fsync_before = threads.iter().map(|b| vec![false; b.len()]).collect();
    ConcPlan { threads, fsync_before, fsync_only: vec![], directed: kind, wb: None, fault: None, events: false, roles: (0, false, false),
        desc: if kind == 1 { "directed: append, then fsync() caller, behind a held fsync leader".into() } else { "directed: earlier append done; two appends, then fsync() caller, behind a held fsync leader".into() } }
}

#[derive(Clone, Debug)]
struct Ret {
    t: usize,
    i: usize,
    res: String,
    snap_len: usize,
    snap_fnv: u64,
    /// the largest file length covered by an fdatasync that had returned when the call returned
    durable: u64,
    /// ticks of the probe's logical clock just before the call and just after it returned
    begin_tick: u64,
    end_tick: u64,
}

/// one `ConcurrentLogBuilder::fsync()` call: thread (appender threads first, then the fsync-only
/// ones), index (the append it precedes / its number), result
#[derive(Clone, Debug)]
struct FsyncRet {
    t: usize,
    i: usize,
    res: String,
    begin_tick: u64,
    end_tick: u64,
}

type Event = (u64, u64, &'static str, [u64; 3]);

struct ConcRun {
    rets: Vec<Ret>,
    seal: String,
    /// free text about `fsync()` calls that failed, schedules that were not reached, ...
    notes: Vec<String>,
    /// directed plans: the intended queue order was reached
    conclusive: bool,
    fsyncs: Vec<FsyncRet>,
    /// the probe's log of the log's fdatasync calls (in-process runs)
    calls: Vec<sync_probe::Call>,
    /// sync42 event log (plans with `events`)
    events: Vec<Event>,
}

impl ConcRun {
    fn failed(seal: String, notes: Vec<String>, conclusive: bool) -> ConcRun {
        ConcRun { rets: vec![], seal, notes, conclusive, fsyncs: vec![], calls: vec![], events: vec![] }
    }
}

fn panic_ret(t: usize) -> Ret {
    Ret { t, i: usize::MAX, res: "panic".into(), snap_len: 0, snap_fnv: 0, durable: 0, begin_tick: 0, end_tick: 0 }
}

fn marker(fd: Option<i32>, s: &str) {
    if let Some(fd) = fd {
        unsafe {
            libc::write(fd, s.as_ptr() as *const libc::c_void, s.len());
        }
    }
}

fn open_log(plan: &ConcPlan, path: &str) -> Result<ConcurrentLogBuilder<std::fs::File>, String> {
    use std::os::fd::AsRawFd;
    let _ = std::fs::remove_file(path);
    let file = std::fs::OpenOptions::new().create_new(true).read(true).write(true).open(path).map_err(|e| format!("open:{}", e))?;
    sync_probe::watch(file.as_raw_fd());
    ConcurrentLogBuilder::from_write(mk_opts(None, plan.wb), file).map_err(|e| format!("open:{}", code(&e)))
}

/// one append with its markers and what is observed the moment it has returned
fn one_append(clb: &ConcurrentLogBuilder<std::fs::File>, path: &str, mfd: Option<i32>, t: usize, i: usize, wb: Result<WriteBatch, String>) -> Ret {
    let mut begin_tick = 0;
    let res = match wb {
        Ok(wb) => {
            marker(mfd, &format!("B {} {}\n", t, i));
            sync42::verif::emit("h.op", [t as u64, i as u64, 0]);
            begin_tick = sync_probe::tick();
            let r = clb.append(wb);
            marker(mfd, &format!("R {} {}\n", t, i));
            match r {
                Ok(()) => "ok".to_string(),
                Err(e) => code(&e),
            }
        }
        Err(m) => format!("batch:{}", m),
    };
    let durable = sync_probe::DURABLE_LEN.load(SeqCst);
    let end_tick = sync_probe::tick();
    sync42::verif::emit("h.end", [t as u64, i as u64, 0]);
    // what the file holds at the moment the call has returned
    let snap = std::fs::read(path).unwrap_or_default();
    Ret { t, i, res, snap_len: snap.len(), snap_fnv: fnv(&snap), durable, begin_tick, end_tick }
}

/// one `fsync()` call
fn one_fsync(clb: &ConcurrentLogBuilder<std::fs::File>, t: usize, i: usize) -> FsyncRet {
    sync42::verif::emit("h.op", [t as u64, i as u64, 1]);
    let begin_tick = sync_probe::tick();
    let r = clb.fsync();
    let end_tick = sync_probe::tick();
    sync42::verif::emit("h.end", [t as u64, i as u64, 1]);
    FsyncRet { t, i, res: match r { Ok(()) => "ok".into(), Err(e) => code(&e) }, begin_tick, end_tick }
}

fn events_begin(plan: &ConcPlan) {
    if plan.events {
        let _ = sync42::verif::take_events();
        sync42::verif::events_enable(true);
    }
}

fn events_end(plan: &ConcPlan) -> Vec<Event> {
    if plan.events {
        sync42::verif::events_enable(false);
        sync42::verif::take_events()
    } else {
        vec![]
    }
}

fn conc_execute(plan: &ConcPlan, path: &str, mfd: Option<i32>) -> Result<ConcRun, String> {
    if plan.directed != 0 {
        return conc_execute_directed(plan, path, mfd);
    }
    guarded(std::panic::AssertUnwindSafe(|| {
        let clb = match open_log(plan, path) {
            Ok(c) => c,
            Err(e) => return ConcRun::failed(e, vec![], true),
        };
        if let Some(f) = &plan.fault {
            sync_probe::fail_calls(f.from, f.to, f.real);
        }
        events_begin(plan);
        let barrier = std::sync::Barrier::new(plan.threads.len() + plan.fsync_only.len());
        let mut rets: Vec<Ret> = vec![];
        let mut fsyncs: Vec<FsyncRet> = vec![];
        let notes = std::sync::Mutex::new(Vec::<String>::new());
        let nt = plan.threads.len();
        std::thread::scope(|s| {
            let hs: Vec<_> = plan
                .threads
                .iter()
                .enumerate()
                .map(|(t, bs)| {
                    let (clb, barrier) = (&clb, &barrier);
                    s.spawn(move || {
                        let built: Vec<Result<WriteBatch, String>> = bs.iter().map(build_batch).collect();
                        barrier.wait();
                        let mut out = vec![];
                        let mut fs = vec![];
                        for (i, wb) in built.into_iter().enumerate() {
                            if plan.fsync_before[t][i] {
                                fs.push(one_fsync(clb, t, i));
                            }
                            out.push(one_append(clb, path, mfd, t, i, wb));
                        }
                        (out, fs)
                    })
                })
                .collect();
            let fs: Vec<_> = plan
                .fsync_only
                .iter()
                .enumerate()
                .map(|(x, n)| {
                    let (clb, barrier) = (&clb, &barrier);
                    s.spawn(move || {
                        barrier.wait();
                        let mut fs = vec![];
                        for i in 0..*n {
                            fs.push(one_fsync(clb, nt + x, i));
                            std::thread::yield_now();
                        }
                        fs
                    })
                })
                .collect();
            for (t, h) in hs.into_iter().enumerate() {
                match h.join() {
                    Ok((v, f)) => {
                        rets.extend(v);
                        fsyncs.extend(f);
                    }
                    Err(_) => rets.push(panic_ret(t)),
                }
            }
            for h in fs {
                match h.join() {
                    Ok(f) => fsyncs.extend(f),
                    Err(_) => notes.lock().unwrap().push("fsync() caller panicked".into()),
                }
            }
        });
        let events = events_end(plan);
        sync_probe::WATCH_FD.store(-1, SeqCst);
        let calls = sync_probe::take_log();
        let seal = match clb.seal() {
            Ok((s, _file)) => s.hexdigest(),
            Err(e) => format!("seal:{}", code(&e)),
        };
        ConcRun { rets, seal, notes: notes.into_inner().unwrap(), conclusive: true, fsyncs, calls, events }
    }))
}

/// poll the sync42 event log until `pred(all events so far)` or the deadline
fn wait_events(seen: &mut Vec<(u64, u64, &'static str, [u64; 3])>, ms: u64, pred: impl Fn(&[(u64, u64, &'static str, [u64; 3])]) -> bool) -> bool {
    let t0 = std::time::Instant::now();
    loop {
        seen.extend(sync42::verif::take_events());
        if pred(seen) {
            return true;
        }
        if t0.elapsed() > std::time::Duration::from_millis(ms) {
            return false;
        }
        std::thread::sleep(std::time::Duration::from_micros(300));
    }
}

fn wait_flag(ms: u64, f: impl Fn() -> bool) -> bool {
    let t0 = std::time::Instant::now();
    while !f() {
        if t0.elapsed() > std::time::Duration::from_millis(ms) {
            return false;
        }
        std::thread::sleep(std::time::Duration::from_micros(300));
    }
    true
}

/// The schedules that expose an fsync core which loses the high-water mark of its batch:
///   kind 1:  A appends and, as fsync leader, is held inside fdatasync (after the system call).
///            Y appends: its bytes reach the file after A's fdatasync was issued; Y parks behind A.
///            F calls `fsync()` (watermark 0) and parks behind Y.  A is released; Y leads {Y, F}.
///   kind 2:  P appends and completes first (so `synced > 0`), then as kind 1 with two appenders
///            Y1, Y2 parked behind A before F: Y1 leads {Y1, Y2, F}.
/// In both, the appends behind A may return only after an fdatasync issued after their writes
/// returned.  Every step waits for an observable condition (the probe's HELD flag, `wcq.park`
/// events of the sync42 hooks): no timing assumption.  The oracle (durable length at return >=
/// end of the caller's frame) is a property of every schedule; the script only makes the
/// interesting one happen, and says whether it did (`conclusive`).
/// (An older appender stalled between the write queue and the fsync queue would be a third way to
/// put a stale watermark last; the only pause point there, the end of `do_work`, still holds the
/// write core's lock, so it cannot be staged with the present hooks.)
fn conc_execute_directed(plan: &ConcPlan, path: &str, mfd: Option<i32>) -> Result<ConcRun, String> {
    if plan.directed >= 3 {
        return conc_execute_directed_fault(plan, path, mfd);
    }
    let park_count = |ev: &[Event]| ev.iter().filter(|e| e.2 == "wcq.park").count();
    guarded(std::panic::AssertUnwindSafe(|| {
        let mut notes: Vec<String> = vec![];
        let clb = match open_log(plan, path) {
            Ok(c) => c,
            Err(e) => return ConcRun::failed(e, notes, false),
        };
        let _ = sync42::verif::take_events();
        sync42::verif::events_enable(true);
        let mut seen = vec![];
        let mut ok = true;
        let mut rets: Vec<Ret> = vec![];
        let mut fsyncs: Vec<FsyncRet> = vec![];
        let n_y = if plan.directed == 2 { 2 } else { 1 };
        std::thread::scope(|s| {
            let clb = &clb;
            let spawn_append = |t: usize| {
                let wb = build_batch(&plan.threads[t][0]);
                s.spawn(move || one_append(clb, path, mfd, t, 0, wb))
            };
            let mut handles = vec![];
            if plan.directed == 2 {
                // P: a completed append, so that the core's `synced` is not zero
                match spawn_append(3).join() {
                    Ok(r) => rets.push(r),
                    Err(_) => ok = false,
                }
            }
            sync_probe::HOLD_NEXT.store(true, SeqCst);
            handles.push(spawn_append(0));
            ok &= wait_flag(10000, || sync_probe::HELD.load(SeqCst));
            seen.extend(sync42::verif::take_events());
            let parked_before = park_count(&seen);
            for k in 0..n_y {
                handles.push(spawn_append(1 + k));
                ok &= wait_events(&mut seen, 10000, |ev| park_count(ev) >= parked_before + 1 + k);
            }
            let nt = plan.threads.len();
            let f = s.spawn(move || one_fsync(clb, nt, 0));
            ok &= wait_events(&mut seen, 10000, |ev| park_count(ev) >= parked_before + 1 + n_y);
            sync_probe::RELEASE.store(true, SeqCst);
            for h in handles {
                match h.join() {
                    Ok(r) => rets.push(r),
                    Err(_) => rets.push(panic_ret(9)),
                }
            }
            match f.join() {
                Ok(r) => fsyncs.push(r),
                Err(_) => notes.push("fsync() caller panicked".into()),
            }
        });
        sync42::verif::events_enable(false);
        seen.extend(sync42::verif::take_events());
        // the first appender behind A led the whole rest of the queue in one batch (the write queue
        // never holds more than one caller here).  Threads in order of appearance: [P,] A, Y1, ...
        let mut order: Vec<u64> = vec![];
        for e in &seen {
            if e.2.starts_with("wcq.") && !order.contains(&e.1) {
                order.push(e.1);
            }
        }
        let y_thread = order.get(if plan.directed == 2 { 2 } else { 1 }).copied().unwrap_or(0);
        ok &= seen.iter().any(|e| e.2 == "wcq.lead" && e.3[1] as usize == n_y + 1 && e.1 == y_thread);
        if !ok {
            notes.push("intended queue order not reached".into());
            if std::env::var("C12_DEBUG").is_ok() {
                eprintln!("directed kind {}: events {:?}", plan.directed, seen.iter().map(|e| format!("{}:{}{:?}", e.1, e.2, e.3)).collect::<Vec<_>>());
            }
        }
        sync_probe::WATCH_FD.store(-1, SeqCst);
        let calls = sync_probe::take_log();
        let seal = match clb.seal() {
            Ok((s, _file)) => s.hexdigest(),
            Err(e) => format!("seal:{}", code(&e)),
        };
        ConcRun { rets, seal, notes, conclusive: ok, fsyncs, calls, events: if plan.events { seen } else { vec![] } }
    }))
}

/// The schedules with a FAILING fdatasync (`directed_fault_plan`).  As above every step waits for
/// an observable condition; the two windows that are a few instructions wide (two callers linked
/// into the write queue before the head collects its batch; the member of a coalesced write
/// reaching the fsync queue well after the leader, or the other way round) are widened with the
/// sync42 pause points (`wcq.link`: a caller sleeps right after linking, holding nothing;
/// `wcq.leave` / `wcq.clear`: the member / the leader of a finished batch sleeps before it leaves
/// `do_work`), which are removed as soon as the condition they serve has been observed.  Whether
/// the intended rounds were formed is decided afterwards from the event log (`conclusive`); the
/// oracle does not depend on it.
fn conc_execute_directed_fault(plan: &ConcPlan, path: &str, mfd: Option<i32>) -> Result<ConcRun, String> {
    let count = |ev: &[Event], tag: &str| ev.iter().filter(|e| e.2 == tag).count();
    let clear_pauses = || {
        sync42::verif::set_pause("wcq.link", 0, 0);
        sync42::verif::set_pause("wcq.leave", 0, 0);
        sync42::verif::set_pause("wcq.leave", 1, 0);
        sync42::verif::set_pause("wcq.clear", 0, 0);
    };
    let r = guarded(std::panic::AssertUnwindSafe(|| {
        let mut notes: Vec<String> = vec![];
        let clb = match open_log(plan, path) {
            Ok(c) => c,
            Err(e) => return ConcRun::failed(e, notes, false),
        };
        let _ = sync42::verif::take_events();
        sync42::verif::events_enable(true);
        let mut seen: Vec<Event> = vec![];
        let mut ok = true;
        let mut rets: Vec<Ret> = vec![];
        let (n_y, has_p, has_z) = plan.roles;
        let (t_p, t_z) = (1 + n_y, 1 + n_y + has_p as usize);
        let fault = plan.fault.clone().unwrap();
        std::thread::scope(|s| {
            let clb = &clb;
            let spawn_append = |t: usize| {
                let wb = build_batch(&plan.threads[t][0]);
                s.spawn(move || one_append(clb, path, mfd, t, 0, wb))
            };
            let mut handles = vec![];
            if has_p {
                match spawn_append(t_p).join() {
                    Ok(r) => rets.push(r),
                    Err(_) => ok = false,
                }
            }
            let base = sync_probe::CALLS.load(SeqCst);
            sync_probe::fail_calls(base + fault.from, base + fault.to, fault.real);
            sync_probe::HOLD_NEXT.store(true, SeqCst);
            seen.extend(sync42::verif::take_events());
            if plan.directed == 3 {
                let links_before = count(&seen, "wcq.link");
                sync42::verif::set_pause("wcq.link", 0, 30_000);
                sync42::verif::set_pause("wcq.leave", 0, 60_000);
                sync42::verif::set_pause("wcq.leave", 1, 60_000);
                sync42::verif::set_pause("wcq.clear", 0, 30_000);
                handles.push(spawn_append(0));
                handles.push(spawn_append(1));
                // both are linked into the write queue (each sleeps where it linked): whoever is
                // head collects both into one write
                ok &= wait_events(&mut seen, 10000, |ev| count(ev, "wcq.link") >= links_before + 2);
                sync42::verif::set_pause("wcq.link", 0, 0);
                // one of them leads the fsync queue alone and sits in the (failing) call ...
                ok &= wait_flag(10000, || sync_probe::HELD.load(SeqCst));
                seen.extend(sync42::verif::take_events());
                let parked = seen.iter().rposition(|e| e.2 == "probe.issue").map(|p| count(&seen[p..], "wcq.park")).unwrap_or(0);
                // ... and the other reaches the fsync queue behind it
                if parked == 0 {
                    let n0 = seen.len();
                    ok &= wait_events(&mut seen, 10000, |ev| count(&ev[n0.min(ev.len())..], "wcq.park") >= 1);
                }
                clear_pauses();
            } else {
                handles.push(spawn_append(0));
                ok &= wait_flag(10000, || sync_probe::HELD.load(SeqCst));
                seen.extend(sync42::verif::take_events());
                let parked_before = count(&seen, "wcq.park");
                for k in 0..n_y {
                    handles.push(spawn_append(1 + k));
                    ok &= wait_events(&mut seen, 10000, |ev| count(ev, "wcq.park") >= parked_before + 1 + k);
                }
            }
            sync_probe::RELEASE.store(true, SeqCst);
            for h in handles {
                match h.join() {
                    Ok(r) => rets.push(r),
                    Err(_) => rets.push(panic_ret(9)),
                }
            }
            if has_z {
                match spawn_append(t_z).join() {
                    Ok(r) => rets.push(r),
                    Err(_) => rets.push(panic_ret(t_z)),
                }
            }
        });
        sync42::verif::events_enable(false);
        seen.extend(sync42::verif::take_events());
        if !ok {
            notes.push("intended queue order not reached".into());
        }
        sync_probe::WATCH_FD.store(-1, SeqCst);
        let calls = sync_probe::take_log();
        let seal = match clb.seal() {
            Ok((s, _file)) => s.hexdigest(),
            Err(e) => format!("seal:{}", code(&e)),
        };
        ConcRun { rets, seal, notes, conclusive: ok, fsyncs: vec![], calls, events: seen }
    }));
    clear_pauses();
    sync_probe::RELEASE.store(true, SeqCst);
    r
}

/// one syscall of the strace log
#[derive(Debug)]
struct Sys {
    entry: usize,
    exit: usize,
    name: String,
    on_log: bool,
    ret: i64,
    text: String,
}

fn parse_strace(text: &str, log_path: &str) -> Vec<Sys> {
    let mut out: Vec<Sys> = vec![];
    let mut open: std::collections::HashMap<String, usize> = Default::default();
    for (ln, line) in text.lines().enumerate() {
        let (tid, rest) = match line.split_once(' ') {
            Some(x) => (x.0.to_string(), x.1.trim_start()),
            None => continue,
        };
        let ret_of = |s: &str| -> i64 { s.rsplit_once(" = ").and_then(|x| x.1.split_whitespace().next().and_then(|v| v.parse().ok())).unwrap_or(i64::MIN) };
        if let Some(r) = rest.strip_prefix("<... ") {
            if let Some(idx) = open.remove(&tid) {
                out[idx].exit = ln;
                out[idx].ret = ret_of(r);
            }
            continue;
        }
        let name = match rest.split_once('(') {
            Some((n, _)) if n.chars().all(|c| c.is_ascii_alphanumeric() || c == '_') && !n.is_empty() => n.to_string(),
            _ => continue,
        };
        let on_log = rest.contains(&format!("<{}>", log_path));
        let unfinished = rest.contains("<unfinished ...>");
        out.push(Sys { entry: ln, exit: if unfinished { usize::MAX } else { ln }, name, on_log, ret: if unfinished { i64::MIN } else { ret_of(rest) }, text: rest.chars().take(80).collect() });
        if unfinished {
            open.insert(tid, out.len() - 1);
        }
    }
    out
}

/// one batch of the fsync queue, reconstructed from the event log
#[derive(Debug)]
struct Round {
    /// (thread, index, kind: 0 append / 1 fsync()) of every member, leader first
    members: Vec<(usize, usize, u8)>,
    /// the fdatasync the leader made, if it made one: (number, file length at issue, reported ok)
    call: Option<(u64, u64, bool)>,
    /// the probe's durable length when the round's answers were handed out
    durable_after: u64,
}

/// The rounds of the FSYNC queue.  Events carry the emitting thread; `h.op [t, i, kind]` says which
/// harness operation the thread is in.  Inside an append the first `wcq.link` is the write queue,
/// the second the fsync queue; inside an `fsync()` the only one is the fsync queue.  A round is
/// opened by the leader's `wcq.lead`, its members are the owners of the slots of its
/// `wcq.deliver`s, its system call the `probe.issue` / `probe.ret` the leader emits in between.
fn fsync_rounds(ev: &[Event]) -> Result<Vec<Round>, String> {
    // A waiter logs its `wcq.link` after it has linked: a leader can batch it and log the hand-out
    // to its slot before the waiter's own line is in the log (seen once, on a loaded machine, as
    // "hand-out to slot N that nobody is known to hold").  The owners of the slots are therefore
    // collected in a first pass over the whole log, and the rounds built in a second.
    let mut owners = std::collections::HashMap::new();
    let _ = fsync_rounds_pass(ev, &mut owners, false);
    fsync_rounds_pass(ev, &mut owners, true)
}

fn fsync_rounds_pass(ev: &[Event], slot_owner: &mut std::collections::HashMap<u64, (usize, usize, u8)>, strict: bool) -> Result<Vec<Round>, String> {
    use std::collections::HashMap;
    let mut cur: HashMap<u64, ((usize, usize, u8), u32)> = HashMap::new();
    let mut open: HashMap<u64, (Round, usize)> = HashMap::new();
    let mut rounds = vec![];
    let mut durable = 0u64;
    for e in ev {
        let (th, tag, a) = (e.1, e.2, e.3);
        match tag {
            "h.op" => {
                cur.insert(th, ((a[0] as usize, a[1] as usize, a[2] as u8), 0));
                continue;
            }
            "h.end" => {
                cur.remove(&th);
                continue;
            }
            "probe.issue" => {
                match open.get_mut(&th) {
                    Some(r) => r.0.call = Some((a[0], a[1], false)),
                    None if !strict => {}
                    None => return Err(format!("fdatasync number {} outside a round of the fsync queue", a[0])),
                }
                continue;
            }
            "probe.ret" => {
                durable = a[2];
                if let Some(r) = open.get_mut(&th) {
                    if let Some(c) = r.0.call.as_mut() {
                        c.2 = a[1] != 0;
                    }
                }
                continue;
            }
            _ => {}
        }
        let st = match cur.get_mut(&th) {
            Some(st) => st,
            None => continue,
        };
        if tag == "wcq.link" {
            st.1 += 1;
        }
        let fsync_queue = st.0 .2 == 1 || st.1 >= 2;
        if !fsync_queue {
            continue;
        }
        if !strict {
            if tag == "wcq.link" {
                slot_owner.insert(a[0], st.0);
            }
            continue;
        }
        match tag {
            "wcq.link" => {
                slot_owner.insert(a[0], st.0);
            }
            "wcq.lead" => {
                open.insert(th, (Round { members: vec![], call: None, durable_after: 0 }, a[1] as usize));
            }
            "wcq.deliver" => {
                let owner = slot_owner.get(&a[1]).copied();
                match (open.get_mut(&th), owner) {
                    (Some(r), Some(o)) => r.0.members.push(o),
                    _ if !strict => {}
                    _ => return Err(format!("hand-out to slot {} that nobody is known to hold", a[1])),
                }
            }
            "wcq.leader_unlink" => {
                if let Some((mut r, taken)) = open.remove(&th) {
                    if r.members.len() != taken {
                        return Err(format!("a leader took {} and answered {}", taken, r.members.len()));
                    }
                    r.durable_after = durable;
                    rounds.push(r);
                }
            }
            _ => {}
        }
    }
    if strict && !open.is_empty() {
        return Err("a round of the fsync queue never finished".into());
    }
    Ok(rounds)
}

struct ConcOutcome {
    req: String,
    obs: String,
    verdict: Verdict,
    /// directed plans: the intended rounds were formed
    conclusive: bool,
    /// the observed merge: batches (thread, index) in file order, the records they were coalesced
    /// into, and per batch the end offset / 1-based number of its record
    order: Vec<(usize, usize)>,
    groups: Vec<Group>,
    end_of: std::collections::BTreeMap<(usize, usize), usize>,
    frame_of: std::collections::BTreeMap<(usize, usize), usize>,
}

fn conc_analyse(rec: &mut Recorder, plan: &ConcPlan, path: &str, run: &ConcRun, trace: Option<&str>) -> ConcOutcome {
    let bytes = std::fs::read(path).unwrap_or_default();
    let mut fails: Vec<String> = vec![];
    let total: usize = plan.threads.iter().map(|b| b.len()).sum();
    // every call returned, and returned Ok — unless an fdatasync of the log FAILED while the call
    // was in progress (issued after the call began, returned before the call returned): then
    // `corruption-fsync-failed` (append) / `corruption-log-poisoned` (fsync()) is the error the code
    // surfaces.  Without a failing call (every run of stream 6) this is "every call returned Ok".
    let failed_calls: Vec<&sync_probe::Call> = run.calls.iter().filter(|c| !c.ok).collect();
    let justified = |b: u64, e: u64| failed_calls.iter().any(|c| c.issue_tick > b && c.ret_tick < e);
    if run.rets.len() != total {
        fails.push(format!("append-results: {} of {} appends returned", run.rets.len(), total));
    }
    let mut appends_err = 0u64;
    for r in &run.rets {
        match r.res.as_str() {
            "ok" => {}
            "corruption-fsync-failed" if justified(r.begin_tick, r.end_tick) => appends_err += 1,
            _ => fails.push(format!("append-results: {}/{}:{} (no fdatasync of the log failed while it was in progress)", r.t, r.i, r.res)),
        }
    }
    let mut fsyncs_err = 0u64;
    for f in &run.fsyncs {
        match f.res.as_str() {
            "ok" => {}
            "corruption-log-poisoned" if justified(f.begin_tick, f.end_tick) => fsyncs_err += 1,
            _ => fails.push(format!("fsync() by thread {} failed: {} (no fdatasync of the log failed while it was in progress)", f.t, f.res)),
        }
    }
    // an error of the device is surfaced: some call that was in progress around the failed
    // fdatasync returned an error
    for c in &failed_calls {
        let told = run.rets.iter().any(|r| r.res != "ok" && r.begin_tick < c.issue_tick && c.ret_tick < r.end_tick)
            || run.fsyncs.iter().any(|f| f.res != "ok" && f.begin_tick < c.issue_tick && c.ret_tick < f.end_tick);
        if !told {
            fails.push(format!("fdatasync number {} of the log failed and no caller was told", c.k));
        }
    }
    // drain with the REAL reader; identify every entry by its key prefix (thread, batch, index)
    let mut order: Vec<(usize, usize)> = vec![]; // batches in file order
    let all: Vec<Kv> = vec![];
    let o = mk_opts(None, None);
    let mut delivered: Vec<Kv> = vec![];
    let read_res = guarded(std::panic::AssertUnwindSafe(|| {
        let mut v = vec![];
        let mut it = LogIterator::from_reader(o.clone(), Cursor::new(&bytes[..])).map_err(|e| code(&e))?;
        loop {
            match it.next() {
                Ok(Some(k)) => v.push(Kv { key: k.key.to_vec(), ts: k.timestamp, val: k.value.map(|x| x.to_vec()) }),
                Ok(None) => return Ok(v),
                Err(e) => return Err(code(&e)),
            }
        }
    }));
    let _ = all;
    match read_res {
        Ok(Ok(v)) => delivered = v,
        Ok(Err(c)) => fails.push(format!("final-read-error:{}", c)),
        Err(m) => fails.push(format!("final-read-panic:{}", m)),
    }
    let mut hash = FNV_INIT;
    for k in &delivered {
        hash = hash_kv(hash, &k.key, k.ts, k.val.as_deref());
    }
    let mut p = 0;
    let mut seen: std::collections::BTreeSet<(usize, usize)> = Default::default();
    let mut next_of_thread = vec![0usize; plan.threads.len()];
    while p < delivered.len() {
        let k = &delivered[p].key;
        if k.len() < 3 || k[0] as usize >= plan.threads.len() || k[1] as usize >= plan.threads[k[0] as usize].len() {
            fails.push(format!("invented-entry at index {}", p));
            break;
        }
        let (t, b) = (k[0] as usize, k[1] as usize);
        let want: Vec<Kv> = plan.threads[t][b].iter().map(|e| e.kv()).collect();
        if p + want.len() > delivered.len() || delivered[p..p + want.len()] != want[..] {
            fails.push(format!("batch {}/{} not whole at entry {}", t, b, p));
            break;
        }
        if !seen.insert((t, b)) {
            fails.push(format!("batch {}/{} appears twice", t, b));
        }
        if next_of_thread[t] != b {
            fails.push(format!("thread {} order: batch {} where {} was due", t, b, next_of_thread[t]));
        }
        next_of_thread[t] = b + 1;
        order.push((t, b));
        p += want.len();
    }
    // every acknowledged batch is in the file (one that was answered with an error need not be:
    // the code writes it before it syncs, so it is there, and the model's file has it, but the
    // property does not ask for it)
    if fails.is_empty() {
        for r in run.rets.iter().filter(|r| r.res == "ok") {
            if !seen.contains(&(r.t, r.i)) {
                fails.push(format!("batch {}/{} was acknowledged and is not in the file ({} of {} batches are)", r.t, r.i, seen.len(), total));
            }
        }
    }
    // grouping into frames: payload sizes from the walker
    let mut groups: Vec<Group> = vec![];
    let mut end_of: std::collections::BTreeMap<(usize, usize), usize> = Default::default();
    // 1-based number of the frame that holds the batch
    let mut frame_of: std::collections::BTreeMap<(usize, usize), usize> = Default::default();
    match walk(&bytes).and_then(|(fr, _)| logical(&fr)) {
        Ok(lf) => {
            let mut bi = 0;
            for (size, end) in lf {
                let mut g: Group = vec![];
                let mut acc = 0;
                while acc < size && bi < order.len() {
                    let (t, b) = order[bi];
                    acc += batch_size(&plan.threads[t][b]);
                    g.push(plan.threads[t][b].clone());
                    end_of.insert((t, b), end);
                    frame_of.insert((t, b), groups.len() + 1);
                    bi += 1;
                }
                if acc != size {
                    fails.push(format!("frame ending at {} holds {} bytes, the batches in it {}", end, size, acc));
                    break;
                }
                groups.push(g);
            }
        }
        Err(m) => fails.push(format!("walker:{}", m)),
    }
    // at return: the file already held the caller's frame, and was a prefix of the final file
    for r in &run.rets {
        if r.res != "ok" {
            continue;
        }
        match end_of.get(&(r.t, r.i)) {
            Some(e) if *e <= r.snap_len => {}
            Some(e) => fails.push(format!("append {}/{} returned with {} bytes in the file, its frame ends at {}", r.t, r.i, r.snap_len, e)),
            None => {}
        }
        if r.snap_len > bytes.len() || fnv(&bytes[..r.snap_len]) != r.snap_fnv {
            fails.push(format!("file at return of {}/{} is not a prefix of the final file", r.t, r.i));
        }
        // durability, observed in-process: an fdatasync ISSUED when the file already held the
        // caller's frame had RETURNED when the call returned
        match end_of.get(&(r.t, r.i)) {
            Some(e) if (r.durable as usize) < *e => fails.push(format!(
                "append {}/{} returned Ok with successful fdatasync coverage up to byte {} only, its frame ends at {} (no fdatasync issued after its write had returned successfully)", r.t, r.i, r.durable, e)),
            Some(_) => rec.count("conc.appends_durable_at_return_in_process_probe"),
            None => {}
        }
    }
    for n in &run.notes {
        if n.contains("fsync()") {
            fails.push(n.clone());
        }
    }
    // the rounds of the fsync queue (plans that record events): every member of a round whose
    // call failed is told the error, every member of any other round is told Ok; the rounds with
    // their outcomes are what the model replays
    let mut sync_req = String::new();
    let mut sync_obs = String::new();
    let mut conclusive = run.conclusive;
    if plan.events {
        match fsync_rounds(&run.events) {
            Ok(rounds) => {
                let result_of = |m: &(usize, usize, u8)| -> Option<&str> {
                    if m.2 == 0 { run.rets.iter().find(|r| r.t == m.0 && r.i == m.1).map(|r| r.res.as_str()) } else { run.fsyncs.iter().find(|f| f.t == m.0 && f.i == m.1).map(|f| f.res.as_str()) }
                };
                let (mut rq, mut ob) = (vec![], vec![]);
                for (k, r) in rounds.iter().enumerate() {
                    let answers: Vec<Option<&str>> = r.members.iter().map(result_of).collect();
                    let all_ok = answers.iter().all(|a| *a == Some("ok"));
                    let all_err = answers.iter().all(|a| matches!(a, Some(x) if *x != "ok"));
                    let call_failed = matches!(r.call, Some((_, _, false)));
                    if call_failed && !all_err {
                        fails.push(format!("round {} of the fsync queue {:?}: its fdatasync failed and the members were answered {:?}", k, r.members, answers));
                    }
                    if !call_failed && !all_ok {
                        fails.push(format!("round {} of the fsync queue {:?}: no fdatasync of it failed and the members were answered {:?}", k, r.members, answers));
                    }
                    let mut ms = vec![];
                    for m in &r.members {
                        match (m.2, frame_of.get(&(m.0, m.1))) {
                            (1, _) => ms.push("0".to_string()),
                            (_, Some(f)) => ms.push(f.to_string()),
                            _ => fails.push(format!("member {}/{} of round {} has no frame in the file", m.0, m.1, k)),
                        }
                    }
                    let letter = match r.call { None => "n".to_string(), Some((_, len, true)) => format!("o{}", len), Some((_, len, false)) => format!("f{}", len) };
                    rq.push(format!("{}:{}", ms.join(","), letter));
                    ob.push(format!("{}{}@{}", &letter[..1], if all_ok { "T" } else if all_err { "F" } else { "M" }, r.durable_after));
                    rec.count(&format!("conc.rounds.{}", match r.call { None => "no_call_already_synced", Some((_, _, true)) => "call_ok", _ => "call_failed" }));
                    if call_failed && r.members.len() > 1 {
                        rec.count("conc.rounds.call_failed_with_2plus_members");
                    }
                }
                rec.add("conc.rounds", rounds.len() as u64);
                sync_req = format!(" sync {}", rq.join(" "));
                sync_obs = format!(" sync={}", ob.join(","));
                if plan.directed >= 3 {
                    let (n_y, has_p, _) = plan.roles;
                    let base = has_p as usize;
                    let threads_of = |r: &Round| { let mut v: Vec<usize> = r.members.iter().map(|m| m.0).collect(); v.sort(); v };
                    let failed = |r: &Round| matches!(r.call, Some((_, _, false)));
                    let succeeded = |r: &Round| matches!(r.call, Some((_, _, true)));
                    conclusive &= rounds.len() >= base + 2
                        && match plan.directed {
                            3 => {
                                let (a, b) = (threads_of(&rounds[base]), threads_of(&rounds[base + 1]));
                                a.len() == 1 && b.len() == 1 && a != b && a[0] <= 1 && b[0] <= 1 && failed(&rounds[base]) && end_of.get(&(0, 0)).is_some() && end_of.get(&(0, 0)) == end_of.get(&(1, 0))
                            }
                            4 => threads_of(&rounds[base]) == vec![0] && succeeded(&rounds[base]) && threads_of(&rounds[base + 1]) == (1..=n_y).collect::<Vec<_>>() && failed(&rounds[base + 1]),
                            _ => threads_of(&rounds[base]) == vec![0] && failed(&rounds[base]) && threads_of(&rounds[base + 1]) == (1..=n_y).collect::<Vec<_>>() && succeeded(&rounds[base + 1]),
                        };
                }
            }
            Err(m) => fails.push(format!("event log: {}", m)),
        }
    }
    if plan.directed != 0 {
        rec.count(&format!("conc.directed.kind{}.{}", plan.directed, if conclusive { "schedule_reached" } else { "schedule_not_reached" }));
    }
    if plan.fault.is_some() {
        rec.count(if failed_calls.is_empty() { "conc.fault.runs_without_a_failing_call_spec_not_reached" } else { "conc.fault.runs_with_a_failing_call" });
        rec.add("conc.fault.fdatasync_calls", run.calls.len() as u64);
        rec.add("conc.fault.fdatasync_calls_failed", failed_calls.len() as u64);
        rec.add("conc.fault.fdatasync_calls_failed_after_the_system_call_was_made", failed_calls.iter().filter(|c| c.syscall_made).count() as u64);
        rec.add("conc.fault.appends_returned_err", appends_err);
        rec.add("conc.fault.appends_returned_ok", run.rets.iter().filter(|r| r.res == "ok").count() as u64);
        rec.add("conc.fault.fsync_calls_returned_err", fsyncs_err);
        if failed_calls.iter().any(|c| run.calls.iter().any(|d| d.ok && d.k > c.k)) {
            rec.count("conc.fault.runs_with_a_successful_call_after_a_failed_one");
        }
    }
    // the seal covers what was written: the batches that are in the file
    let kvs: Vec<Kv> = plan.threads.iter().enumerate().flat_map(|(t, bs)| bs.iter().enumerate().filter(|(b, _)| seen.contains(&(t, *b))).flat_map(|(_, b)| b.iter().map(|e| e.kv())).collect::<Vec<_>>()).collect();
    if run.seal != expected_setsum(&kvs) {
        fails.push(format!("sealed setsum {}", run.seal));
    }
    // strace: an fdatasync of the log that started after the caller's bytes were written and
    // finished before the call returned
    if let Some(tr) = trace {
        // a directed plan that was run twice: only the last attempt wrote the file
        let tr = match tr.rfind("\"RESET\\n\"") {
            Some(p) => &tr[p..],
            None => tr,
        };
        let sys = parse_strace(tr, path);
        let mut cum = 0usize;
        let mut writes: Vec<(usize, usize)> = vec![]; // (exit line, cumulative bytes)
        for s in &sys {
            if s.on_log && s.name != "write" && s.name != "fdatasync" && s.name != "fsync" {
                fails.push(format!("unexpected syscall on the log: {}", s.text));
            }
            if s.on_log && s.name == "write" && s.ret > 0 {
                cum += s.ret as usize;
                writes.push((s.exit, cum));
            }
        }
        if cum != bytes.len() {
            fails.push(format!("strace saw {} bytes written, the file has {}", cum, bytes.len()));
        }
        let syncs: Vec<&Sys> = sys.iter().filter(|s| s.on_log && (s.name == "fdatasync" || s.name == "fsync") && s.ret == 0).collect();
        rec.add("conc.strace.fdatasyncs", syncs.len() as u64);
        rec.add("conc.strace.writes", writes.len() as u64);
        for r in &run.rets {
            let e = match end_of.get(&(r.t, r.i)) {
                Some(e) => *e,
                None => continue,
            };
            let m = format!("\"R {} {}\\n\"", r.t, r.i);
            let ret_line = sys.iter().find(|s| s.name == "write" && s.text.contains(&m)).map(|s| s.entry);
            let w_exit = writes.iter().find(|w| w.1 >= e).map(|w| w.0);
            match (ret_line, w_exit) {
                (Some(rl), Some(we)) => {
                    if we >= rl {
                        fails.push(format!("append {}/{} returned before its bytes were written", r.t, r.i));
                    } else if !syncs.iter().any(|s| s.entry > we && s.exit < rl) {
                        fails.push(format!("append {}/{} returned without an fdatasync covering offset {}", r.t, r.i, e));
                    } else {
                        rec.count("conc.strace.appends_with_covering_fdatasync");
                    }
                }
                _ => fails.push(format!("strace: no marker or write for {}/{}", r.t, r.i)),
            }
        }
    }
    rec.add("conc.appends", total as u64);
    rec.add("conc.sched.frames", groups.len() as u64);
    rec.add("conc.sched.frames_merging_2plus", groups.iter().filter(|g| g.len() > 1).count() as u64);
    rec.add("conc.sched.batches_in_merged_frames", groups.iter().filter(|g| g.len() > 1).map(|g| g.len() as u64).sum());
    if bytes.len() > BLOCK {
        rec.count("conc.files_over_a_block");
    }
    let req = format!("log w {}{}", groups_tok(&groups), sync_req);
    let obs = format!("{} read={}:{:016x}:{}{}", summary(&bytes), delivered.len(), hash, if fails.iter().any(|f| f.starts_with("final-read")) { "err" } else { "end" }, sync_obs);
    fails.truncate(4);
    let verdict = if fails.is_empty() { Verdict::Ok } else { Verdict::Fail { class: "concurrent".into(), detail: format!("[{}] {}", plan.desc, fails.join(" | ")) } };
    ConcOutcome { req, obs, verdict, conclusive, order, groups, end_of, frame_of }
}

/// plan number `i` of a run: free-running plans first, then the directed ones
fn plan_of(seed: u64, i: u64, thorough: bool) -> ConcPlan {
    let (n_free, _, _) = conc_counts(thorough);
    if i < n_free {
        conc_plan(seed, i, thorough)
    } else {
        directed_plan(seed, i, 1 + ((i - n_free) % 2) as u8)
    }
}

/// (free-running plans, directed plans, how many of each group run under strace)
fn conc_counts(thorough: bool) -> (u64, u64, u64) {
    if thorough { (140, 24, 40) } else { (18, 6, 4) }
}

fn conc_child(args: &Args) {
    // blueharness C12 --seed S --tier T --conc-child <index> <log path> <rets path>
    let i: u64 = args.rest[1].parse().unwrap();
    let path = &args.rest[2];
    let plan = plan_of(args.seed, i, args.thorough);
    let null = std::ffi::CString::new("/dev/null").unwrap();
    let fd = unsafe { libc::open(null.as_ptr(), libc::O_WRONLY) };
    let run = conc_execute(&plan, path, Some(fd));
    let mut s = String::new();
    match run {
        Ok(r) => {
            for x in &r.rets {
                s.push_str(&format!("ret {} {} {} {} {} {}\n", x.t, x.i, x.res, x.snap_len, x.snap_fnv, x.durable));
            }
            for n in &r.notes {
                s.push_str(&format!("note {}\n", n.replace('\n', " ")));
            }
            for f in r.fsyncs.iter().filter(|f| f.res != "ok") {
                s.push_str(&format!("note fsync() by thread {} failed: {}\n", f.t, f.res));
            }
            s.push_str(&format!("conclusive {}\n", r.conclusive));
            s.push_str(&format!("seal {}\n", r.seal));
        }
        Err(m) => s.push_str(&format!("panic {}\n", m.replace('\n', " "))),
    }
    std::fs::write(&args.rest[3], s).unwrap();
}

fn run_concurrent(args: &Args, rec: &mut Recorder, dir: &str) {
    let th = args.thorough;
    let (n_free, n_dir, n_traced) = conc_counts(th);
    let have_strace = std::process::Command::new("strace").arg("-V").output().map(|o| o.status.success()).unwrap_or(false);
    if !have_strace {
        rec.count("conc.strace_unavailable");
    }
    for i in 0..(n_free + n_dir) {
        if !rec.wants() {
            rec.skip();
            continue;
        }
        // the last `n_traced` free-running plans and the last two directed ones run in a child
        // under strace; all others in this process (the fdatasync probe observes both)
        let traced = have_strace && ((i < n_free && i >= n_free - n_traced) || i >= n_free + n_dir - 2);
        let plan = plan_of(args.seed, i, th);
        let path = format!("{}/conc-{}.log", dir, i);
        let nt = Some(fnv(format!("conc {} {} {}", i, plan.desc, plan.threads.iter().flatten().map(|b| groups_tok(&[vec![b.clone()]])).collect::<Vec<_>>().join(" ")).as_bytes()));
        rec.count(if traced { "conc.runs_under_strace" } else { "conc.runs_in_process" });
        if plan.directed == 0 {
            rec.count(&format!("conc.threads_{}", plan.threads.len()));
            rec.add("conc.fsync_calls_interleaved", (plan.fsync_before.iter().flatten().filter(|x| **x).count() + plan.fsync_only.iter().sum::<usize>()) as u64);
        }
        let (run, trace) = if traced {
            let rets = format!("{}/rets-{}.txt", dir, i);
            let tr = format!("{}/trace-{}.txt", dir, i);
            let exe = std::env::current_exe().unwrap();
            let st = std::process::Command::new("strace")
                .args(["-f", "-y", "-s", "64", "-e", "trace=write,pwrite64,writev,pwritev,fdatasync,fsync,ftruncate,sync_file_range", "-o", &tr])
                .arg(exe)
                .args(["C12", "--seed", &args.seed.to_string(), "--tier", if th { "thorough" } else { "quick" }, "--conc-child", &i.to_string(), &path, &rets])
                .status();
            let text = std::fs::read_to_string(&rets).unwrap_or_default();
            let mut run = ConcRun::failed(String::new(), vec![], true);
            let mut panic = None;
            for l in text.lines() {
                let t: Vec<&str> = l.split(' ').collect();
                match t[0] {
                    "ret" if t.len() == 7 => run.rets.push(Ret { t: t[1].parse().unwrap(), i: t[2].parse().unwrap_or(usize::MAX), res: t[3].into(), snap_len: t[4].parse().unwrap(), snap_fnv: t[5].parse().unwrap(), durable: t[6].parse().unwrap(), begin_tick: 0, end_tick: 0 }),
                    "seal" => run.seal = t.get(1).unwrap_or(&"").to_string(),
                    "note" => run.notes.push(t[1..].join(" ")),
                    "conclusive" => run.conclusive = t.get(1) == Some(&"true"),
                    "panic" => panic = Some(l.to_string()),
                    _ => {}
                }
            }
            let trace = std::fs::read_to_string(&tr).unwrap_or_default();
            let _ = std::fs::remove_file(&rets);
            let _ = std::fs::remove_file(&tr);
            if st.is_err() || text.is_empty() {
                panic = Some(format!("traced child failed: {:?}", st));
            }
            (match panic { Some(p) => Err(p), None => Ok(run) }, Some(trace))
        } else {
            (conc_execute(&plan, &path, None), None)
        };
        match run {
            Ok(run) => {
                let out = conc_analyse(rec, &plan, &path, &run, trace.as_deref());
                rec.case(&out.req, &out.obs, out.verdict, nt);
            }
            Err(m) => rec.case("log w", "panic", Verdict::Fail { class: "concurrent-panic".into(), detail: format!("[{}] {}", plan.desc, m) }, nt),
        }
        let _ = std::fs::remove_file(&path);
    }
}

// ---------------------------------------------------------------------------------------------
// stream 7: directed padding, every length, read back through the reader's zero check
// (runs after the concurrent stream: the case numbers of the older streams stay what they were)
fn run_padding(args: &Args, rec: &mut Recorder) {
    let n_pad = if args.thorough { 80 } else { 26 };
    for i in 0..n_pad {
        if !rec.wants() {
            rec.skip();
            continue;
        }
        let mut rng = Rng::for_case(args.seed, 7, i);
        let case = (0..50).find_map(|_| gen_padding(i, &mut rng));
        let case = match case {
            Some(c) => c,
            None => {
                rec.count("pad.generator_gave_up");
                rec.corr("log w", &format!("{} read=0:{:016x}:end", summary(&[]), FNV_INIT), None);
                continue;
            }
        };
        let (rb, wb) = (gen_knob(&mut rng), gen_knob(&mut rng));
        let (req, obs, v, bytes) = case_write(&case.groups, rb, wb, None);
        rec.count("pad");
        rec.count(&format!("pad.kind.{}", case.kind));
        if let Some(b) = &bytes {
            structure_counters(rec, "pad", b);
            // the generator's plan, checked on the bytes the real writer produced: the padding run
            // is there, it is all zero, and a frame starts right after it
            let planned = match walk(b) {
                Ok((fr, pads)) => pads.contains(&case.pad) && b[case.pad.0..case.pad.1].iter().all(|x| *x == 0) && fr.iter().any(|f| f.start == case.pad.1),
                Err(_) => false,
            };
            rec.count(if planned { "pad.layout_as_planned" } else { "pad.layout_not_as_planned" });
        }
        rec.case(&req, &obs, v, Some(fnv(req.as_bytes())));
    }
}

// ---------------------------------------------------------------------------------------------
// stream 8: concurrent appends with a FAILING fdatasync (after the older streams: their case
// numbers stay what they were).  In-process only: the failure is the probe's.
fn fault_counts(thorough: bool) -> (u64, u64) {
    if thorough { (90, 30) } else { (15, 9) }
}

fn fault_plan_of(seed: u64, i: u64, thorough: bool) -> ConcPlan {
    let (n_free, _) = fault_counts(thorough);
    if i < n_free {
        fault_plan(seed, i, thorough)
    } else {
        directed_fault_plan(seed, i, 3 + ((i - n_free) % 3) as u8)
    }
}

fn run_concurrent_faults(args: &Args, rec: &mut Recorder, dir: &str) {
    let (n_free, n_dir) = fault_counts(args.thorough);
    for i in 0..(n_free + n_dir) {
        if !rec.wants() {
            rec.skip();
            continue;
        }
        let plan = fault_plan_of(args.seed, i, args.thorough);
        let path = format!("{}/fault-{}.log", dir, i);
        let nt = Some(fnv(format!("fault {} {} {}", i, plan.desc, plan.threads.iter().flatten().map(|b| groups_tok(&[vec![b.clone()]])).collect::<Vec<_>>().join(" ")).as_bytes()));
        rec.count("conc.fault.runs");
        let f = plan.fault.as_ref().unwrap();
        rec.count(&format!("conc.fault.spec.{}", f.kind));
        rec.count(if f.real { "conc.fault.mode.system_call_made_then_failure_reported" } else { "conc.fault.mode.no_system_call" });
        if plan.directed == 0 {
            rec.count(&format!("conc.fault.threads_{}", plan.threads.len()));
        }
        // a directed schedule that was not reached is staged again (the verdict of the attempt
        // that is kept does not depend on it: the oracle holds in every schedule)
        let mut attempt = 0;
        loop {
            attempt += 1;
            let saved = rec.counters.clone();
            let out = match conc_execute(&plan, &path, None) {
                Ok(run) => Ok(conc_analyse(rec, &plan, &path, &run, None)),
                Err(m) => Err(m),
            };
            let _ = std::fs::remove_file(&path);
            let retry = plan.directed != 0 && attempt < 4 && matches!(&out, Ok(o) if !o.conclusive && matches!(o.verdict, Verdict::Ok));
            if retry {
                rec.counters = saved;
                rec.count("conc.fault.directed.attempts_repeated");
                continue;
            }
            match out {
                Ok(out) => rec.case(&out.req, &out.obs, out.verdict, nt),
                Err(m) => rec.case("log w", "panic", Verdict::Fail { class: "concurrent-panic".into(), detail: format!("[{}] {}", plan.desc, m) }, nt),
            }
            break;
        }
    }
}

// ---------------------------------------------------------------------------------------------
// stream 9: the composed model `Blue.ConcLog` replayed AS A WHOLE on real multi-threaded runs
// (after the older streams: their case numbers stay what they were).  A run of N appender threads
// (no `fsync()` callers: they are not in the model), fault free or with a failing fdatasync, free
// running or one of the three directed failure schedules.  From what is observed — the final file
// (which callers were coalesced into which record, in which order), the sync42 event log (rounds of
// the fsync queue in the order they ran, members in hand-out order), the probe (file length when
// each fdatasync was issued, its result), every caller's answer — an event list of the model is
// built:
//   L<batch>   `link buf`   callers in write-queue link order = order of the buffers in the file
//   W<n>       `write n`    one per record
//   F<i>       `flink i`    members of a round, before its `fenter`
//   E<n> R<ok> `fenter n` / `fret ok`   per round (R only when a call was made)
// The interleaving of W with E is fixed by the probe: a call issued at file length L sees exactly
// the records that end at or before L (a record whose write was in progress when the length was
// read is not yet in the model's file; counter conclog.fdatasync_issued_mid_record).  The order of
// the F events inside a round is the hand-out order; the model's observations do not depend on it
// (the driver runs the reversed order too and compares: `ord=1`).
fn conclog_counts(thorough: bool) -> u64 {
    if thorough { 96 } else { 24 }
}

fn conclog_plan(seed: u64, i: u64, thorough: bool) -> ConcPlan {
    let mut plan = match i % 4 {
        3 => return directed_fault_plan(seed, 1000 + i, 3 + ((i / 4) % 3) as u8),
        // an index that is never `heavy` in `conc_plan`
        _ => conc_plan(seed, 200_000 + i * 10, thorough),
    };
    // no fsync() callers; values capped (the model is run several times per case)
    for bs in plan.threads.iter_mut() {
        for b in bs.iter_mut() {
            for e in b.iter_mut() {
                if let Bs::Gen(s, n) = e.val {
                    e.val = Bs::Gen(s, n.min(3000));
                }
            }
        }
    }
    plan.fsync_before = plan.threads.iter().map(|b| vec![false; b.len()]).collect();
    plan.fsync_only = vec![];
    plan.events = true;
    plan.desc = format!("conclog threads={} per={}", plan.threads.len(), plan.threads[0].len());
    if i % 4 == 2 {
        let mut rng = Rng::for_case(seed, 10, i);
        let appends: u64 = plan.threads.iter().map(|b| b.len() as u64).sum();
        let (from, to, kind) = match (i / 4) % 3 {
            0 => { let k = 1 + rng.below(3); (k, k + 1, "kth") }
            1 => { let k = 1 + rng.below(4); (k, u64::MAX, "from-kth-on") }
            _ => { let k = 2 + rng.below((appends / 3).max(1)); (k, k + 2, "middle-two") }
        };
        let real = rng.chance(1, 3);
        plan.fault = Some(Fault { from, to, real, kind });
        plan.desc = format!("{} fault={}:{}{}", plan.desc, kind, from, if real { ":syscall-made" } else { "" });
    }
    plan
}

const CONCLOG_LIM: usize = 1 << 20;

/// request, observation and model-independent verdict of one run
fn conclog_case(rec: &mut Recorder, plan: &ConcPlan, bytes: &[u8], run: &ConcRun, out: &ConcOutcome) -> (String, String, Verdict) {
    use std::collections::BTreeMap;
    let mut fails: Vec<(String, String)> = vec![];
    let total: usize = plan.threads.iter().map(|b| b.len()).sum();
    // callers = buffers in file order
    let cidx: BTreeMap<(usize, usize), usize> = out.order.iter().enumerate().map(|(c, k)| (*k, c)).collect();
    if out.order.len() != total || cidx.len() != total {
        fails.push(("caller-not-in-file-once".into(), format!("{} of {} buffers are in the file", cidx.len(), total)));
    }
    // records, straight from the bytes: the file is the concatenation of the records (the walker
    // accounts for every byte: frames and zero padding before a block boundary), and the buffers
    // in file order fill them exactly: no buffer straddles a record boundary
    let mut rec_size: Vec<usize> = vec![];
    let mut rec_end: Vec<usize> = vec![];
    match walk(bytes).and_then(|(fr, _)| logical(&fr)) {
        Ok(lf) => {
            for (sz, e) in lf {
                rec_size.push(sz);
                rec_end.push(e);
            }
        }
        Err(m) => fails.push(("file-not-concatenation-of-records".into(), m)),
    }
    // per caller: (record, offset inside the record's payload)
    let mut place: Vec<(usize, usize)> = vec![];
    let mut n_of: Vec<usize> = vec![0; rec_size.len()];
    {
        let (mut k, mut off) = (0usize, 0usize);
        for (t, b) in &out.order {
            let sz = batch_size(&plan.threads[*t][*b]);
            while k < rec_size.len() && off == rec_size[k] {
                k += 1;
                off = 0;
            }
            if k >= rec_size.len() {
                fails.push(("file-not-concatenation-of-records".into(), format!("buffer {}/{} lies behind the last record", t, b)));
                break;
            }
            if off + sz > rec_size[k] {
                fails.push(("caller-split-across-records".into(), format!("buffer {}/{} ({} bytes) starts at offset {} of record {} which holds {} bytes", t, b, sz, off, k, rec_size[k])));
                break;
            }
            place.push((k, off));
            n_of[k] += 1;
            off += sz;
        }
        if fails.is_empty() && !(k + 1 == rec_size.len() && off == rec_size[k] || rec_size.is_empty() && out.order.is_empty()) {
            fails.push(("file-not-concatenation-of-records".into(), format!("the buffers end at offset {} of record {} of {}", off, k, rec_size.len())));
        }
    }
    // every caller is answered exactly once
    let mut ans: Vec<Vec<String>> = vec![vec![]; out.order.len()];
    for r in &run.rets {
        match cidx.get(&(r.t, r.i)) {
            Some(c) => ans[*c].push(match r.res.as_str() { "ok" => "ok".into(), "corruption-fsync-failed" => "err".into(), x => x.to_string() }),
            None => fails.push(("caller-not-answered-once".into(), format!("answer {} for {}/{} whose buffer is not in the file", r.res, r.t, r.i))),
        }
    }
    for (c, a) in ans.iter().enumerate() {
        if a.len() != 1 {
            fails.push(("caller-not-answered-once".into(), format!("caller {} ({:?}) was answered {} times", c, out.order[c], a.len())));
        }
    }
    // an Ok caller's record lies inside the prefix that was in the file when some SUCCESSFUL
    // fdatasync was issued, and that call had returned when the append returned
    for r in run.rets.iter().filter(|r| r.res == "ok") {
        let e = match cidx.get(&(r.t, r.i)).and_then(|c| place.get(*c)).and_then(|p| rec_end.get(p.0)) {
            Some(e) => *e as u64,
            None => continue,
        };
        if !run.calls.iter().any(|c| c.ok && c.len >= e && c.ret_tick < r.end_tick) {
            let best = run.calls.iter().filter(|c| c.ok && c.ret_tick < r.end_tick).map(|c| c.len).max();
            fails.push(("ack-not-covered-by-successful-sync".into(), format!("append {}/{} returned Ok, its record ends at {}, the longest prefix covered by a successful fdatasync that had returned is {:?}", r.t, r.i, e, best)));
        }
    }
    // the rounds of the fsync queue
    let rounds = match fsync_rounds(&run.events) {
        Ok(r) => r,
        Err(m) => {
            fails.push(("event-log".into(), m));
            vec![]
        }
    };
    let mut in_round = vec![0usize; out.order.len()];
    for r in &rounds {
        for m in &r.members {
            match (m.2, cidx.get(&(m.0, m.1))) {
                (0, Some(c)) => in_round[*c] += 1,
                _ => fails.push(("event-log".into(), format!("member {:?} of a round is not an append of the plan", m))),
            }
        }
    }
    // the reconstruction itself failed (as opposed to: the run violates the property)
    let broken = |fails: &Vec<(String, String)>| fails.iter().any(|f| matches!(f.0.as_str(), "caller-not-in-file-once" | "file-not-concatenation-of-records" | "caller-split-across-records" | "event-log"));
    if !broken(&fails) && in_round.iter().any(|n| *n != 1) {
        fails.push(("caller-not-answered-once".into(), format!("rounds of the fsync queue per caller: {:?}", in_round)));
    }
    if rounds.iter().filter(|r| r.call.is_some()).count() != run.calls.len() && plan.directed == 0 {
        fails.push(("event-log".into(), format!("{} rounds made a call, the probe saw {}", rounds.iter().filter(|r| r.call.is_some()).count(), run.calls.len())));
    }
    // the event list
    let mut evs: Vec<String> = vec![];
    let mut written_recs = 0usize; // records written so far
    let mut next_caller = 0usize;
    let mut synced_list: Vec<String> = vec![];
    let mut synced = 0usize;
    let mut core = 0usize;
    let mut cum_payload: Vec<usize> = vec![];
    {
        let mut a = 0;
        for s in &rec_size {
            a += s;
            cum_payload.push(a);
        }
    }
    let emit_write = |evs: &mut Vec<String>, written_recs: &mut usize, next_caller: &mut usize| {
        let n = n_of[*written_recs];
        for c in *next_caller..*next_caller + n {
            let (t, b) = out.order[c];
            evs.push(format!("L{}", plan.threads[t][b].iter().map(|e| e.tok()).collect::<Vec<_>>().join("+")));
        }
        evs.push(format!("W{}", n));
        *next_caller += n;
        *written_recs += 1;
    };
    if !broken(&fails) {
        for r in &rounds {
            let members: Vec<usize> = r.members.iter().map(|m| cidx[&(m.0, m.1)]).collect();
            let need = members.iter().map(|c| place[*c].0 + 1).max().unwrap_or(0);
            let len = r.call.map(|c| c.1 as usize);
            while written_recs < rec_end.len() && (written_recs < need || len.map_or(false, |l| rec_end[written_recs] <= l)) {
                emit_write(&mut evs, &mut written_recs, &mut next_caller);
            }
            for c in &members {
                evs.push(format!("F{}", c));
            }
            evs.push(format!("E{}", members.len()));
            rec.count(&format!("conclog.rounds.{}", match r.call { None => "no_call_already_synced", Some((_, _, true)) => "call_ok", _ => "call_failed" }));
            if members.len() > 1 {
                rec.count("conclog.rounds.with_2plus_members");
            }
            if let Some((_, l, ok)) = r.call {
                evs.push(format!("R{}", ok as u8));
                let floor = rec_end.iter().take(written_recs).last().copied().unwrap_or(0);
                if floor != l as usize {
                    rec.count("conclog.fdatasync_issued_mid_record");
                }
                if written_recs < rec_end.len() {
                    rec.count("conclog.fdatasync_issued_before_the_last_write");
                }
                if ok {
                    synced = synced.max(floor);
                    core = members.iter().map(|c| cum_payload[place[*c].0]).max().unwrap_or(core);
                }
                synced_list.push(synced.to_string());
            }
        }
        while written_recs < rec_end.len() {
            emit_write(&mut evs, &mut written_recs, &mut next_caller);
        }
    }
    rec.add("conclog.callers", out.order.len() as u64);
    rec.add("conclog.records", rec_size.len() as u64);
    rec.add("conclog.records_merging_2plus", n_of.iter().filter(|n| **n > 1).count() as u64);
    rec.add("conclog.events", evs.len() as u64);
    rec.add("conclog.answers_err", ans.iter().filter(|a| a.iter().any(|x| x == "err")).count() as u64);
    let req = format!("conclog lim={} :: {}", CONCLOG_LIM, evs.join(" "));
    let dash = |v: Vec<String>| if v.is_empty() { "-".to_string() } else { v.join(",") };
    let obs = format!("len={} fnv={:016x} ans={} wr={} written={} synced={} core={} seq=1 dur=1 ord=1",
        bytes.len(), fnv(bytes),
        dash(ans.iter().map(|a| if a.len() == 1 { a[0].clone() } else if a.is_empty() { "-".into() } else { "multi".into() }).collect()),
        dash(place.iter().map(|p| format!("{}.{}", p.0, p.1)).collect()),
        rec_size.iter().sum::<usize>(), dash(synced_list), core);
    let verdict = match (fails.first(), &out.verdict) {
        (Some((class, _)), _) => Verdict::Fail { class: class.clone(), detail: format!("[{}] {}", plan.desc, fails.iter().take(4).map(|f| format!("{}: {}", f.0, f.1)).collect::<Vec<_>>().join(" | ")) },
        (None, Verdict::Fail { class, detail }) => Verdict::Fail { class: class.clone(), detail: detail.clone() },
        (None, _) => Verdict::Ok,
    };
    (req, obs, verdict)
}

fn run_conclog(args: &Args, rec: &mut Recorder, dir: &str) {
    for i in 0..conclog_counts(args.thorough) {
        if !rec.wants() {
            rec.skip();
            continue;
        }
        let plan = conclog_plan(args.seed, i, args.thorough);
        let path = format!("{}/conclog-{}.log", dir, i);
        let nt = Some(fnv(format!("conclog {} {} {}", i, plan.desc, plan.threads.iter().flatten().map(|b| groups_tok(&[vec![b.clone()]])).collect::<Vec<_>>().join(" ")).as_bytes()));
        rec.count("conclog.runs");
        rec.count(if plan.directed != 0 { "conclog.runs.directed_failure_schedule" } else if plan.fault.is_some() { "conclog.runs.free_running_with_failing_fdatasync" } else { "conclog.runs.free_running_fault_free" });
        let mut attempt = 0;
        loop {
            attempt += 1;
            let saved = rec.counters.clone();
            let res = match conc_execute(&plan, &path, None) {
                Ok(run) => {
                    // the older analysis (its counters belong to streams 6 and 8: dropped here)
                    let out = conc_analyse(rec, &plan, &path, &run, None);
                    rec.counters = saved.clone();
                    let bytes = std::fs::read(&path).unwrap_or_default();
                    let r = conclog_case(rec, &plan, &bytes, &run, &out);
                    Ok((r, out.conclusive, run.calls.iter().any(|c| !c.ok)))
                }
                Err(m) => Err(m),
            };
            let _ = std::fs::remove_file(&path);
            let retry = plan.directed != 0 && attempt < 4 && matches!(&res, Ok((r, c, _)) if !*c && matches!(r.2, Verdict::Ok));
            if retry {
                rec.counters = saved;
                rec.count("conclog.directed.attempts_repeated");
                continue;
            }
            match res {
                Ok(((req, obs, v), conclusive, any_failed)) => {
                    if plan.directed != 0 {
                        rec.count(if conclusive { "conclog.directed.schedule_reached" } else { "conclog.directed.schedule_not_reached" });
                    }
                    if any_failed {
                        rec.count("conclog.runs_with_a_failed_fdatasync");
                    }
                    rec.case(&req, &obs, v, nt)
                }
                Err(m) => rec.case("conclog bad", "panic", Verdict::Fail { class: "concurrent-panic".into(), detail: format!("[{}] {}", plan.desc, m) }, nt),
            }
            break;
        }
    }
}

pub fn run(args: &Args) {
    if args.rest.first().map(|s| s.as_str()) == Some("--conc-child") {
        conc_child(args);
        return;
    }
    let mut rec = Recorder::new(&args.out, args.only_case);
    let dir = format!("/var/tmp/blue-c12-{}-{}", std::process::id(), args.seed);
    std::fs::create_dir_all(&dir).unwrap();
    run_sequential(args, &mut rec);
    run_concurrent(args, &mut rec, &dir);
    run_padding(args, &mut rec);
    run_concurrent_faults(args, &mut rec, &dir);
    run_conclog(args, &mut rec, &dir);
    let _ = std::fs::remove_dir_all(&dir);
    rec.finish(
        "nine seeded streams: small batch sequences; >=1 MiB files whose frames end 0..21 bytes before a block boundary / on it / 1..24 and many bytes past it, tiny (8-byte) and maximal (MAX_BATCH_SIZE-1..BLOCK_SIZE) batches; every truncation of small files; every cut within +-64 (thorough +-96) bytes of every frame/header/padding/block boundary near the block boundary of >=1 MiB files; header/length/padding mutations of small files (reader correspondence only); directed padding (a frame ending exactly 1..=19 bytes before a block boundary followed by an append that does not fit, and split appends whose FIRST frame is followed by 9/8/7 zero bytes, in the first block and behind a padded first block: every length of real padding read back through the reader's check that skipped bytes are zero); 2..8 threads through ConcurrentLogBuilder on a real file with fsync() callers interleaved, plus two directed schedules (one or two appends, then an fsync() caller, queued behind an fsync leader held inside fdatasync); durability at return observed by an in-process fdatasync probe in every run and by strace in some; the same with a FAILING fdatasync (stream 8: the probe makes the k-th call of the log, every call from the k-th on, or one in the middle return -1/EIO, with or without making the system call; free-running 2..8 threads, and three directed schedules: two appends of one coalesced write whose first fdatasync fails while the other queues for the next round, a failing round of several appenders behind a held leader, a failed leader followed by a successful round), where Ok needs a successfully returned fdatasync, an error needs a failed one in progress, and the observed rounds of the fsync queue are replayed by the model; the composed model Blue.ConcLog replayed as a whole (stream 9: appender threads only, fault free / failing fdatasync / the three directed failure schedules; the observed merge, the rounds of the fsync queue and the file length at every fdatasync become an event list link/write/flink/fenter/fret, and file, per-caller answer and place, written, synced length after every call are compared). Non-trivial = a sequence of >= 2 appends, any boundary/truncation/mutation case, any concurrent run; distinct by request text (concurrent runs: by plan, since the grouping into frames is schedule dependent; counters named conc.sched.* vary between runs of one seed)",
        &[],
    );
}
