//! Single-threaded driver of the real `KeyValueStore`: deterministic histories of
//! put / del / batch / flush / compaction step / reopen with the flush and compaction loops
//! single-stepped through the `rescrv_blue_verif` hooks, a sequential oracle, and dumps of the
//! store's state (memtable, immutable memtable, every file of every level with all its versions).
use crate::common::*;
use std::collections::BTreeMap;
use std::ops::Bound;

use lsmtk::{KeyValueStore, LsmtkOptions};
use sst::Cursor;

/// class of known finding D-28 (see `Sim::verifier_reject_class`)
pub const D28: &str = "sst-removed-recreated-removed-across-fragments";

pub type Ent = (Vec<u8>, u64, Option<Vec<u8>>); // key, timestamp, value | tombstone

#[derive(Clone, Debug)]
pub struct Cfg {
    pub memtable_bytes: u64,
    pub target_file: u64,
    pub min_file: u64,
    pub target_block: u64,
    pub l0_mandatory_files: u64,
    pub l0_stall_files: u64,
    pub max_compaction_files: u64,
    pub gc_versions: u64,
    pub mani_ratio: u64,
}

impl Cfg {
    pub fn gen(rng: &mut Rng) -> Cfg {
        Cfg {
            memtable_bytes: *rng.pick(&[64, 200, 1024, 1 << 20]),
            target_file: *rng.pick(&[128, 512, 4096, 1 << 22]),
            min_file: *rng.pick(&[64, 256, 1 << 12]),
            target_block: *rng.pick(&[64, 256, 4096]),
            l0_mandatory_files: *rng.pick(&[1, 2, 4]),
            l0_stall_files: *rng.pick(&[4, 6, 12]),
            max_compaction_files: *rng.pick(&[8, 16, 64]),
            gc_versions: *rng.pick(&[1, 1, 2, 3]),
            mani_ratio: *rng.pick(&[1, 2, 10]),
        }
    }
    pub fn render(&self) -> String {
        format!(
            "mem={} tf={} mf={} tb={} l0m={} l0s={} mcf={} gc={} mr={}",
            self.memtable_bytes, self.target_file, self.min_file, self.target_block, self.l0_mandatory_files, self.l0_stall_files, self.max_compaction_files, self.gc_versions, self.mani_ratio
        )
    }
    pub fn options(&self, path: &str) -> LsmtkOptions {
        use arrrg::CommandLine;
        let args: Vec<String> = vec![
            "--path".into(),
            path.into(),
            "--memtable-size-bytes".into(),
            self.memtable_bytes.to_string(),
            "--sst-target-file-size".into(),
            self.target_file.to_string(),
            "--sst-minimum-file-size".into(),
            self.min_file.to_string(),
            "--sst-target-block-size".into(),
            self.target_block.to_string(),
            "--l0-mandatory-compaction-threshold-files".into(),
            self.l0_mandatory_files.to_string(),
            "--l0-write-stall-threshold-files".into(),
            self.l0_stall_files.to_string(),
            "--max-compaction-files".into(),
            self.max_compaction_files.to_string(),
            "--gc-policy".into(),
            format!("versions = {}", self.gc_versions),
            "--mani-log-rollover-ratio".into(),
            self.mani_ratio.to_string(),
        ];
        let refs: Vec<&str> = args.iter().map(|s| s.as_str()).collect();
        let (opts, free) = LsmtkOptions::from_arguments_relaxed("blueharness", &refs);
        assert!(free.is_empty(), "free args: {:?}", free);
        opts
    }
}

#[derive(Clone, Debug)]
pub enum Op {
    Put(Vec<u8>, Vec<u8>),
    Del(Vec<u8>),
    Batch(Vec<(Vec<u8>, Option<Vec<u8>>)>),
    Flush,
    Compact(u64),
    Reopen,
    /// one pass of the offline verifier (LsmVerifier::verify), which unlinks verified trash
    Verify,
}

impl Op {
    pub fn render(&self) -> String {
        match self {
            Op::Put(k, v) => format!("put:{}:{}", hex(k), hex(v)),
            Op::Del(k) => format!("del:{}", hex(k)),
            Op::Batch(es) => format!(
                "batch:{}",
                es.iter()
                    .map(|(k, v)| match v {
                        Some(v) => format!("{}={}", hex(k), hex(v)),
                        None => format!("{}!", hex(k)),
                    })
                    .collect::<Vec<_>>()
                    .join(",")
            ),
            Op::Flush => "flush".into(),
            Op::Compact(n) => format!("compact:{}", n),
            Op::Reopen => "reopen".into(),
            Op::Verify => "verify".into(),
        }
    }
}

pub const ALPHABET: &[&[u8]] = &[b"", b"a", b"a\0", b"aa", b"ab", b"b", b"b\xff", b"\xff", b"\xff\xff", b"m", b"ma", b"z"];

pub fn gen_key(rng: &mut Rng, nkeys: usize) -> Vec<u8> {
    ALPHABET[rng.below(nkeys as u64) as usize].to_vec()
}

pub fn gen_val(rng: &mut Rng, counter: &mut u64) -> Vec<u8> {
    *counter += 1;
    let mut v = format!("v{}", counter).into_bytes();
    if rng.chance(1, 6) {
        let n = rng.range(20, 90) as usize;
        v.extend(std::iter::repeat(b'.').take(n));
    }
    v
}

/// a history: mostly-valid, tombstone-heavy, with flushes, compaction steps and reopens.
/// `mode` 0: balanced; 1: flush-heavy with compaction withheld and then run in bursts (level 0
/// fills up, merging compactions and garbage collection at the last level become necessary);
/// 2: few keys, many versions, every write followed by a flush.
pub fn gen_history(rng: &mut Rng, len: usize, nkeys: usize, mode: u64) -> Vec<Op> {
    let mut ops = vec![];
    let mut counter = 0u64;
    let (p_put, p_del, p_batch, p_flush, p_compact) = match mode {
        0 => (34, 52, 62, 78, 94),
        1 => (30, 42, 50, 84, 88),
        _ => (30, 45, 50, 90, 95),
    };
    while ops.len() < len {
        let r = rng.below(100);
        let op = if r < p_put {
            Op::Put(gen_key(rng, nkeys), gen_val(rng, &mut counter))
        } else if r < p_del {
            Op::Del(gen_key(rng, nkeys))
        } else if r < p_batch {
            // batch over distinct keys (a batch naming one key twice is D-16, routed separately)
            let n = rng.range(2, 4) as usize;
            let mut ks: Vec<usize> = (0..nkeys).collect();
            rng.shuffle(&mut ks);
            let es = ks
                .into_iter()
                .take(n.min(nkeys))
                .map(|i| {
                    let k = ALPHABET[i].to_vec();
                    if rng.chance(1, 3) {
                        (k, None)
                    } else {
                        (k, Some(gen_val(rng, &mut counter)))
                    }
                })
                .collect();
            Op::Batch(es)
        } else if r < p_flush {
            Op::Flush
        } else if r < p_compact {
            // compaction steps are taken one at a time so that each choice is observed on the
            // state it was made in
            let burst = if mode == 1 { rng.range(0, 12) } else { rng.range(0, 2) };
            for _ in 0..burst {
                ops.push(Op::Compact(1));
            }
            Op::Compact(1)
        } else if r < 98 {
            Op::Reopen
        } else {
            Op::Verify
        };
        ops.push(op);
    }
    ops
}

/// one file of the dumped version
#[derive(Clone, Debug)]
pub struct FileDump {
    pub setsum: [u8; 32],
    pub first_key: Vec<u8>,
    pub last_key: Vec<u8>,
    pub smallest_ts: u64,
    pub biggest_ts: u64,
    pub file_size: u64,
    pub entries: Vec<Ent>,
}

#[derive(Clone, Debug, Default)]
pub struct StateDump {
    pub mem: Vec<Ent>,
    pub imm: Option<Vec<Ent>>,
    pub levels: Vec<Vec<FileDump>>,
    pub seq_no: u64,
}

fn render_ents(es: &[Ent]) -> String {
    if es.is_empty() {
        return "-".into();
    }
    es.iter()
        .map(|(k, t, v)| match v {
            Some(v) => format!("{}@{}={}", hex(k), t, hex(v)),
            None => format!("{}@{}!", hex(k), t),
        })
        .collect::<Vec<_>>()
        .join(",")
}

impl StateDump {
    /// `ts=<seq> mem=<ents> imm=<ents|none> L<level>=<first>..<last>[<ents>];… `
    pub fn render(&self) -> String {
        let mut s = format!("ts={} mem={} imm={}", self.seq_no, render_ents(&self.mem), match &self.imm {
            Some(e) => render_ents(e),
            None => "none".into(),
        });
        for (i, l) in self.levels.iter().enumerate() {
            for f in l {
                s.push_str(&format!(" L{}:{}:{}:{}:{}:{}", i, hex(&f.first_key), hex(&f.last_key), f.smallest_ts, f.biggest_ts, render_ents(&f.entries)));
            }
        }
        s
    }
    pub fn all_entries(&self) -> Vec<Ent> {
        let mut v = self.mem.clone();
        if let Some(i) = &self.imm {
            v.extend(i.iter().cloned());
        }
        for l in &self.levels {
            for f in l {
                v.extend(f.entries.iter().cloned());
            }
        }
        v
    }
    pub fn depth(&self) -> usize {
        self.levels.iter().rposition(|l| !l.is_empty()).map(|x| x + 1).unwrap_or(0)
    }
    pub fn nfiles(&self) -> usize {
        self.levels.iter().map(|l| l.len()).sum()
    }
}

pub struct Sim {
    pub root: String,
    pub cfg: Cfg,
    pub kvs: Option<KeyValueStore>,
    /// sequential oracle: key -> latest write (None = deleted)
    pub oracle: BTreeMap<Vec<u8>, Option<Vec<u8>>>,
    pub flushes: u64,
    pub compactions: u64,
    pub reopens: u64,
    pub stalled_unselectable: u64,
    pub verifier_passes: u64,
    pub verifier_backoffs: u64,
    /// what the last verifier pass returned: "ok", "backoff:<name>" or "error:<text>"
    pub last_verify: String,
    /// the whole text of the error the last verifier pass returned (empty otherwise)
    pub last_verify_full: String,
    /// manifest history as the harness saw it: per fragment file name the number of edits already
    /// recorded, and per SST digest the (edit ordinal, '+'|'-') events in order
    /// what the observer saw at the labelled points inside flushes and compactions: complaints
    pub probe_failures: Vec<String>,
    pub probes_run: u64,
    pub frag_seen: BTreeMap<String, usize>,
    pub sst_events: BTreeMap<String, Vec<(u64, char)>>,
    pub edit_ordinal: u64,
    /// every compaction the selector chose, with the store state it was chosen in
    pub chosen: Vec<(StateDump, lsmtk::verif::ChosenCompaction)>,
    /// every tree step that was performed (compaction step, flush), in order, with the tree before
    /// and after it (taken by `C01`)
    pub applied: Vec<Applied>,
    /// record `applied` (off unless a check asks: nothing changes for the other users of `Sim`)
    pub record_applied: bool,
    /// entries of files already read, by setsum (a file's name is the setsum of its contents);
    /// filled by `dump`, read only by `levels_cached`
    pub ent_cache: EntCache,
    /// every write / refused write / memtable rotation / flush, with the state of the history
    /// model `Blue.StoreHist` before and after it (taken by `C01`)
    pub hist: Vec<HistStep>,
    /// record `hist` (off unless a check asks: nothing changes for the other users of `Sim`)
    pub record_hist: bool,
    /// the state the observer saw at `flush.rotated` (between the rotation and the ingest)
    pub hist_mid: std::rc::Rc<std::cell::RefCell<Option<HistState>>>,
}

/// what the history model `Blue.StoreHist` steps on: memtable and immutable memtable in cursor
/// order, `seq_no`, `visible_seq_no` (read off the `kvs.load.ts` event of a point read: the hooks
/// have no accessor for it) and level 0 in the order the version holds it
#[derive(Clone, Debug)]
pub struct HistState {
    pub mem: Vec<Ent>,
    pub imm: Option<Vec<Ent>>,
    pub seq: u64,
    pub vis: u64,
    pub l0: Vec<FileDump>,
}

/// `op`: `write k[!],…` | `reject k[!],…` | `rollover` | `flush`
#[derive(Clone, Debug)]
pub struct HistStep {
    pub op: String,
    pub before: HistState,
    pub after: HistState,
}

/// the timestamp a read is made at (`state.visible_seq_no`), as the event `kvs.load.ts` of one
/// point read reports it.  Turns the event log on and off again: for checks that do not use it.
pub fn visible_seq_no(kvs: &KeyValueStore) -> Result<u64, String> {
    let _ = lsmtk::verif::take_events();
    lsmtk::verif::events_enable(true);
    let mut tomb = false;
    let r = kvs.load(b"", &mut tomb);
    lsmtk::verif::events_enable(false);
    let evs = lsmtk::verif::take_events();
    r.map_err(|e| err_class(&e))?;
    evs.iter().rev().find(|e| e.2 == "kvs.load.ts").map(|e| e.3[0]).ok_or_else(|| "no-kvs.load.ts-event".to_string())
}

pub fn hist_state(kvs: &KeyValueStore, root: &str, cache: &EntCache) -> Result<HistState, String> {
    let (mem, imm) = kvs.verif_dump_mem().map_err(|e| err_class(&e))?;
    let conv = |v: Vec<sst::KeyValuePair>| -> Vec<Ent> { v.into_iter().map(|e| (e.key, e.timestamp, e.value)).collect() };
    let seq = kvs.verif_state().0;
    let vis = visible_seq_no(kvs)?;
    let l0 = levels_cached(kvs, root, cache)?.into_iter().next().unwrap_or_default();
    Ok(HistState { mem: conv(mem), imm: imm.map(conv), seq, vis, l0 })
}

pub fn batch_keys(es: &[(Vec<u8>, Option<Vec<u8>>)]) -> String {
    es.iter().map(|(k, v)| format!("{}{}", hex(k), if v.is_some() { "" } else { "!" })).collect::<Vec<_>>().join(",")
}

pub type EntCache = std::rc::Rc<std::cell::RefCell<std::collections::HashMap<[u8; 32], Vec<Ent>>>>;

/// one performed step of the tree: `None` = a flush (`Version::ingest`), `Some(c)` = the
/// compaction the selector returned (`Version::apply_compaction`); levels in the order the version
/// holds them (`verif_dump`)
#[derive(Clone, Debug)]
pub struct Applied {
    pub before: Vec<Vec<FileDump>>,
    pub compaction: Option<lsmtk::verif::ChosenCompaction>,
    pub after: Vec<Vec<FileDump>>,
}

/// the files of the current version, level by level in the order the version holds them, with the
/// entries of each file (read once per setsum)
pub fn levels_cached(kvs: &KeyValueStore, root: &str, cache: &EntCache) -> Result<Vec<Vec<FileDump>>, String> {
    let mut levels = vec![];
    for level in kvs.verif_tree().verif_dump() {
        let mut files = vec![];
        for md in level {
            let hit = cache.borrow().get(&md.setsum).cloned();
            let entries = match hit {
                Some(e) => e,
                None => {
                    let path = lsmtk::SST_FILE(root, setsum::Setsum::from_digest(md.setsum));
                    let e = read_sst(path.to_str().unwrap())?;
                    cache.borrow_mut().insert(md.setsum, e.clone());
                    e
                }
            };
            files.push(FileDump { setsum: md.setsum, first_key: md.first_key.clone(), last_key: md.last_key.clone(), smallest_ts: md.smallest_timestamp, biggest_ts: md.biggest_timestamp, file_size: md.file_size, entries });
        }
        levels.push(files);
    }
    Ok(levels)
}

pub fn scratch_dir(tag: &str) -> String {
    let base = std::env::var("BLUE_SCRATCH").unwrap_or_else(|_| "/var/tmp".to_string());
    let d = format!("{}/blueverif.{}.{}", base, std::process::id(), tag);
    let _ = std::fs::remove_dir_all(&d);
    d
}

fn err_class(e: &lsmtk::SError) -> String {
    let s = format!("{:?}", e);
    let mut out = String::new();
    for c in s.chars().take(160) {
        out.push(if c.is_whitespace() { '_' } else { c });
    }
    out
}

/// what the observer checks at a labelled point inside a flush / compaction, on the thread that
/// runs it: every key still reads as the sequential map says (point reads and a full scan — this
/// is the window in which the immutable memtable, and then the immutable memtable *and* its file,
/// are visible), and a flushed memtable's log is still in the store's root until its SST is in
/// the manifest.
fn install_probe(kvs: &KeyValueStore, root: &str, oracle: &BTreeMap<Vec<u8>, Option<Vec<u8>>>, sink: std::rc::Rc<std::cell::RefCell<(u64, Vec<String>)>>, hist: Option<(std::rc::Rc<std::cell::RefCell<Option<HistState>>>, EntCache)>) {
    let kvs_ptr = kvs as *const KeyValueStore;
    let oracle = oracle.clone();
    let root = root.to_string();
    let logs_at_start: Vec<String> = std::fs::read_dir(&root).map(|rd| rd.flatten().map(|e| e.file_name().to_string_lossy().to_string()).filter(|n| n.starts_with("log.")).collect()).unwrap_or_default();
    lsmtk::verif::set_probe(Some(Box::new(move |tag: &'static str| {
        // SAFETY: the probe is cleared before `kvs` is dropped (see `with_probe`)
        let kvs = unsafe { &*kvs_ptr };
        if let (Some((mid, cache)), "flush.rotated") = (&hist, tag) {
            *mid.borrow_mut() = hist_state(kvs, &root, cache).ok();
        }
        let mut sink = sink.borrow_mut();
        sink.0 += 1;
        for (k, want) in oracle.iter() {
            let mut tomb = false;
            match kvs.load(k, &mut tomb) {
                Ok(got) => {
                    if &got != want {
                        sink.1.push(format!("at {}: key {} reads {:?} want {:?}", tag, hex(k), got.as_ref().map(|v| hex(v)), want.as_ref().map(|v| hex(v))));
                    }
                }
                Err(e) => sink.1.push(format!("at {}: key {} load error {:?}", tag, hex(k), e).replace('\n', " ")),
            }
        }
        let live: Vec<(Vec<u8>, Vec<u8>)> = oracle.iter().filter_map(|(k, v)| v.as_ref().map(|v| (k.clone(), v.clone()))).collect();
        let scan = (|| -> Result<Vec<(Vec<u8>, Vec<u8>)>, lsmtk::SError> {
            let mut c = kvs.range_scan::<&[u8]>(&Bound::Unbounded, &Bound::Unbounded)?;
            c.seek_to_first()?;
            let mut out = vec![];
            loop {
                c.next()?;
                match c.key_value() {
                    Some(kv) => out.push((kv.key.to_vec(), kv.value.map(|v| v.to_vec()).unwrap_or_default())),
                    None => break,
                }
            }
            Ok(out)
        })();
        match scan {
            Ok(s) if s == live => {}
            Ok(s) => sink.1.push(format!("at {}: full scan shows {} entries, want {}", tag, s.len(), live.len())),
            Err(e) => sink.1.push(format!("at {}: scan error {:?}", tag, e).replace('\n', " ")),
        }
        if tag == "flush.rotated" || tag == "ingest.before_manifest" {
            // the log of the memtable being flushed must still be replayable
            for l in &logs_at_start {
                if !std::path::Path::new(&format!("{}/{}", root, l)).exists() {
                    sink.1.push(format!("at {}: {} left the store root before its SST was in the manifest", tag, l));
                }
            }
        }
    })));
}

impl Sim {
    fn with_probe<T>(&mut self, f: impl FnOnce(&Sim) -> T) -> T {
        let sink = std::rc::Rc::new(std::cell::RefCell::new((0u64, Vec::<String>::new())));
        let hist = if self.record_hist { Some((self.hist_mid.clone(), self.ent_cache.clone())) } else { None };
        install_probe(self.kvs(), &self.root, &self.oracle, sink.clone(), hist);
        let r = f(self);
        lsmtk::verif::set_probe(None);
        let (n, fails) = std::mem::take(&mut *sink.borrow_mut());
        self.probes_run += n;
        self.probe_failures.extend(fails);
        r
    }

    pub fn open(root: &str, cfg: &Cfg) -> Result<Sim, String> {
        let opts = cfg.options(root);
        let kvs = KeyValueStore::open(opts).map_err(|e| err_class(&e))?;
        Ok(Sim { root: root.to_string(), cfg: cfg.clone(), kvs: Some(kvs), oracle: BTreeMap::new(), flushes: 0, compactions: 0, reopens: 0, stalled_unselectable: 0, verifier_passes: 0, verifier_backoffs: 0, last_verify: String::new(), last_verify_full: String::new(), probe_failures: vec![], probes_run: 0, frag_seen: BTreeMap::new(), sst_events: BTreeMap::new(), edit_ordinal: 0, chosen: vec![], applied: vec![], record_applied: false, ent_cache: Default::default(), hist: vec![], record_hist: false, hist_mid: Default::default() })
    }

    pub fn kvs(&self) -> &KeyValueStore {
        self.kvs.as_ref().unwrap()
    }

    /// run compaction steps until an ingest would not stall; false = stalled with nothing selectable
    fn relieve_stall(&mut self) -> Result<bool, String> {
        for _ in 0..64 {
            let (stall, selectable, _ongoing) = self.kvs().verif_tree().verif_status();
            if !stall {
                return Ok(true);
            }
            if !selectable {
                self.stalled_unselectable += 1;
                return Ok(false);
            }
            self.compact(1)?;
        }
        Ok(false)
    }

    fn tree_before(&self) -> Option<Vec<Vec<FileDump>>> {
        if self.record_applied {
            levels_cached(self.kvs(), &self.root, &self.ent_cache).ok()
        } else {
            None
        }
    }

    /// the history-model state now (`None` unless `record_hist`)
    pub fn hist_before(&self) -> Option<HistState> {
        if self.record_hist {
            hist_state(self.kvs(), &self.root, &self.ent_cache).ok()
        } else {
            None
        }
    }

    /// one completed operation `op` of the history model, from `before` to the state now
    pub fn record_hist_step(&mut self, op: String, before: Option<HistState>) {
        if let Some(before) = before {
            if let Ok(after) = hist_state(self.kvs(), &self.root, &self.ent_cache) {
                self.hist.push(HistStep { op, before, after });
            }
        }
    }

    /// one pass of the flush loop body = the model's `rollover` (up to the state the observer saw
    /// at `flush.rotated`) followed by the model's `flush`
    fn record_hist_flush(&mut self, before: Option<HistState>) {
        let mid = self.hist_mid.borrow_mut().take();
        if let (Some(before), Some(mid)) = (before, mid) {
            self.hist.push(HistStep { op: "rollover".to_string(), before, after: mid.clone() });
            self.record_hist_step("flush".to_string(), Some(mid));
        }
    }

    fn record_ingest(&mut self, before: Option<Vec<Vec<FileDump>>>) {
        if let Some(before) = before {
            if let Ok(after) = levels_cached(self.kvs(), &self.root, &self.ent_cache) {
                self.applied.push(Applied { before, compaction: None, after });
            }
        }
    }

    pub fn compact(&mut self, n: u64) -> Result<u64, String> {
        let mut total = 0;
        for _ in 0..n {
            let before = self.dump()?;
            lsmtk::verif::set_single_step(Some(1));
            let r = self.with_probe(|s| s.kvs().compaction_thread());
            lsmtk::verif::set_single_step(None);
            let chosen = lsmtk::verif::take_chosen();
            let k = chosen.len() as u64;
            self.compactions += k;
            total += k;
            let performed = if r.is_ok() && chosen.len() == 1 { Some(chosen[0].clone()) } else { None };
            for c in chosen {
                self.chosen.push((before.clone(), c));
            }
            r.map_err(|e| format!("compaction-error:{}", err_class(&e)))?;
            if let (Some(c), true) = (performed, self.record_applied) {
                if let Ok(after) = levels_cached(self.kvs(), &self.root, &self.ent_cache) {
                    self.applied.push(Applied { before: before.levels, compaction: Some(c), after });
                }
            }
            if k == 0 {
                break;
            }
        }
        Ok(total)
    }

    pub fn flush(&mut self) -> Result<bool, String> {
        let (mem, _imm) = self.kvs().verif_dump_mem().map_err(|e| err_class(&e))?;
        if mem.is_empty() {
            return Ok(false);
        }
        if !self.relieve_stall()? {
            return Ok(false);
        }
        self.kvs().verif_request_flush();
        let before = self.tree_before();
        let hb = self.hist_before();
        lsmtk::verif::set_single_step(Some(0));
        let r = self.with_probe(|s| s.kvs().memtable_thread());
        lsmtk::verif::set_single_step(None);
        r.map_err(|e| format!("flush-error:{}", err_class(&e)))?;
        self.flushes += 1;
        self.record_ingest(before);
        self.record_hist_flush(hb);
        Ok(true)
    }

    /// the memtable thread runs whenever a write asked for a rollover (as the real thread would)
    fn background_flush(&mut self) -> Result<(), String> {
        let (_seq, mem_seq, imm_trigger, _imm) = self.kvs().verif_state();
        if imm_trigger >= mem_seq {
            if !self.relieve_stall()? {
                return Ok(());
            }
            let before = self.tree_before();
            let hb = self.hist_before();
            lsmtk::verif::set_single_step(Some(0));
            let r = self.with_probe(|s| s.kvs().memtable_thread());
            lsmtk::verif::set_single_step(None);
            r.map_err(|e| format!("flush-error:{}", err_class(&e)))?;
            self.flushes += 1;
            self.record_ingest(before);
            self.record_hist_flush(hb);
        }
        Ok(())
    }

    pub fn apply(&mut self, op: &Op) -> Result<(), String> {
        let r = self.apply_inner(op);
        if self.kvs.is_some() {
            self.track_manifest();
        }
        r
    }

    fn apply_inner(&mut self, op: &Op) -> Result<(), String> {
        match op {
            Op::Put(k, v) => {
                let hb = self.hist_before();
                self.kvs().put(k, v).map_err(|e| format!("put-error:{}", err_class(&e)))?;
                self.record_hist_step(format!("write {}", hex(k)), hb);
                self.oracle.insert(k.clone(), Some(v.clone()));
                self.background_flush()
            }
            Op::Del(k) => {
                let hb = self.hist_before();
                self.kvs().del(k).map_err(|e| format!("del-error:{}", err_class(&e)))?;
                self.record_hist_step(format!("write {}!", hex(k)), hb);
                self.oracle.insert(k.clone(), None);
                self.background_flush()
            }
            Op::Batch(es) => {
                let mut wb = lsmtk::WriteBatch::with_capacity(es.len());
                for (k, v) in es {
                    match v {
                        Some(v) => wb.put(k, v),
                        None => wb.del(k),
                    }
                }
                let hb = self.hist_before();
                self.kvs().write(wb).map_err(|e| format!("write-error:{}", err_class(&e)))?;
                self.record_hist_step(format!("write {}", batch_keys(es)), hb);
                for (k, v) in es {
                    self.oracle.insert(k.clone(), v.clone());
                }
                self.background_flush()
            }
            Op::Flush => self.flush().map(|_| ()),
            Op::Compact(n) => self.compact(*n).map(|_| ()),
            Op::Verify => {
                self.verify_pass();
                Ok(())
            }
            Op::Reopen => {
                self.kvs = None;
                let opts = self.cfg.options(&self.root);
                let kvs = KeyValueStore::open(opts).map_err(|e| format!("reopen-error:{}", err_class(&e)))?;
                self.kvs = Some(kvs);
                self.reopens += 1;
                Ok(())
            }
        }
    }

    /// one pass of the offline verifier over the store's directory (the store stays open, as the
    /// verifier is a separate tool working on mani/ fragments, trash/ and its own verify/ manifest)
    pub fn verify_pass(&mut self) {
        self.verifier_passes += 1;
        let opts = self.cfg.options(&self.root);
        let r = match lsmtk::LsmVerifier::open(opts) {
            Ok(mut v) => v.verify(),
            Err(e) => Err(e),
        };
        self.last_verify_full = match &r {
            Err(e) => format!("{:?}", e),
            Ok(()) => String::new(),
        };
        self.last_verify = match r {
            Ok(()) => "ok".to_string(),
            Err(e) => match lsmtk::backoff_path(&e) {
                Some(p) => {
                    self.verifier_backoffs += 1;
                    if std::env::var("BLUE_DEBUG").is_ok() {
                        eprintln!("verifier backoff on {} ; logs {:?} trash {:?}", p, self.listing().get("logs"), self.listing().get("trash").map(|v| v.iter().filter(|x| x.starts_with("log")).cloned().collect::<Vec<_>>()));
                    }
                    format!("backoff:{}", p)
                }
                None => {
                    if std::env::var("BLUE_DEBUG").is_ok() {
                        eprintln!("verifier error: {:?}", e);
                        let txt = format!("{:?}", e);
                        if let Some(i) = txt.find("trash/") {
                            let name = &txt[i + 6..i + 6 + 64];
                            eprintln!("missing {} events {:?}", name, self.sst_events.get(name));
                            let mut frags: Vec<_> = std::fs::read_dir(format!("{}/mani", self.root)).unwrap().flatten().map(|e| e.path()).collect();
                            frags.sort();
                            for f in frags {
                                if let Ok(it) = mani::ManifestIterator::open(&f) {
                                    for (n, ed) in it.enumerate() {
                                        if let Ok(ed) = ed {
                                            let a = ed.added().any(|x| x == name);
                                            let r = ed.rmed().any(|x| x == name);
                                            if a || r {
                                                eprintln!("  {} edit {}: added={} rmed={} D={:?} nadd={} nrm={}", f.display(), n, a, r, ed.get_info('D').map(|d| &d[..8]), ed.added().count(), ed.rmed().count());
                                            }
                                        }
                                    }
                                }
                            }
                            let vm = format!("{}/verify", self.root);
                            eprintln!("  verify dir: {:?}", std::fs::read_dir(&vm).map(|r| r.flatten().map(|e| e.file_name()).collect::<Vec<_>>()));
                        }
                    }
                    format!("error:{}", err_class(&e))
                }
            },
        };
    }

    /// The class of a verifier pass that returned an error on a store history (C01, C04, C08).
    /// Known finding D-28: the error is NotFound for `trash/<X>.sst` and the manifest removed X,
    /// added it again (a compaction wrote a byte-identical file) and removed it again — the
    /// verifier gave the one copy in trash/ to the first removal and the checks of the fragments
    /// that add X back and remove it again cannot read it.
    pub fn verifier_reject_class(&self) -> String {
        let t = &self.last_verify_full;
        if t.contains("NotFound") {
            if let Some(i) = t.find("trash/") {
                let name: String = t[i + 6..].chars().take_while(|c| c.is_ascii_hexdigit()).collect();
                if name.len() == 64 && t[i + 6 + 64..].starts_with(".sst") {
                    if let Some(evs) = self.sst_events.get(&name) {
                        let signs: Vec<char> = evs.iter().map(|e| e.1).collect();
                        let mut stage = 0;
                        for c in signs {
                            stage = match (stage, c) {
                                (0, '-') => 1,
                                (1, '+') => 2,
                                (2, '-') => 3,
                                (s, _) => s,
                            };
                        }
                        if stage == 3 {
                            return D28.to_string();
                        }
                    }
                }
            }
        }
        "verifier-rejects-store-history".to_string()
    }

    /// record the manifest edits written since the last call (fragments are append-only and a
    /// rolled-over fragment repeats the state in its first edit, which is skipped)
    pub fn track_manifest(&mut self) {
        let dir = format!("{}/mani", self.root);
        let mut frags: Vec<(u64, std::path::PathBuf)> = vec![];
        if let Ok(rd) = std::fs::read_dir(&dir) {
            for e in rd.flatten() {
                let p = e.path();
                if let Some(n) = mani::extract_backup(&p) {
                    frags.push((n, p));
                }
            }
        }
        frags.sort();
        let next = frags.last().map(|x| x.0 + 1).unwrap_or(1);
        frags.push((next, mani::MANIFEST(&dir)));
        for (n, p) in frags {
            // the live MANIFEST becomes MANIFEST.<n> at the next rollover: key by that number
            let key = format!("{}", n);
            let seen = *self.frag_seen.get(&key).unwrap_or(&0);
            let Ok(it) = mani::ManifestIterator::open(&p) else { continue };
            let mut count = 0;
            for (i, ed) in it.enumerate() {
                let Ok(ed) = ed else { break };
                count = i + 1;
                if i < seen || i == 0 {
                    continue;
                }
                self.edit_ordinal += 1;
                for r in ed.rmed() {
                    self.sst_events.entry(r.clone()).or_default().push((self.edit_ordinal, '-'));
                }
                for a in ed.added() {
                    self.sst_events.entry(a.clone()).or_default().push((self.edit_ordinal, '+'));
                }
            }
            if count > seen {
                self.frag_seen.insert(key, count);
            }
        }
    }

    /// names present in sst/, trash/, mani/, verify/ and the log files in the root
    pub fn listing(&self) -> std::collections::BTreeMap<String, Vec<String>> {
        let mut m = std::collections::BTreeMap::new();
        for sub in ["sst", "trash", "mani", "verify", "compaction", "tmp", "."] {
            let mut v: Vec<String> = vec![];
            if let Ok(rd) = std::fs::read_dir(format!("{}/{}", self.root, sub)) {
                for e in rd.flatten() {
                    let n = e.file_name().to_string_lossy().to_string();
                    if sub != "." || n.starts_with("log.") {
                        v.push(n);
                    }
                }
            }
            v.sort();
            m.insert(if sub == "." { "logs".to_string() } else { sub.to_string() }, v);
        }
        m
    }

    pub fn get(&self, k: &[u8]) -> Result<Option<Vec<u8>>, String> {
        let mut tomb = false;
        self.kvs().load(k, &mut tomb).map_err(|e| format!("load-error:{}", err_class(&e)))
    }

    pub fn dump(&self) -> Result<StateDump, String> {
        let (mem, imm) = self.kvs().verif_dump_mem().map_err(|e| err_class(&e))?;
        let conv = |v: Vec<sst::KeyValuePair>| -> Vec<Ent> { v.into_iter().map(|e| (e.key, e.timestamp, e.value)).collect() };
        let mut d = StateDump { mem: conv(mem), imm: imm.map(conv), levels: vec![], seq_no: self.kvs().verif_state().0 };
        for level in self.kvs().verif_tree().verif_dump() {
            let mut files = vec![];
            for md in level {
                let setsum = setsum::Setsum::from_digest(md.setsum);
                let path = lsmtk::SST_FILE(&self.root, setsum);
                let entries = read_sst(path.to_str().unwrap())?;
                self.ent_cache.borrow_mut().insert(md.setsum, entries.clone());
                files.push(FileDump { setsum: md.setsum, first_key: md.first_key.clone(), last_key: md.last_key.clone(), smallest_ts: md.smallest_timestamp, biggest_ts: md.biggest_timestamp, file_size: md.file_size, entries });
            }
            d.levels.push(files);
        }
        Ok(d)
    }

    /// full forward scan through the public API
    pub fn scan_all(&self) -> Result<Vec<(Vec<u8>, Vec<u8>)>, String> {
        let mut c = self.kvs().range_scan::<&[u8]>(&Bound::Unbounded, &Bound::Unbounded).map_err(|e| err_class(&e))?;
        c.seek_to_first().map_err(|e| err_class(&e))?;
        let mut out = vec![];
        loop {
            c.next().map_err(|e| err_class(&e))?;
            match c.key_value() {
                Some(kv) => out.push((kv.key.to_vec(), kv.value.map(|v| v.to_vec()).unwrap_or_default())),
                None => break,
            }
        }
        Ok(out)
    }

    pub fn close(mut self) {
        self.kvs = None;
        let _ = std::fs::remove_dir_all(&self.root);
    }
}

pub fn read_sst(path: &str) -> Result<Vec<Ent>, String> {
    let sst = sst::Sst::<sst::file_manager::FileHandle>::new(sst::SstOptions::default(), path).map_err(|e| format!("sst-open:{:?}", e).replace(' ', "_"))?;
    let mut c = sst.cursor();
    c.seek_to_first().map_err(|e| format!("{:?}", e))?;
    let mut out = vec![];
    loop {
        c.next().map_err(|e| format!("{:?}", e))?;
        match c.key_value() {
            Some(kv) => out.push((kv.key.to_vec(), kv.timestamp, kv.value.map(|v| v.to_vec()))),
            None => break,
        }
    }
    Ok(out)
}
