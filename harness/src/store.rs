//! Single-threaded driver of the real `KeyValueStore`: deterministic histories of
//! put / del / batch / flush / compaction step / reopen with the flush and compaction loops
//! single-stepped through the `rescrv_blue_verif` hooks, a sequential oracle, and dumps of the
//! store's state (memtable, immutable memtable, every file of every level with all its versions).
use crate::common::*;
use std::collections::BTreeMap;
use std::ops::Bound;

use lsmtk::{KeyValueStore, LsmtkOptions};
use sst::Cursor;

pub type Ent = (Vec<u8>, u64, Option<Vec<u8>>); // key, timestamp, value | tombstone

#[derive(Clone, Debug)]
pub struct Cfg {
    pub memtable_bytes: u64,
    pub target_file: u64,
    pub min_file: u64,
    pub target_block: u64,
    pub l0_mandatory_files: u64,
    pub l0_stall_files: u64,
    pub max_compaction_files: u64,
    pub gc_versions: u64,
    pub mani_ratio: u64,
}

impl Cfg {
    pub fn gen(rng: &mut Rng) -> Cfg {
        Cfg {
            memtable_bytes: *rng.pick(&[64, 200, 1024, 1 << 20]),
            target_file: *rng.pick(&[128, 512, 4096, 1 << 22]),
            min_file: *rng.pick(&[64, 256, 1 << 12]),
            target_block: *rng.pick(&[64, 256, 4096]),
            l0_mandatory_files: *rng.pick(&[1, 2, 4]),
            l0_stall_files: *rng.pick(&[4, 6, 12]),
            max_compaction_files: *rng.pick(&[8, 16, 64]),
            gc_versions: *rng.pick(&[1, 1, 2, 3]),
            mani_ratio: *rng.pick(&[1, 2, 10]),
        }
    }
    pub fn render(&self) -> String {
        format!(
            "mem={} tf={} mf={} tb={} l0m={} l0s={} mcf={} gc={} mr={}",
            self.memtable_bytes, self.target_file, self.min_file, self.target_block, self.l0_mandatory_files, self.l0_stall_files, self.max_compaction_files, self.gc_versions, self.mani_ratio
        )
    }
    pub fn options(&self, path: &str) -> LsmtkOptions {
        use arrrg::CommandLine;
        let args: Vec<String> = vec![
            "--path".into(),
            path.into(),
            "--memtable-size-bytes".into(),
            self.memtable_bytes.to_string(),
            "--sst-target-file-size".into(),
            self.target_file.to_string(),
            "--sst-minimum-file-size".into(),
            self.min_file.to_string(),
            "--sst-target-block-size".into(),
            self.target_block.to_string(),
            "--l0-mandatory-compaction-threshold-files".into(),
            self.l0_mandatory_files.to_string(),
            "--l0-write-stall-threshold-files".into(),
            self.l0_stall_files.to_string(),
            "--max-compaction-files".into(),
            self.max_compaction_files.to_string(),
            "--gc-policy".into(),
            format!("versions = {}", self.gc_versions),
            "--mani-log-rollover-ratio".into(),
            self.mani_ratio.to_string(),
        ];
        let refs: Vec<&str> = args.iter().map(|s| s.as_str()).collect();
        let (opts, free) = LsmtkOptions::from_arguments_relaxed("blueharness", &refs);
        assert!(free.is_empty(), "free args: {:?}", free);
        opts
    }
}

#[derive(Clone, Debug)]
pub enum Op {
    Put(Vec<u8>, Vec<u8>),
    Del(Vec<u8>),
    Batch(Vec<(Vec<u8>, Option<Vec<u8>>)>),
    Flush,
    Compact(u64),
    Reopen,
}

impl Op {
    pub fn render(&self) -> String {
        match self {
            Op::Put(k, v) => format!("put:{}:{}", hex(k), hex(v)),
            Op::Del(k) => format!("del:{}", hex(k)),
            Op::Batch(es) => format!(
                "batch:{}",
                es.iter()
                    .map(|(k, v)| match v {
                        Some(v) => format!("{}={}", hex(k), hex(v)),
                        None => format!("{}!", hex(k)),
                    })
                    .collect::<Vec<_>>()
                    .join(",")
            ),
            Op::Flush => "flush".into(),
            Op::Compact(n) => format!("compact:{}", n),
            Op::Reopen => "reopen".into(),
        }
    }
}

pub const ALPHABET: &[&[u8]] = &[b"", b"a", b"a\0", b"aa", b"ab", b"b", b"b\xff", b"\xff", b"\xff\xff", b"m", b"ma", b"z"];

pub fn gen_key(rng: &mut Rng, nkeys: usize) -> Vec<u8> {
    ALPHABET[rng.below(nkeys as u64) as usize].to_vec()
}

pub fn gen_val(rng: &mut Rng, counter: &mut u64) -> Vec<u8> {
    *counter += 1;
    let mut v = format!("v{}", counter).into_bytes();
    if rng.chance(1, 6) {
        let n = rng.range(20, 90) as usize;
        v.extend(std::iter::repeat(b'.').take(n));
    }
    v
}

/// a history: mostly-valid, tombstone-heavy, with flushes, compaction steps and reopens.
/// `mode` 0: balanced; 1: flush-heavy with compaction withheld and then run in bursts (level 0
/// fills up, merging compactions and garbage collection at the last level become necessary);
/// 2: few keys, many versions, every write followed by a flush.
pub fn gen_history(rng: &mut Rng, len: usize, nkeys: usize, mode: u64) -> Vec<Op> {
    let mut ops = vec![];
    let mut counter = 0u64;
    let (p_put, p_del, p_batch, p_flush, p_compact) = match mode {
        0 => (34, 52, 62, 78, 94),
        1 => (30, 42, 50, 84, 88),
        _ => (30, 45, 50, 90, 95),
    };
    while ops.len() < len {
        let r = rng.below(100);
        let op = if r < p_put {
            Op::Put(gen_key(rng, nkeys), gen_val(rng, &mut counter))
        } else if r < p_del {
            Op::Del(gen_key(rng, nkeys))
        } else if r < p_batch {
            // batch over distinct keys (a batch naming one key twice is D-16, routed separately)
            let n = rng.range(2, 4) as usize;
            let mut ks: Vec<usize> = (0..nkeys).collect();
            rng.shuffle(&mut ks);
            let es = ks
                .into_iter()
                .take(n.min(nkeys))
                .map(|i| {
                    let k = ALPHABET[i].to_vec();
                    if rng.chance(1, 3) {
                        (k, None)
                    } else {
                        (k, Some(gen_val(rng, &mut counter)))
                    }
                })
                .collect();
            Op::Batch(es)
        } else if r < p_flush {
            Op::Flush
        } else if r < p_compact {
            // compaction steps are taken one at a time so that each choice is observed on the
            // state it was made in
            let burst = if mode == 1 { rng.range(0, 12) } else { rng.range(0, 2) };
            for _ in 0..burst {
                ops.push(Op::Compact(1));
            }
            Op::Compact(1)
        } else {
            Op::Reopen
        };
        ops.push(op);
    }
    ops
}

/// one file of the dumped version
#[derive(Clone, Debug)]
pub struct FileDump {
    pub setsum: [u8; 32],
    pub first_key: Vec<u8>,
    pub last_key: Vec<u8>,
    pub smallest_ts: u64,
    pub biggest_ts: u64,
    pub file_size: u64,
    pub entries: Vec<Ent>,
}

#[derive(Clone, Debug, Default)]
pub struct StateDump {
    pub mem: Vec<Ent>,
    pub imm: Option<Vec<Ent>>,
    pub levels: Vec<Vec<FileDump>>,
    pub seq_no: u64,
}

fn render_ents(es: &[Ent]) -> String {
    if es.is_empty() {
        return "-".into();
    }
    es.iter()
        .map(|(k, t, v)| match v {
            Some(v) => format!("{}@{}={}", hex(k), t, hex(v)),
            None => format!("{}@{}!", hex(k), t),
        })
        .collect::<Vec<_>>()
        .join(",")
}

impl StateDump {
    /// `ts=<seq> mem=<ents> imm=<ents|none> L<level>=<first>..<last>[<ents>];… `
    pub fn render(&self) -> String {
        let mut s = format!("ts={} mem={} imm={}", self.seq_no, render_ents(&self.mem), match &self.imm {
            Some(e) => render_ents(e),
            None => "none".into(),
        });
        for (i, l) in self.levels.iter().enumerate() {
            for f in l {
                s.push_str(&format!(" L{}:{}:{}:{}:{}:{}", i, hex(&f.first_key), hex(&f.last_key), f.smallest_ts, f.biggest_ts, render_ents(&f.entries)));
            }
        }
        s
    }
    pub fn all_entries(&self) -> Vec<Ent> {
        let mut v = self.mem.clone();
        if let Some(i) = &self.imm {
            v.extend(i.iter().cloned());
        }
        for l in &self.levels {
            for f in l {
                v.extend(f.entries.iter().cloned());
            }
        }
        v
    }
    pub fn depth(&self) -> usize {
        self.levels.iter().rposition(|l| !l.is_empty()).map(|x| x + 1).unwrap_or(0)
    }
    pub fn nfiles(&self) -> usize {
        self.levels.iter().map(|l| l.len()).sum()
    }
}

pub struct Sim {
    pub root: String,
    pub cfg: Cfg,
    pub kvs: Option<KeyValueStore>,
    /// sequential oracle: key -> latest write (None = deleted)
    pub oracle: BTreeMap<Vec<u8>, Option<Vec<u8>>>,
    pub flushes: u64,
    pub compactions: u64,
    pub reopens: u64,
    pub stalled_unselectable: u64,
    /// every compaction the selector chose, with the store state it was chosen in
    pub chosen: Vec<(StateDump, lsmtk::verif::ChosenCompaction)>,
}

pub fn scratch_dir(tag: &str) -> String {
    let base = std::env::var("BLUE_SCRATCH").unwrap_or_else(|_| "/var/tmp".to_string());
    let d = format!("{}/blueverif.{}.{}", base, std::process::id(), tag);
    let _ = std::fs::remove_dir_all(&d);
    d
}

fn err_class(e: &lsmtk::SError) -> String {
    let s = format!("{:?}", e);
    let mut out = String::new();
    for c in s.chars().take(160) {
        out.push(if c.is_whitespace() { '_' } else { c });
    }
    out
}

impl Sim {
    pub fn open(root: &str, cfg: &Cfg) -> Result<Sim, String> {
        let opts = cfg.options(root);
        let kvs = KeyValueStore::open(opts).map_err(|e| err_class(&e))?;
        Ok(Sim { root: root.to_string(), cfg: cfg.clone(), kvs: Some(kvs), oracle: BTreeMap::new(), flushes: 0, compactions: 0, reopens: 0, stalled_unselectable: 0, chosen: vec![] })
    }

    pub fn kvs(&self) -> &KeyValueStore {
        self.kvs.as_ref().unwrap()
    }

    /// run compaction steps until an ingest would not stall; false = stalled with nothing selectable
    fn relieve_stall(&mut self) -> Result<bool, String> {
        for _ in 0..64 {
            let (stall, selectable, _ongoing) = self.kvs().verif_tree().verif_status();
            if !stall {
                return Ok(true);
            }
            if !selectable {
                self.stalled_unselectable += 1;
                return Ok(false);
            }
            self.compact(1)?;
        }
        Ok(false)
    }

    pub fn compact(&mut self, n: u64) -> Result<u64, String> {
        let mut total = 0;
        for _ in 0..n {
            let before = self.dump()?;
            lsmtk::verif::set_single_step(Some(1));
            let r = self.kvs().compaction_thread();
            lsmtk::verif::set_single_step(None);
            let chosen = lsmtk::verif::take_chosen();
            let k = chosen.len() as u64;
            self.compactions += k;
            total += k;
            for c in chosen {
                self.chosen.push((before.clone(), c));
            }
            r.map_err(|e| format!("compaction-error:{}", err_class(&e)))?;
            if k == 0 {
                break;
            }
        }
        Ok(total)
    }

    pub fn flush(&mut self) -> Result<bool, String> {
        let (mem, _imm) = self.kvs().verif_dump_mem().map_err(|e| err_class(&e))?;
        if mem.is_empty() {
            return Ok(false);
        }
        if !self.relieve_stall()? {
            return Ok(false);
        }
        self.kvs().verif_request_flush();
        lsmtk::verif::set_single_step(Some(0));
        let r = self.kvs().memtable_thread();
        lsmtk::verif::set_single_step(None);
        r.map_err(|e| format!("flush-error:{}", err_class(&e)))?;
        self.flushes += 1;
        Ok(true)
    }

    /// the memtable thread runs whenever a write asked for a rollover (as the real thread would)
    fn background_flush(&mut self) -> Result<(), String> {
        let (_seq, mem_seq, imm_trigger, _imm) = self.kvs().verif_state();
        if imm_trigger >= mem_seq {
            if !self.relieve_stall()? {
                return Ok(());
            }
            lsmtk::verif::set_single_step(Some(0));
            let r = self.kvs().memtable_thread();
            lsmtk::verif::set_single_step(None);
            r.map_err(|e| format!("flush-error:{}", err_class(&e)))?;
            self.flushes += 1;
        }
        Ok(())
    }

    pub fn apply(&mut self, op: &Op) -> Result<(), String> {
        match op {
            Op::Put(k, v) => {
                self.kvs().put(k, v).map_err(|e| format!("put-error:{}", err_class(&e)))?;
                self.oracle.insert(k.clone(), Some(v.clone()));
                self.background_flush()
            }
            Op::Del(k) => {
                self.kvs().del(k).map_err(|e| format!("del-error:{}", err_class(&e)))?;
                self.oracle.insert(k.clone(), None);
                self.background_flush()
            }
            Op::Batch(es) => {
                let mut wb = lsmtk::WriteBatch::with_capacity(es.len());
                for (k, v) in es {
                    match v {
                        Some(v) => wb.put(k, v),
                        None => wb.del(k),
                    }
                }
                self.kvs().write(wb).map_err(|e| format!("write-error:{}", err_class(&e)))?;
                for (k, v) in es {
                    self.oracle.insert(k.clone(), v.clone());
                }
                self.background_flush()
            }
            Op::Flush => self.flush().map(|_| ()),
            Op::Compact(n) => self.compact(*n).map(|_| ()),
            Op::Reopen => {
                self.kvs = None;
                let opts = self.cfg.options(&self.root);
                let kvs = KeyValueStore::open(opts).map_err(|e| format!("reopen-error:{}", err_class(&e)))?;
                self.kvs = Some(kvs);
                self.reopens += 1;
                Ok(())
            }
        }
    }

    pub fn get(&self, k: &[u8]) -> Result<Option<Vec<u8>>, String> {
        let mut tomb = false;
        self.kvs().load(k, &mut tomb).map_err(|e| format!("load-error:{}", err_class(&e)))
    }

    pub fn dump(&self) -> Result<StateDump, String> {
        let (mem, imm) = self.kvs().verif_dump_mem().map_err(|e| err_class(&e))?;
        let conv = |v: Vec<sst::KeyValuePair>| -> Vec<Ent> { v.into_iter().map(|e| (e.key, e.timestamp, e.value)).collect() };
        let mut d = StateDump { mem: conv(mem), imm: imm.map(conv), levels: vec![], seq_no: self.kvs().verif_state().0 };
        for level in self.kvs().verif_tree().verif_dump() {
            let mut files = vec![];
            for md in level {
                let setsum = setsum::Setsum::from_digest(md.setsum);
                let path = lsmtk::SST_FILE(&self.root, setsum);
                let entries = read_sst(path.to_str().unwrap())?;
                files.push(FileDump { setsum: md.setsum, first_key: md.first_key.clone(), last_key: md.last_key.clone(), smallest_ts: md.smallest_timestamp, biggest_ts: md.biggest_timestamp, file_size: md.file_size, entries });
            }
            d.levels.push(files);
        }
        Ok(d)
    }

    /// full forward scan through the public API
    pub fn scan_all(&self) -> Result<Vec<(Vec<u8>, Vec<u8>)>, String> {
        let mut c = self.kvs().range_scan::<&[u8]>(&Bound::Unbounded, &Bound::Unbounded).map_err(|e| err_class(&e))?;
        c.seek_to_first().map_err(|e| err_class(&e))?;
        let mut out = vec![];
        loop {
            c.next().map_err(|e| err_class(&e))?;
            match c.key_value() {
                Some(kv) => out.push((kv.key.to_vec(), kv.value.map(|v| v.to_vec()).unwrap_or_default())),
                None => break,
            }
        }
        Ok(out)
    }

    pub fn close(mut self) {
        self.kvs = None;
        let _ = std::fs::remove_dir_all(&self.root);
    }
}

pub fn read_sst(path: &str) -> Result<Vec<Ent>, String> {
    let sst = sst::Sst::<sst::file_manager::FileHandle>::new(sst::SstOptions::default(), path).map_err(|e| format!("sst-open:{:?}", e).replace(' ', "_"))?;
    let mut c = sst.cursor();
    c.seek_to_first().map_err(|e| format!("{:?}", e))?;
    let mut out = vec![];
    loop {
        c.next().map_err(|e| format!("{:?}", e))?;
        match c.key_value() {
            Some(kv) => out.push((kv.key.to_vec(), kv.timestamp, kv.value.map(|v| v.to_vec()))),
            None => break,
        }
    }
    Ok(out)
}
