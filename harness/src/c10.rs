//! C10 — an SST or block returns exactly what was put in, under every cursor movement.
//!
//! Streams (model instance tokens `block`, `sst`):
//!   1 `block build`  real `BlockBuilder` bytes + `BlockCursor` programs + `Block::load`
//!   2 `sst build`    real `SstBuilder` file (data blocks, index block, final block byte-for-byte),
//!                    `SstCursor` programs, `Sst::load`, `Sst::metadata`
//!   3 `sst multi`    real `SstMultiBuilder`: the files' metadata
//!   4 decisions      `check_key_len` / `check_value_len` / `check_table_size` at the limits,
//!                    `divide_keys` through one-entry-per-block tables, and (thorough) a real
//!                    `BlockBuilder` driven to `table-full`
//! Every case is also judged directly against a vector reference (the oracle).
use crate::common::*;
use arrrg::CommandLine;
use sha3::{Digest, Sha3_256};
use sst::block::{Block, BlockBuilder, BlockBuilderOptions};
use sst::{Builder, Cursor, SError, Sst, SstBuilder, SstMultiBuilder, SstOptions};
use std::panic::AssertUnwindSafe as Aus;

// limits as the source has them (the Lean side ties its own copies to the extracted constants)
const MAX_KEY_LEN: usize = sst::MAX_KEY_LEN;
const MAX_VALUE_LEN: usize = sst::MAX_VALUE_LEN;
const TABLE_FULL_SIZE: usize = sst::TABLE_FULL_SIZE;

#[derive(Clone, Debug, PartialEq, Eq)]
struct E {
    key: Vec<u8>,
    ts: u64,
    val: Option<Vec<u8>>,
}

/// `KeyRef` order, written independently: key ascending, timestamp descending
fn kr_lt(ak: &[u8], at: u64, bk: &[u8], bt: u64) -> bool {
    ak < bk || (ak == bk && at > bt)
}

// ------------------------------------------------------------------------------------------------
// rendering
// ------------------------------------------------------------------------------------------------

/// compact byte-string token for requests: hex parts and `hh*n` runs joined by `+`
fn tok(b: &[u8]) -> String {
    if b.is_empty() {
        return "-".into();
    }
    let mut parts: Vec<String> = vec![];
    let mut lit: Vec<u8> = vec![];
    let mut i = 0;
    while i < b.len() {
        let mut j = i;
        while j < b.len() && b[j] == b[i] {
            j += 1;
        }
        if j - i >= 12 {
            if !lit.is_empty() {
                parts.push(hex(&lit));
                lit.clear();
            }
            parts.push(format!("{:02x}*{}", b[i], j - i));
        } else {
            lit.extend_from_slice(&b[i..j]);
        }
        i = j;
    }
    if !lit.is_empty() {
        parts.push(hex(&lit));
    }
    parts.join("+")
}

fn fnv32(b: &[u8]) -> u32 {
    let mut h: u32 = 2166136261;
    for x in b {
        h = (h ^ *x as u32).wrapping_mul(16777619);
    }
    h
}

fn show_bytes(b: &[u8]) -> String {
    if b.len() > 48 {
        format!("#{}:{}", b.len(), fnv32(b))
    } else {
        hex(b)
    }
}

fn show_kv(key: &[u8], ts: u64, val: Option<&[u8]>) -> String {
    match val {
        Some(v) => format!("{}@{}={}", show_bytes(key), ts, show_bytes(v)),
        None => format!("{}@{}!", show_bytes(key), ts),
    }
}

fn show_e(e: Option<&E>) -> String {
    match e {
        None => ".".into(),
        Some(e) => show_kv(&e.key, e.ts, e.val.as_deref()),
    }
}

fn code(e: &SError) -> String {
    sst::error_code(e).unwrap_or("unknown").to_string()
}

fn put_char(r: &Result<Result<(), SError>, String>) -> char {
    match r {
        Err(_) => '!',
        Ok(Ok(())) => '.',
        Ok(Err(e)) => match code(e).as_str() {
            "key-too-large" => 'K',
            "value-too-large" => 'V',
            "table-full" => 'T',
            "sort-order" => 'S',
            _ => 'E',
        },
    }
}

fn sha3(item: &[u8]) -> [u8; 32] {
    let mut h = Sha3_256::default();
    h.update(item);
    let out = h.finalize();
    let mut a = [0u8; 32];
    a.copy_from_slice(&out);
    a
}

/// the byte string `sst::Setsum::{put,del}` hashes for an entry
fn setsum_item(e: &E) -> Vec<u8> {
    let mut v = vec![if e.val.is_some() { 8u8 } else { 9u8 }];
    v.extend_from_slice(&e.key);
    v.extend_from_slice(&e.ts.to_le_bytes());
    if let Some(x) = &e.val {
        v.extend_from_slice(x);
    }
    v
}

fn entry_tok(e: &E, with_hash: bool) -> String {
    let mut s = match &e.val {
        Some(v) => format!("P,{},{},{}", tok(&e.key), e.ts, tok(v)),
        None => format!("D,{},{}", tok(&e.key), e.ts),
    };
    if with_hash {
        s.push(',');
        s.push_str(&hex(&sha3(&setsum_item(e))));
    }
    s
}

const PRIMES: [u64; 8] = [4294967291, 4294967279, 4294967231, 4294967197, 4294967189, 4294967161, 4294967143, 4294967111];

/// the published setsum definition over the accepted entries (independent of the crates)
fn setsum_definition(es: &[E]) -> [u8; 32] {
    let mut cols = [0u64; 8];
    for e in es {
        let h = sha3(&setsum_item(e));
        for c in 0..8 {
            let w = u32::from_le_bytes([h[4 * c], h[4 * c + 1], h[4 * c + 2], h[4 * c + 3]]) as u64;
            cols[c] = (cols[c] + w % PRIMES[c]) % PRIMES[c];
        }
    }
    let mut d = [0u8; 32];
    for c in 0..8 {
        d[4 * c..4 * c + 4].copy_from_slice(&(cols[c] as u32).to_le_bytes());
    }
    d
}

// ------------------------------------------------------------------------------------------------
// generators
// ------------------------------------------------------------------------------------------------

const ALPHA: [u8; 6] = [0x00, 0x01, 0x61, 0x62, 0xfe, 0xff];
const TS_EDGE: [u64; 12] = [0, 1, 2, 3, 127, 128, 129, 16383, 16384, 1 << 32, u64::MAX - 1, u64::MAX];

fn gen_short_key(rng: &mut Rng, maxlen: u64) -> Vec<u8> {
    let n = rng.below(maxlen + 1) as usize;
    (0..n).map(|_| *rng.pick(&ALPHA)).collect()
}

/// a sorted set of distinct keys; `style` is reported in the statistics
fn gen_keys(rng: &mut Rng, style: u64, n: usize) -> Vec<Vec<u8>> {
    let mut keys: Vec<Vec<u8>> = vec![];
    match style {
        // short keys over the adversarial alphabet (the empty key included)
        0 => {
            for _ in 0..n {
                keys.push(gen_short_key(rng, 4));
            }
        }
        // a chain of keys each a prefix of the next
        1 => {
            let mut k = gen_short_key(rng, 2);
            if rng.chance(1, 2) {
                k.clear();
            }
            for _ in 0..n {
                keys.push(k.clone());
                k.push(*rng.pick(&ALPHA));
            }
        }
        // neighbours differing in the last byte only (around 0x00, 'a', 0xfe/0xff)
        2 => {
            let p = gen_short_key(rng, 5);
            let start = *rng.pick(&[0u64, 0x5f, 0xf0, 0xfa, 256 - (n as u64).min(256)]);
            for i in 0..n as u64 {
                if start + i > 255 {
                    break;
                }
                let mut k = p.clone();
                k.push((start + i) as u8);
                keys.push(k);
            }
            if rng.chance(1, 3) {
                keys.push(p.clone());
            }
        }
        // one or two keys only (many versions come from the timestamp generator)
        3 => {
            keys.push(gen_short_key(rng, 6));
            if rng.chance(1, 2) {
                keys.push(gen_short_key(rng, 6));
            }
        }
        // long keys sharing a long prefix, up to exactly MAX_KEY_LEN
        4 => {
            let l = *rng.pick(&[60usize, 127, 128, 300, 2000, MAX_KEY_LEN - 2, MAX_KEY_LEN - 1]);
            let fill = *rng.pick(&ALPHA);
            for _ in 0..n.min(6) {
                let mut k = vec![fill; l];
                let extra = rng.below((MAX_KEY_LEN - l) as u64 + 1).min(3) as usize;
                for _ in 0..extra {
                    k.push(*rng.pick(&ALPHA));
                }
                keys.push(k);
            }
            if rng.chance(1, 2) {
                keys.push(vec![fill; MAX_KEY_LEN]);
            }
        }
        // a mixture
        _ => {
            let parts = 2 + rng.below(2);
            for _ in 0..parts {
                let st = rng.below(4);
                let m = 1 + n / parts as usize;
                keys.extend(gen_keys(rng, st, m));
            }
        }
    }
    keys.sort();
    keys.dedup();
    keys
}

fn gen_value(rng: &mut Rng, long_ok: bool) -> Vec<u8> {
    match rng.below(20) {
        0..=5 => vec![],
        6..=14 => {
            let n = 1 + rng.below(8) as usize;
            rng.bytes(n)
        }
        15..=17 => {
            let n = rng.range(20, 70) as usize;
            rng.bytes(n)
        }
        18 => {
            let n = *rng.pick(&[100usize, 127, 128, 200, 1000]);
            let mut v = vec![*rng.pick(&ALPHA); n];
            v[0] = rng.next() as u8;
            v
        }
        _ => {
            if long_ok {
                let n = *rng.pick(&[4000usize, 16383, 16384, MAX_VALUE_LEN - 1, MAX_VALUE_LEN]);
                let mut v = vec![*rng.pick(&ALPHA); n];
                v[n - 1] = rng.next() as u8;
                v
            } else {
                rng.bytes(90)
            }
        }
    }
}

fn gen_ts(rng: &mut Rng) -> u64 {
    match rng.below(4) {
        0 => *rng.pick(&TS_EDGE),
        1 => rng.below(12),
        2 => rng.below(1000),
        _ => rng.next(),
    }
}

/// a strictly ordered entry sequence (key ascending, versions of one key newest first)
fn gen_entries(rng: &mut Rng, style: u64, target: usize, long_ok: bool) -> Vec<E> {
    let keys = gen_keys(rng, style, target.max(1));
    let mut es: Vec<E> = vec![];
    let many_versions = style == 3 || rng.chance(1, 4);
    let tomb_p = *rng.pick(&[0u64, 1, 3, 8]); // out of 10
    let mut in_run = false;
    for k in keys {
        if target == 0 {
            break;
        }
        let nv = if many_versions {
            if style == 3 { 1 + rng.below(target as u64 + 1) } else { 1 + rng.below(6) }
        } else if rng.chance(1, 5) {
            2
        } else {
            1
        };
        let mut tss: Vec<u64> = if rng.chance(1, 3) {
            // consecutive timestamps (adjacent versions)
            let hi = gen_ts(rng).max(nv);
            (0..nv).map(|i| hi - i).collect()
        } else {
            (0..nv).map(|_| gen_ts(rng)).collect()
        };
        tss.sort();
        tss.dedup();
        tss.reverse();
        for ts in tss {
            // tombstone runs
            let tomb = if in_run { rng.chance(7, 10) } else { rng.chance(tomb_p, 10) };
            in_run = tomb;
            let val = if tomb { None } else { Some(gen_value(rng, long_ok)) };
            es.push(E { key: k.clone(), ts, val });
            if es.len() >= target + 8 {
                break;
            }
        }
        if es.len() >= target + 8 {
            break;
        }
    }
    // the builders start from the sentinel ([], u64::MAX), which therefore cannot be an entry
    if let Some(f) = es.first() {
        if f.key.is_empty() && f.ts == u64::MAX {
            es.remove(0);
        }
    }
    es
}

/// turn a valid sequence into a list of attempts with a few entries the builders must refuse
fn inject_bad(rng: &mut Rng, es: &[E], how_many: u64) -> (Vec<E>, Vec<&'static str>) {
    let mut atts: Vec<E> = es.to_vec();
    let mut kinds = vec![];
    for _ in 0..how_many {
        let pos = rng.below(atts.len() as u64 + 1) as usize;
        let kind = rng.below(9);
        let prev = if pos > 0 { Some(atts[pos - 1].clone()) } else { None };
        let bad: Option<(E, &'static str)> = match kind {
            // exact duplicate of the entry before it (other value)
            0 => prev.map(|p| (E { key: p.key, ts: p.ts, val: Some(vec![7]) }, "duplicate")),
            // same key, newer timestamp after an older one
            1 => prev.and_then(|p| if p.ts < u64::MAX { Some((E { key: p.key, ts: p.ts + 1 + (rng.below(3)).min(u64::MAX - p.ts - 1), val: None }, "ts-ascending")) } else { None }),
            // a smaller key
            2 => prev.and_then(|p| {
                if p.key.is_empty() {
                    None
                } else {
                    let mut k = p.key.clone();
                    if rng.chance(1, 2) {
                        k.pop();
                    } else {
                        let i = k.len() - 1;
                        if k[i] == 0 { k.pop(); } else { k[i] -= 1; }
                    }
                    Some((E { key: k, ts: gen_ts(rng), val: Some(vec![1, 2]) }, "key-descending"))
                }
            }),
            // the very first entry again, late
            3 => if pos > 0 { Some((atts[0].clone(), "first-again")) } else { None },
            // oversize key (sorted after everything, so only the length is wrong)
            4 => Some((E { key: vec![0xff; MAX_KEY_LEN + 1 + rng.below(2) as usize], ts: 1, val: Some(vec![]) }, "key-oversize")),
            // oversize key that is also out of order
            5 => Some((E { key: vec![0x00; MAX_KEY_LEN + 1], ts: 1, val: None }, "key-oversize-and-unordered")),
            // oversize value on a key that would sort fine
            6 => Some((E { key: vec![0xff; 40], ts: 5, val: Some(vec![3; MAX_VALUE_LEN + 1 + rng.below(2) as usize]) }, "value-oversize")),
            // oversize value, out of order as well
            7 => Some((E { key: vec![], ts: 5, val: Some(vec![3; MAX_VALUE_LEN + 1]) }, "value-oversize-and-unordered")),
            // the builders' initial sentinel
            _ => Some((E { key: vec![], ts: u64::MAX, val: Some(vec![9]) }, "sentinel")),
        };
        if let Some((b, name)) = bad {
            atts.insert(pos, b);
            kinds.push(name);
        }
    }
    (atts, kinds)
}

#[derive(Clone, Debug)]
enum Op {
    First,
    Last,
    Next,
    Prev,
    Seek(Vec<u8>),
    Get(Vec<u8>, u64),
}

fn op_tok(op: &Op) -> String {
    match op {
        Op::First => "F".into(),
        Op::Last => "L".into(),
        Op::Next => "N".into(),
        Op::Prev => "P".into(),
        Op::Seek(k) => format!("S,{}", tok(k)),
        Op::Get(k, t) => format!("G,{},{}", tok(k), t),
    }
}

fn gen_probe_key(rng: &mut Rng, es: &[E]) -> Vec<u8> {
    if es.is_empty() || rng.chance(1, 6) {
        return match rng.below(3) {
            0 => vec![],
            1 => vec![0xff; 3],
            _ => gen_short_key(rng, 4),
        };
    }
    let mut k = rng.pick(es).key.clone();
    match rng.below(10) {
        0..=3 => {}
        4 => {
            if let Some(l) = k.last_mut() {
                *l = l.wrapping_add(1);
            }
        }
        5 => {
            if let Some(l) = k.last_mut() {
                *l = l.wrapping_sub(1);
            }
        }
        6 => {
            let n = rng.below(k.len() as u64 + 1) as usize;
            k.truncate(n);
        }
        7 => k.push(0),
        8 => k.push(*rng.pick(&ALPHA)),
        _ => {
            k.pop();
        }
    }
    if k.len() > MAX_KEY_LEN + 8 {
        k.truncate(MAX_KEY_LEN + 8);
    }
    k
}

fn gen_probe_ts(rng: &mut Rng, es: &[E], key: &[u8]) -> u64 {
    let mine: Vec<u64> = es.iter().filter(|e| e.key == key).map(|e| e.ts).collect();
    if !mine.is_empty() && rng.chance(3, 4) {
        let t = *rng.pick(&mine);
        match rng.below(3) {
            0 => t,
            1 => t.saturating_add(1),
            _ => t.saturating_sub(1),
        }
    } else {
        *rng.pick(&[0, 1, u64::MAX, u64::MAX - 1, 1000, 1 << 32])
    }
}

fn gen_program(rng: &mut Rng, es: &[E], len: usize, sweep: bool) -> Vec<Op> {
    let mut ops = vec![];
    if sweep {
        // the whole table forward, then backward, and over both ends
        ops.push(Op::First);
        for _ in 0..es.len() + 2 {
            ops.push(Op::Next);
        }
        for _ in 0..es.len() + 2 {
            ops.push(Op::Prev);
        }
        ops.push(Op::Last);
        ops.push(Op::Prev);
    }
    for _ in 0..len {
        let op = match rng.below(100) {
            0..=27 => Op::Next,
            28..=52 => Op::Prev,
            53..=72 => Op::Seek(gen_probe_key(rng, es)),
            73..=79 => Op::First,
            80..=86 => Op::Last,
            _ => {
                let k = gen_probe_key(rng, es);
                let t = gen_probe_ts(rng, es, &k);
                Op::Get(k, t)
            }
        };
        ops.push(op);
    }
    ops
}

// ------------------------------------------------------------------------------------------------
// the vector reference
// ------------------------------------------------------------------------------------------------

/// which attempts a builder must accept, and the code it must answer otherwise — decided from the
/// limits and the order alone
fn reference_accept(atts: &[E]) -> (String, Vec<E>) {
    let mut last: (Vec<u8>, u64) = (vec![], u64::MAX);
    let mut acc = vec![];
    let mut res = String::new();
    for a in atts {
        let c = if a.key.len() > MAX_KEY_LEN {
            'K'
        } else if a.val.as_ref().map(|v| v.len() > MAX_VALUE_LEN).unwrap_or(false) {
            'V'
        } else if !kr_lt(&last.0, last.1, &a.key, a.ts) {
            'S'
        } else {
            last = (a.key.clone(), a.ts);
            acc.push(a.clone());
            '.'
        };
        res.push(c);
    }
    (res, acc)
}

fn reference_load(es: &[E], k: &[u8], ts: u64) -> String {
    // newest version not newer than ts
    let mut best: Option<&E> = None;
    for e in es {
        if e.key == k && e.ts <= ts && best.map(|b| e.ts > b.ts).unwrap_or(true) {
            best = Some(e);
        }
    }
    match best {
        None => "absent".into(),
        Some(e) => match &e.val {
            None => "tomb".into(),
            Some(v) => format!("v{}", show_bytes(v)),
        },
    }
}

fn reference_run(es: &[E], ops: &[Op]) -> Vec<String> {
    let n = es.len();
    let mut pos = 0usize; // 0 = before first, n+1 = after last
    let mut out = vec![];
    for op in ops {
        match op {
            Op::First => pos = 0,
            Op::Last => pos = n + 1,
            Op::Next => {
                if pos <= n {
                    pos += 1
                }
            }
            Op::Prev => {
                if pos > 0 {
                    pos -= 1
                }
            }
            Op::Seek(k) => pos = es.iter().position(|e| e.key.as_slice() >= k.as_slice()).unwrap_or(n) + 1,
            Op::Get(k, t) => {
                out.push(reference_load(es, k, *t));
                continue;
            }
        }
        out.push(show_e(if pos >= 1 && pos <= n { Some(&es[pos - 1]) } else { None }));
    }
    out
}

// ------------------------------------------------------------------------------------------------
// running the real code
// ------------------------------------------------------------------------------------------------

fn feed<B: Builder>(b: &mut B, atts: &[E]) -> String {
    let mut res = String::new();
    for a in atts {
        let r = guarded(Aus(|| match &a.val {
            Some(v) => b.put(&a.key, a.ts, v),
            None => b.del(&a.key, a.ts),
        }));
        res.push(put_char(&r));
    }
    res
}

fn observe<C: Cursor>(c: &C) -> String {
    match c.key_value() {
        None => ".".into(),
        Some(kvr) => show_kv(kvr.key, kvr.timestamp, kvr.value),
    }
}

fn run_real<C: Cursor>(c: &mut C, ops: &[Op], load: &dyn Fn(&[u8], u64) -> Result<(Option<Vec<u8>>, bool), SError>) -> Vec<String> {
    let mut out = vec![];
    for op in ops {
        let r = guarded(Aus(|| -> Result<String, SError> {
            match op {
                Op::First => c.seek_to_first()?,
                Op::Last => c.seek_to_last()?,
                Op::Next => c.next()?,
                Op::Prev => c.prev()?,
                Op::Seek(k) => c.seek(k)?,
                Op::Get(k, t) => {
                    let (v, tomb) = load(k, *t)?;
                    return Ok(match (v, tomb) {
                        (Some(v), _) => format!("v{}", show_bytes(&v)),
                        (None, true) => "tomb".into(),
                        (None, false) => "absent".into(),
                    });
                }
            }
            Ok(observe(c))
        }));
        out.push(match r {
            Ok(Ok(s)) => s,
            Ok(Err(e)) => format!("E:{}", code(&e)),
            Err(_) => "panic".into(),
        });
    }
    out
}

/// the whole table through a real cursor, forward and backward (independent of the program)
fn enumerate<C: Cursor>(c: &mut C) -> Result<(Vec<String>, Vec<String>), String> {
    let r = guarded(Aus(|| -> Result<(Vec<String>, Vec<String>), SError> {
        let mut f = vec![];
        c.seek_to_first()?;
        c.next()?;
        while c.key().is_some() {
            f.push(observe(c));
            c.next()?;
            if f.len() > 100000 {
                break;
            }
        }
        let mut b = vec![];
        c.seek_to_last()?;
        c.prev()?;
        while c.key().is_some() {
            b.push(observe(c));
            c.prev()?;
            if b.len() > 100000 {
                break;
            }
        }
        b.reverse();
        Ok((f, b))
    }));
    match r {
        Ok(Ok(x)) => Ok(x),
        Ok(Err(e)) => Err(format!("error {}", code(&e))),
        Err(m) => Err(format!("panic {}", m)),
    }
}

fn first_diff(a: &[String], b: &[String]) -> String {
    for i in 0..a.len().max(b.len()) {
        let x = a.get(i).map(|s| s.as_str()).unwrap_or("<none>");
        let y = b.get(i).map(|s| s.as_str()).unwrap_or("<none>");
        if x != y {
            return format!("at {}: got {} want {}", i, x, y);
        }
    }
    "equal".into()
}

fn trunc(s: &str) -> String {
    if s.len() > 300 {
        format!("{}…", &s[..300])
    } else {
        s.to_string()
    }
}

// ------------------------------------------------------------------------------------------------
// SST file layout (read independently of the crate)
// ------------------------------------------------------------------------------------------------

fn varint(b: &[u8], i: &mut usize) -> Option<u64> {
    let mut v: u64 = 0;
    let mut sh = 0;
    loop {
        let x = *b.get(*i)?;
        *i += 1;
        v |= ((x & 0x7f) as u64) << sh;
        if x < 128 {
            return Some(v);
        }
        sh += 7;
        if sh > 63 {
            return None;
        }
    }
}

struct Layout {
    blocks: Vec<Vec<u8>>,
    index: Vec<u8>,
    filter: Vec<u8>,
    fin: Vec<u8>,
}

fn parse_layout(file: &[u8]) -> Option<Layout> {
    if file.len() < 8 {
        return None;
    }
    let mut off = [0u8; 8];
    off.copy_from_slice(&file[file.len() - 8..]);
    let fbo = u64::from_le_bytes(off) as usize;
    if fbo > file.len() {
        return None;
    }
    let mut i = 0;
    let mut plain: Vec<Vec<u8>> = vec![];
    let mut filter: Option<Vec<u8>> = None;
    while i < fbo {
        let tag = file[i];
        i += 1;
        let n = varint(file, &mut i)? as usize;
        if i + n > fbo {
            return None;
        }
        let body = file[i..i + n].to_vec();
        i += n;
        match tag {
            82 if filter.is_none() => plain.push(body),
            106 if filter.is_none() => filter = Some(body),
            _ => return None,
        }
    }
    let index = plain.pop()?;
    Some(Layout { blocks: plain, index, filter: filter?, fin: file[fbo..].to_vec() })
}

fn hex_list(l: &[Vec<u8>]) -> String {
    if l.is_empty() {
        "none".into()
    } else {
        l.iter().map(|b| tok(b)).collect::<Vec<_>>().join(",")
    }
}

fn sst_options(bri: u64, pri: u64, tbs: u64, bloom: u64, tfs: Option<u64>) -> SstOptions {
    let a = [
        "--block-bytes-restart-interval".to_string(),
        bri.to_string(),
        "--block-key-value-pairs-restart-interval".to_string(),
        pri.to_string(),
        "--target-block-size".to_string(),
        tbs.to_string(),
        "--bloom-filter-bits".to_string(),
        bloom.to_string(),
    ];
    let mut v: Vec<String> = a.to_vec();
    if let Some(t) = tfs {
        v.push("--target-file-size".into());
        v.push(t.to_string());
    }
    let r: Vec<&str> = v.iter().map(|s| s.as_str()).collect();
    SstOptions::from_arguments_relaxed("blueharness", &r).0
}

/// every block of a table through `Block::new` + cursor, and the dividers from the index block
fn blocks_oracle(lay: &Layout, acc: &[E]) -> Vec<String> {
    let mut fails = vec![];
    let mut all: Vec<String> = vec![];
    let mut firsts: Vec<(Vec<u8>, u64)> = vec![];
    let mut lasts: Vec<(Vec<u8>, u64)> = vec![];
    for b in &lay.blocks {
        let r = guarded(Aus(|| -> Result<Vec<(Vec<u8>, u64, String)>, SError> {
            let blk = Block::new(b.clone())?;
            let mut c = blk.cursor();
            let mut v = vec![];
            c.seek_to_first()?;
            c.next()?;
            while let Some(kvr) = c.key_value() {
                v.push((kvr.key.to_vec(), kvr.timestamp, show_kv(kvr.key, kvr.timestamp, kvr.value)));
                c.next()?;
            }
            Ok(v)
        }));
        match r {
            Ok(Ok(v)) => {
                if v.is_empty() {
                    fails.push("empty data block".to_string());
                } else {
                    firsts.push((v[0].0.clone(), v[0].1));
                    lasts.push((v[v.len() - 1].0.clone(), v[v.len() - 1].1));
                }
                all.extend(v.into_iter().map(|x| x.2));
            }
            _ => fails.push("data block unreadable".to_string()),
        }
    }
    let want: Vec<String> = acc.iter().map(|e| show_e(Some(e))).collect();
    if all != want {
        fails.push(format!("blocks do not concatenate to the input: {}", first_diff(&all, &want)));
    }
    // dividers: at or after the last entry of their block, before the first entry of the next
    let r = guarded(Aus(|| -> Result<Vec<(Vec<u8>, u64)>, SError> {
        let blk = Block::new(lay.index.clone())?;
        let mut c = blk.cursor();
        let mut v = vec![];
        c.seek_to_first()?;
        c.next()?;
        while let Some(kr) = c.key() {
            v.push((kr.key.to_vec(), kr.timestamp));
            c.next()?;
        }
        Ok(v)
    }));
    match r {
        Ok(Ok(divs)) => {
            if divs.len() != lay.blocks.len() {
                fails.push(format!("{} dividers for {} blocks", divs.len(), lay.blocks.len()));
            } else if fails.is_empty() {
                for i in 0..divs.len() {
                    if kr_lt(&divs[i].0, divs[i].1, &lasts[i].0, lasts[i].1) {
                        fails.push(format!("divider {} sorts before its block's last entry", i));
                    }
                    if i + 1 < divs.len() && !kr_lt(&divs[i].0, divs[i].1, &firsts[i + 1].0, firsts[i + 1].1) {
                        fails.push(format!("divider {} does not sort before the next block's first entry", i));
                    }
                }
            }
        }
        _ => {
            if !(acc.is_empty()) {
                fails.push("index block unreadable".to_string())
            }
        }
    }
    fails
}

// ------------------------------------------------------------------------------------------------
// the bloom filter (sst/src/sbbf.rs) from the hash word on: `bloom …` requests

fn bloom_err_class(m: &str) -> &'static str {
    match m {
        "bloom filter must have a non-zero length" => "empty",
        "bloom filter must be a multiple of 32 in length" => "not-multiple-of-32",
        "block must be exactly 32 bytes" => "block-not-32",
        _ => "other",
    }
}

/// `((x >> 32) * n) >> 32` in 128-bit arithmetic (the generator's own, to aim items at one block)
fn bloom_block_of(word: u64, nblocks: u64) -> u64 {
    ((((word >> 32) as u128) * nblocks as u128) >> 32) as u64
}

fn bloom_words(ws: &[u64]) -> String {
    if ws.is_empty() {
        "-".into()
    } else {
        ws.iter().map(|w| w.to_string()).collect::<Vec<_>>().join(",")
    }
}

/// the serialised filter cut or extended (with `a5`) to `len` bytes
fn bloom_resize(bytes: &[u8], len: usize) -> Vec<u8> {
    let mut v = bytes.to_vec();
    v.resize(len, 0xa5);
    v
}

/// `Filter::try_from` on `bytes`: (rendering, oracle complaints)
fn bloom_parse(bytes: &[u8], fails: &mut Vec<(String, String)>) -> (String, Option<sst::sbbf::Filter>) {
    use sst::sbbf::Filter;
    let b2 = bytes.to_vec();
    match guarded(move || Filter::try_from(&b2[..])) {
        Err(m) => {
            fails.push(("bloom-panic".into(), format!("try_from on {} bytes panicked: {}", bytes.len(), m)));
            ("panic".into(), None)
        }
        Ok(Err(m)) => {
            let class = bloom_err_class(m);
            let want_err = bytes.is_empty() || bytes.len() % 32 != 0;
            let want = if bytes.is_empty() { "empty" } else { "not-multiple-of-32" };
            if !want_err || class != want {
                fails.push(("bloom-tryfrom-class".into(), format!("try_from on {} bytes answers error {}", bytes.len(), class)));
            }
            (format!("err:{}", class), None)
        }
        Ok(Ok(g)) => {
            let n = g.approximate_size() / 32;
            let g2 = g.clone();
            let back = guarded(move || g2.to_bytes()).unwrap_or_default();
            if bytes.is_empty() || bytes.len() % 32 != 0 {
                fails.push(("bloom-tryfrom-class".into(), format!("try_from accepts {} bytes", bytes.len())));
            } else if n != bytes.len() / 32 || back != bytes {
                fails.push(("bloom-reserialise".into(), format!("try_from on {} bytes gives {} blocks / other bytes back", bytes.len(), n)));
            }
            (format!("ok{}/{}", n, show_bytes(&back)), Some(g))
        }
    }
}

fn bloom_checks(f: &sst::sbbf::Filter, items: &[Vec<u8>], fails: &mut Vec<(String, String)>) -> (String, Vec<Option<bool>>) {
    if items.is_empty() {
        return ("-".into(), vec![]);
    }
    let mut s = String::new();
    let mut v = vec![];
    for it in items {
        match guarded(Aus(|| f.check(it))) {
            Ok(true) => {
                s.push('1');
                v.push(Some(true));
            }
            Ok(false) => {
                s.push('0');
                v.push(Some(false));
            }
            Err(m) => {
                s.push('!');
                v.push(None);
                fails.push(("bloom-panic".into(), format!("check({}) panicked: {}", hex(it), m)));
            }
        }
    }
    (s, v)
}

fn bloom_item(rng: &mut Rng, style: u64) -> Vec<u8> {
    match style {
        0 => {
            let n = rng.below(21) as usize;
            rng.bytes(n)
        }
        1 => {
            let n = rng.below(4) as usize;
            (0..n).map(|_| *rng.pick(&ALPHA)).collect()
        }
        _ => {
            let n = 1 + rng.below(12) as usize;
            (0..n).map(|_| b'a' + rng.below(26) as u8).collect()
        }
    }
}

const BLOOM_SIZES: [u32; 20] = [0, 1, 7, 8, 9, 248, 249, 250, 255, 256, 257, 504, 505, 506, 761, 762, 8191, 8192, 8193, 65535];

fn bloom_stream(args: &Args, rec: &mut Recorder, n_bloom: u64) {
    use sst::sbbf::Filter;
    for i in 0..n_bloom {
        if !rec.wants() {
            rec.skip();
            continue;
        }
        let mut rng = Rng::for_case(args.seed, 5, i);
        let mut fails: Vec<(String, String)> = vec![];
        rec.count("bloom");
        match i % 8 {
            // ---- Filter::new: the block count for a requested number of bits -------------------
            0 => {
                let big: [u32; 12] = [1 << 16, (1 << 16) + 249, (1 << 16) + 250, 1 << 20, (1 << 20) - 7, (1 << 20) - 6, (1 << 24) - 263, (1 << 24) - 262, (1 << 24) - 7, (1 << 24) - 6, (1 << 24) - 1, 1 << 24];
                let size: u32 = if args.thorough && i == 8 {
                    u32::MAX
                } else if args.thorough && i == 16 {
                    u32::MAX - 6
                } else if args.thorough && i == 24 {
                    u32::MAX - 7
                } else {
                    match rng.below(4) {
                        0 => *rng.pick(&BLOOM_SIZES),
                        1 => *rng.pick(&big),
                        2 => rng.below(70000) as u32,
                        _ => rng.below(if args.thorough { 1 << 28 } else { 1 << 24 }) as u32,
                    }
                };
                let obs = match guarded(move || Filter::new(size).approximate_size()) {
                    Ok(sz) => {
                        let n = sz / 32;
                        if sz % 32 != 0 || n < 1 || (n as u64) * 256 < size as u64 {
                            fails.push(("bloom-size".into(), format!("Filter::new({}) has {} bytes", size, sz)));
                        }
                        format!("n={}", n)
                    }
                    Err(m) => {
                        fails.push(("bloom-panic".into(), format!("Filter::new({}) panicked: {}", size, m)));
                        "panic".into()
                    }
                };
                rec.count("bloom.new");
                if size >= 1 << 24 {
                    rec.count("bloom.new.size_2^24_or_more");
                }
                if size >= u32::MAX - 7 {
                    rec.count("bloom.new.size_near_u32_max");
                }
                let req = format!("bloom new {}", size);
                let v = match fails.into_iter().next() {
                    None => Verdict::Ok,
                    Some((class, detail)) => Verdict::Fail { class, detail },
                };
                rec.case(&req, &obs, v, None);
            }
            // ---- Filter::try_from on bytes no filter wrote, then checks -------------------------
            1 => {
                let len = match rng.below(3) {
                    0 => *rng.pick(&[0usize, 1, 31, 32, 33, 63, 64, 65, 95, 96, 97, 127, 128, 129, 320, 321]),
                    1 => 32 * rng.below(9) as usize,
                    _ => rng.below(200) as usize,
                };
                let bytes: Vec<u8> = match rng.below(5) {
                    0 => vec![0xff; len],
                    1 => vec![0x00; len],
                    2 => (0..len).map(|_| if rng.chance(1, 6) { 1u8 << rng.below(8) } else { 0 }).collect(),
                    3 => (0..len).map(|_| if rng.chance(1, 6) { !(1u8 << rng.below(8)) } else { 0xff }).collect(),
                    _ => rng.bytes(len),
                };
                let items: Vec<Vec<u8>> = (0..6).map(|_| bloom_item(&mut rng, 0)).collect();
                let words: Vec<u64> = items.iter().map(|it| Filter::defer_insert(it)).collect();
                let (mut obs, g) = bloom_parse(&bytes, &mut fails);
                if let Some(g) = g {
                    let (c, _) = bloom_checks(&g, &items, &mut fails);
                    obs.push_str(&format!(" c={}", c));
                    rec.count("bloom.parse.accepted");
                } else {
                    rec.count("bloom.parse.refused");
                }
                rec.count("bloom.parse");
                let req = format!("bloom parse {} {}", tok(&bytes), bloom_words(&words));
                let v = match fails.into_iter().next() {
                    None => Verdict::Ok,
                    Some((class, detail)) => Verdict::Fail { class, detail },
                };
                rec.case(&req, &obs, v, None);
            }
            // ---- a filter built from items: bytes, checks, round trip, resized copies -----------
            _ => {
                let size: u32 = if i == 2 {
                    1 << 24
                } else {
                    match rng.below(8) {
                        0 | 1 | 2 => *rng.pick(&BLOOM_SIZES),
                        3 | 4 => rng.below(2000) as u32,
                        5 | 6 => rng.below(20000) as u32,
                        _ => rng.below(1 << 20) as u32,
                    }
                };
                let nblocks_gen = ((size.saturating_add(7) >> 8) as u64) + 1;
                let style = rng.below(5);
                let count = match rng.below(6) {
                    0 => 0usize,
                    1 => 1,
                    2 => 2 + rng.below(6) as usize,
                    3 | 4 => rng.below(60) as usize,
                    _ => rng.below(301) as usize,
                };
                let mut items: Vec<Vec<u8>> = vec![];
                match style {
                    // items aimed at one block (the same 256 bits filled up)
                    3 if nblocks_gen <= 40 => {
                        let target = rng.below(nblocks_gen);
                        let mut tries = 0;
                        while items.len() < count && tries < 40000 {
                            tries += 1;
                            let it = bloom_item(&mut rng, 0);
                            if bloom_block_of(Filter::defer_insert(&it), nblocks_gen) == target {
                                items.push(it);
                            }
                        }
                        rec.count("bloom.filter.items_aimed_at_one_block");
                    }
                    // the empty item and repeated items
                    4 => {
                        items.push(vec![]);
                        for _ in 1..count.max(1) {
                            if !items.is_empty() && rng.chance(1, 3) {
                                let j = rng.below(items.len() as u64) as usize;
                                items.push(items[j].clone());
                            } else {
                                items.push(bloom_item(&mut rng, 1));
                            }
                        }
                        rec.count("bloom.filter.with_empty_and_repeated_items");
                    }
                    st => {
                        for _ in 0..count {
                            items.push(bloom_item(&mut rng, st % 3));
                        }
                    }
                }
                // queries: half inserted, half fresh
                let nq = 2 + rng.below(20) as usize;
                let mut queries: Vec<(Vec<u8>, bool)> = vec![];
                for q in 0..nq {
                    if q % 2 == 0 && !items.is_empty() {
                        let j = rng.below(items.len() as u64) as usize;
                        queries.push((items[j].clone(), true));
                    } else {
                        let mut it = bloom_item(&mut rng, if style == 4 { 1 } else { style % 3 });
                        let mut guard = 0;
                        while items.contains(&it) && guard < 50 {
                            it = bloom_item(&mut rng, 0);
                            it.push(0x7f);
                            guard += 1;
                        }
                        let inserted = items.contains(&it);
                        queries.push((it, inserted));
                    }
                }
                let ins_words: Vec<u64> = items.iter().map(|it| Filter::defer_insert(it)).collect();
                let q_items: Vec<Vec<u8>> = queries.iter().map(|q| q.0.clone()).collect();
                let q_words: Vec<u64> = q_items.iter().map(|it| Filter::defer_insert(it)).collect();
                let by_item = i % 2 == 0;
                let items2 = items.clone();
                let words2 = ins_words.clone();
                let built = guarded(move || {
                    let mut f = Filter::new(size);
                    if by_item {
                        for it in &items2 {
                            f.insert(it);
                        }
                    } else {
                        for w in &words2 {
                            f.deferred_insert(*w);
                        }
                    }
                    f
                });
                let mut nblocks = 0usize;
                let mut fresh_false = 0u64;
                let mut lens: Vec<usize> = vec![];
                let obs = match built {
                    Err(m) => {
                        fails.push(("bloom-panic".into(), format!("Filter::new({}) + {} inserts panicked: {}", size, items.len(), m)));
                        "panic".to_string()
                    }
                    Ok(f) => {
                        nblocks = f.approximate_size() / 32;
                        let f2 = f.clone();
                        let bytes = match guarded(move || f2.to_bytes()) {
                            Ok(b) => b,
                            Err(m) => {
                                fails.push(("bloom-panic".into(), format!("to_bytes panicked: {}", m)));
                                vec![]
                            }
                        };
                        if nblocks < 1 || (nblocks as u64) * 256 < size as u64 || bytes.len() != 32 * nblocks {
                            fails.push(("bloom-size".into(), format!("Filter::new({}): {} blocks, {} bytes", size, nblocks, bytes.len())));
                        }
                        // every inserted item checks true
                        let (_, all) = bloom_checks(&f, &items, &mut fails);
                        for (j, r) in all.iter().enumerate() {
                            if *r == Some(false) {
                                fails.push(("bloom-false-negative".into(), format!("size {} item {} (word {}) inserted, check says false", size, hex(&items[j]), ins_words[j])));
                                break;
                            }
                        }
                        let (c, cv) = bloom_checks(&f, &q_items, &mut fails);
                        for (j, r) in cv.iter().enumerate() {
                            if !queries[j].1 {
                                if *r == Some(false) {
                                    fresh_false += 1;
                                } else {
                                    rec.count("bloom.filter.false_positive_answers");
                                }
                            }
                        }
                        let mut line = format!("n={} b={} c={}", nblocks, show_bytes(&bytes), c);
                        let mut f3 = vec![];
                        let (r, g) = bloom_parse(&bytes, &mut f3);
                        fails.extend(f3);
                        match g {
                            Some(g) => {
                                if g != f {
                                    fails.push(("bloom-roundtrip".into(), format!("size {} {} items: try_from(to_bytes()) is another filter", size, items.len())));
                                }
                                let (_, all) = bloom_checks(&g, &items, &mut fails);
                                if all.iter().any(|r| *r == Some(false)) {
                                    fails.push(("bloom-false-negative".into(), format!("size {}: an inserted item checks false on the re-parsed filter", size)));
                                }
                                let (c2, _) = bloom_checks(&g, &q_items, &mut fails);
                                line.push_str(&format!(" rt={} c2={}", if g == f { "eq" } else { "ne" }, c2));
                            }
                            None => {
                                if !r.starts_with("panic") {
                                    fails.push(("bloom-roundtrip".into(), format!("size {}: try_from(to_bytes()) answers {}", size, r)));
                                }
                                line.push_str(&format!(" rt={}", r));
                            }
                        }
                        // resized copies of the serialised filter
                        let l = bytes.len();
                        for cand in [0usize, 31, 32, 33, 65, l.saturating_sub(32), l.saturating_sub(1), l + 1, l + 31, l + 32, l + 64] {
                            if !lens.contains(&cand) && cand != l && cand <= 70000 {
                                lens.push(cand);
                            }
                        }
                        let keep = 3 + rng.below(4) as usize;
                        rng.shuffle(&mut lens);
                        lens.truncate(keep);
                        let mut ts = vec![];
                        for len in &lens {
                            let (r, _) = bloom_parse(&bloom_resize(&bytes, *len), &mut fails);
                            ts.push(r);
                        }
                        line.push_str(&format!(" T={}", if ts.is_empty() { "-".to_string() } else { ts.join(",") }));
                        line
                    }
                };
                let mut distinct = items.clone();
                distinct.sort();
                distinct.dedup();
                rec.count("bloom.filter");
                rec.count(if by_item { "bloom.filter.insert_by_item" } else { "bloom.filter.deferred_insert" });
                rec.add("bloom.filter.blocks", nblocks as u64);
                rec.add("bloom.filter.inserted", items.len() as u64);
                rec.add("bloom.filter.queries", queries.len() as u64);
                rec.add("bloom.filter.fresh_queries_answered_false", fresh_false);
                if items.is_empty() {
                    rec.count("bloom.filter.nothing_inserted");
                }
                if nblocks >= 2 {
                    rec.count("bloom.filter.two_or_more_blocks");
                }
                if BLOOM_SIZES.contains(&size) {
                    rec.count("bloom.filter.boundary_size");
                }
                let req = format!(
                    "bloom filter {} {} {} {}",
                    size,
                    bloom_words(&ins_words),
                    bloom_words(&q_words),
                    if lens.is_empty() { "-".to_string() } else { lens.iter().map(|l| l.to_string()).collect::<Vec<_>>().join(",") }
                );
                let nontrivial = nblocks >= 2 && distinct.len() >= 2 && fresh_false >= 1;
                if nontrivial {
                    rec.count("bloom.filter.nontrivial");
                }
                let v = match fails.into_iter().next() {
                    None => Verdict::Ok,
                    Some((class, detail)) => Verdict::Fail { class, detail },
                };
                rec.case(&req, &obs, v, if nontrivial { Some(fnv(req.as_bytes())) } else { None });
            }
        }
    }
}

// ------------------------------------------------------------------------------------------------

pub fn run(args: &Args) {
    let mut rec = Recorder::new(&args.out, args.only_case);
    let scale = if args.thorough { 10 } else { 1 };
    let n_block = 700 * scale;
    let n_sst = 500 * scale;
    let n_multi = 120 * scale;
    let n_dec = 60 * scale;
    let tmp = format!("/var/tmp/blueharness-c10-{}-{}", std::process::id(), args.seed);
    let _ = std::fs::remove_dir_all(&tmp);
    std::fs::create_dir_all(&tmp).unwrap();

    // ---- stream 1: blocks -------------------------------------------------------------------
    for i in 0..n_block {
        if !rec.wants() {
            rec.skip();
            continue;
        }
        let mut rng = Rng::for_case(args.seed, 1, i);
        let style = if i % 10 == 9 { 4 } else { *rng.pick(&[0u64, 1, 2, 3, 5, 5]) };
        let target = match i {
            0 => 0,
            1 => 1,
            _ => *rng.pick(&[1usize, 2, 3, 5, 8, 13, 20, 30, 45]),
        };
        let long_ok = style == 4 || rng.chance(1, 25);
        let es = gen_entries(&mut rng, style, target, long_ok);
        let reject = i % 4 == 3;
        let nbad = 1 + rng.below(3);
        let (atts, kinds) = if reject { inject_bad(&mut rng, &es, nbad) } else { (es.clone(), vec![]) };
        let rb = 1 + rng.below(200);
        let bri = *rng.pick(&[1u64, 2, 10, 25, 40, 64, 100, 1024, rb]);
        let rp = 1 + rng.below(20);
        let pri = *rng.pick(&[1u64, 1, 2, 3, 4, 5, 16, rp]);
        let (want_res, acc) = reference_accept(&atts);
        let sweep = rng.chance(1, 2) && acc.len() <= 60;
        let plen = 4 + rng.below(30) as usize;
        let ops = gen_program(&mut rng, &acc, plen, sweep);
        let req = format!(
            "block build {} {} {} {} {}",
            bri,
            pri,
            atts.len(),
            atts.iter().map(|e| entry_tok(e, false)).collect::<Vec<_>>().join(" "),
            ops.iter().map(op_tok).collect::<Vec<_>>().join(" ")
        );
        let req = req.trim_end().replace("  ", " ");

        let mut fails: Vec<String> = vec![];
        let opts = BlockBuilderOptions::default().bytes_restart_interval(bri as u32).key_value_pairs_restart_interval(pri as u32);
        let mut bb = BlockBuilder::new(opts);
        let res = feed(&mut bb, &atts);
        if res != want_res {
            fails.push(format!("builder answers {} want {}", res, want_res));
        }
        let sealed = guarded(Aus(move || bb.seal()));
        let observed = match sealed {
            Ok(Ok(block)) => {
                let blk2 = block.clone();
                let load = move |k: &[u8], t: u64| {
                    let mut tomb = false;
                    let v = blk2.load(k, t, &mut tomb)?;
                    Ok((v, tomb))
                };
                let mut c = block.cursor();
                let obs = run_real(&mut c, &ops, &load);
                let want = reference_run(&acc, &ops);
                if obs != want {
                    fails.push(format!("cursor program: {}", first_diff(&obs, &want)));
                }
                let want_all: Vec<String> = acc.iter().map(|e| show_e(Some(e))).collect();
                match enumerate(&mut block.cursor()) {
                    Ok((f, b)) => {
                        if f != want_all {
                            fails.push(format!("forward enumeration: {}", first_diff(&f, &want_all)));
                        }
                        if b != want_all {
                            fails.push(format!("backward enumeration: {}", first_diff(&b, &want_all)));
                        }
                    }
                    Err(m) => fails.push(format!("enumeration: {}", m)),
                }
                let mut line = format!("r={} b={}", res, tok(block.as_bytes()));
                for o in obs {
                    line.push(' ');
                    line.push_str(&o);
                }
                line
            }
            Ok(Err(e)) => {
                fails.push("seal failed".into());
                format!("r={} seal-err:{}", res, code(&e))
            }
            Err(m) => {
                fails.push(format!("seal panicked: {}", m));
                format!("r={} seal-panic", res)
            }
        };
        rec.count("block");
        rec.count(&format!("block.style{}", style));
        rec.add("block.entries", acc.len() as u64);
        rec.add("block.ops", ops.len() as u64);
        if bri == 1 || pri == 1 {
            rec.count("block.restart_interval_1");
        }
        if acc.is_empty() {
            rec.count("block.empty");
        }
        if reject {
            rec.count("block.with_rejections");
            rec.add("block.rejected_attempts", want_res.chars().filter(|c| *c != '.').count() as u64);
            for k in &kinds {
                rec.count(&format!("reject.{}", k));
            }
        }
        if acc.iter().any(|e| e.key.is_empty()) {
            rec.count("block.with_empty_key");
        }
        if acc.iter().any(|e| e.key.len() == MAX_KEY_LEN) {
            rec.count("block.with_max_key");
        }
        if acc.iter().any(|e| e.val.as_ref().map(|v| v.len() == MAX_VALUE_LEN).unwrap_or(false)) {
            rec.count("block.with_max_value");
        }
        if acc.windows(2).any(|w| w[0].val.is_none() && w[1].val.is_none()) {
            rec.count("block.with_tombstone_run");
        }
        if acc.windows(3).any(|w| w[0].key == w[1].key && w[1].key == w[2].key) {
            rec.count("block.with_3_versions_of_a_key");
        }
        let nt = if (acc.len() >= 2 && ops.len() >= 3) || want_res.chars().any(|c| c != '.') { Some(fnv(req.as_bytes())) } else { None };
        let class = if acc.is_empty() { "empty-sequence" } else if reject { "block-reject" } else { "block" };
        let v = if fails.is_empty() { Verdict::Ok } else { Verdict::Fail { class: class.into(), detail: trunc(&fails.join("; ")) } };
        rec.case(&req, &observed, v, nt);
    }

    // ---- stream 2: tables -------------------------------------------------------------------
    for i in 0..n_sst {
        if !rec.wants() {
            rec.skip();
            continue;
        }
        let mut rng = Rng::for_case(args.seed, 2, i);
        let style = if i % 12 == 11 { 4 } else { *rng.pick(&[0u64, 1, 2, 3, 5, 5]) };
        let target = match i {
            0 => 0,
            1 => 1,
            _ => *rng.pick(&[1usize, 2, 3, 5, 8, 13, 21, 34, 55, 90]),
        };
        let long_ok = style == 4 || rng.chance(1, 30);
        let es = gen_entries(&mut rng, style, target, long_ok);
        let reject = i % 5 == 4;
        let nbad = 1 + rng.below(3);
        let (atts, kinds) = if reject { inject_bad(&mut rng, &es, nbad) } else { (es.clone(), vec![]) };
        let rb = 1 + rng.below(200);
        let bri = *rng.pick(&[1u64, 2, 25, 64, 1024, rb]);
        let rp = 1 + rng.below(20);
        let pri = *rng.pick(&[1u64, 2, 3, 16, rp]);
        let tbs = *rng.pick(&[0u64, 1, 30, 45, 64, 100, 200, 400, 1000, 4096, 1 << 16]);
        let bloom = *rng.pick(&[0u64, 1, 8, 17, 255]);
        let (want_res, acc) = reference_accept(&atts);
        let sweep = rng.chance(1, 2) && acc.len() <= 60;
        let plen = 4 + rng.below(30) as usize;
        let ops = gen_program(&mut rng, &acc, plen, sweep);
        let path = format!("{}/t{}.sst", tmp, rec.n);
        let _ = std::fs::remove_file(&path);

        let mut fails: Vec<String> = vec![];
        let options = sst_options(bri, pri, tbs, bloom, None);
        let mut line;
        let mut filter_bytes: Vec<u8>;
        // the filter block as the public bloom filter API builds it from the accepted keys
        {
            let mut f = sst::sbbf::Filter::new((acc.len() as u32).saturating_mul(bloom as u32));
            for e in &acc {
                f.insert(&e.key);
            }
            filter_bytes = f.to_bytes();
        }
        let mut nblocks = 0usize;
        match guarded(Aus(|| SstBuilder::new(options.clone(), &path))) {
            Ok(Ok(mut sb)) => {
                let res = feed(&mut sb, &atts);
                if res != want_res {
                    fails.push(format!("builder answers {} want {}", res, want_res));
                }
                line = format!("r={}", res);
                let sealed = guarded(Aus(move || sb.seal()));
                let file = std::fs::read(&path).unwrap_or_default();
                let lay = parse_layout(&file);
                match &lay {
                    Some(l) => {
                        if l.filter != filter_bytes {
                            fails.push("filter block differs from sbbf::Filter over the accepted keys".into());
                        }
                        filter_bytes = l.filter.clone();
                        nblocks = l.blocks.len();
                        fails.extend(blocks_oracle(l, &acc));
                    }
                    None => fails.push("file layout unreadable".into()),
                }
                match sealed {
                    Ok(Ok(table)) => {
                        if let Some(l) = &lay {
                            line.push_str(&format!(" B={} I={} Z={}", hex_list(&l.blocks), tok(&l.index), tok(&l.fin)));
                        } else {
                            line.push_str(" layout?");
                        }
                        match guarded(Aus(|| table.metadata())) {
                            Ok(Ok(md)) => {
                                line.push_str(&format!(" M={}", tok(&buffertk::stack_pack(md.clone()).to_vec())));
                                let want_first: Vec<u8> = acc.first().map(|e| e.key.clone()).unwrap_or_default();
                                let want_last: Vec<u8> = acc.last().map(|e| e.key.clone()).unwrap_or(sst::MAX_KEY.to_vec());
                                if md.first_key != want_first {
                                    fails.push("metadata.first_key".into());
                                }
                                if md.last_key != want_last {
                                    fails.push("metadata.last_key".into());
                                }
                                let (smin, smax) = if acc.is_empty() { (0, 0) } else { (acc.iter().map(|e| e.ts).min().unwrap(), acc.iter().map(|e| e.ts).max().unwrap()) };
                                if md.smallest_timestamp != smin || md.biggest_timestamp != smax {
                                    fails.push(format!("metadata timestamps {}..{} want {}..{}", md.smallest_timestamp, md.biggest_timestamp, smin, smax));
                                }
                                let mut ss = sst::Setsum::default();
                                for e in &acc {
                                    match &e.val {
                                        Some(v) => ss.put(&e.key, e.ts, v),
                                        None => ss.del(&e.key, e.ts),
                                    }
                                }
                                if md.setsum != ss.digest() {
                                    fails.push("metadata.setsum differs from Setsum::put/del over the entries".into());
                                }
                                if md.setsum != setsum_definition(&acc) {
                                    fails.push("metadata.setsum differs from the published definition".into());
                                }
                                if md.file_size != file.len() as u64 {
                                    fails.push(format!("metadata.file_size {} but the file has {} bytes", md.file_size, file.len()));
                                }
                            }
                            Ok(Err(e)) => {
                                line.push_str(&format!(" M=E:{}", code(&e)));
                                fails.push("metadata failed".into());
                            }
                            Err(_) => {
                                line.push_str(" M=panic");
                                fails.push("metadata panicked".into());
                            }
                        }
                        let t2 = table.clone();
                        let load = move |k: &[u8], t: u64| {
                            let mut tomb = false;
                            let v = t2.load(k, t, &mut tomb)?;
                            Ok((v, tomb))
                        };
                        let mut c = table.cursor();
                        let obs = run_real(&mut c, &ops, &load);
                        let want = reference_run(&acc, &ops);
                        if obs != want {
                            fails.push(format!("cursor program: {}", first_diff(&obs, &want)));
                        }
                        let want_all: Vec<String> = acc.iter().map(|e| show_e(Some(e))).collect();
                        match enumerate(&mut table.cursor()) {
                            Ok((f, b)) => {
                                if f != want_all {
                                    fails.push(format!("forward enumeration: {}", first_diff(&f, &want_all)));
                                }
                                if b != want_all {
                                    fails.push(format!("backward enumeration: {}", first_diff(&b, &want_all)));
                                }
                            }
                            Err(m) => fails.push(format!("enumeration: {}", m)),
                        }
                        // every key that went in is found at its own timestamp (no bloom false negative)
                        for e in &acc {
                            let mut tomb = false;
                            match guarded(Aus(|| table.load(&e.key, e.ts, &mut tomb))) {
                                Ok(Ok(v)) => {
                                    if v != e.val || tomb != e.val.is_none() {
                                        fails.push(format!("load of an inserted entry: {}", show_e(Some(e))));
                                        break;
                                    }
                                }
                                _ => {
                                    fails.push("load failed".into());
                                    break;
                                }
                            }
                        }
                        for o in obs {
                            line.push(' ');
                            line.push_str(&o);
                        }
                    }
                    Ok(Err(e)) => {
                        fails.push(format!("seal failed: {}", code(&e)));
                        line.push_str(&format!(" seal-err:{}", code(&e)));
                    }
                    Err(m) => {
                        fails.push(format!("seal panicked: {}", m));
                        line.push_str(" seal-panic");
                    }
                }
            }
            _ => {
                line = "builder-new-failed".into();
                fails.push("SstBuilder::new failed".into());
            }
        }
        let _ = std::fs::remove_file(&path);
        let req = format!(
            "sst build {} {} {} {} {} {} {} {}",
            bri,
            pri,
            tbs,
            bloom,
            tok(&filter_bytes),
            atts.len(),
            atts.iter().map(|e| entry_tok(e, true)).collect::<Vec<_>>().join(" "),
            ops.iter().map(op_tok).collect::<Vec<_>>().join(" ")
        );
        let req = req.trim_end().replace("  ", " ");
        rec.count("sst");
        rec.count(&format!("sst.style{}", style));
        rec.add("sst.entries", acc.len() as u64);
        rec.add("sst.data_blocks", nblocks as u64);
        rec.add("sst.ops", ops.len() as u64);
        if nblocks >= 2 && nblocks == acc.len() {
            rec.count("sst.one_entry_per_block");
        }
        if nblocks >= 2 {
            rec.count("sst.multi_block");
        }
        if acc.is_empty() {
            rec.count("sst.empty");
        }
        if reject {
            rec.count("sst.with_rejections");
            rec.add("sst.rejected_attempts", want_res.chars().filter(|c| *c != '.').count() as u64);
            for k in &kinds {
                rec.count(&format!("reject.{}", k));
            }
        }
        if acc.windows(2).any(|w| w[0].key == w[1].key) && nblocks >= 2 {
            rec.count("sst.versions_in_multi_block_table");
        }
        let nt = if acc.len() >= 2 || want_res.chars().any(|c| c != '.') { Some(fnv(req.as_bytes())) } else { None };
        let class = if acc.is_empty() { "empty-sequence" } else if reject { "sst-reject" } else { "sst" };
        let v = if fails.is_empty() { Verdict::Ok } else { Verdict::Fail { class: class.into(), detail: trunc(&fails.join("; ")) } };
        rec.case(&req, &line, v, nt);
    }

    // ---- stream 3: the multi-builder ---------------------------------------------------------
    for i in 0..n_multi {
        if !rec.wants() {
            rec.skip();
            continue;
        }
        let mut rng = Rng::for_case(args.seed, 3, i);
        let style = *rng.pick(&[0u64, 1, 2, 3, 5]);
        let target = if i == 0 { 0 } else { *rng.pick(&[1usize, 2, 3, 5, 8, 13, 21, 34]) };
        let es = gen_entries(&mut rng, style, target, false);
        let reject = i % 4 == 3;
        let nbad = 1 + rng.below(2);
        let (atts, _kinds) = if reject { inject_bad(&mut rng, &es, nbad) } else { (es.clone(), vec![]) };
        let bri = *rng.pick(&[1u64, 64, 1024]);
        let pri = *rng.pick(&[1u64, 3, 16]);
        let tbs = *rng.pick(&[0u64, 64, 400, 4096]);
        let bloom = *rng.pick(&[1u64, 17]);
        let tfs = *rng.pick(&[0u64, 250, 300, 400, 600, 1000, 4096]);
        let (want_res, acc) = reference_accept(&atts);
        let dir = format!("{}/m{}", tmp, rec.n);
        let _ = std::fs::remove_dir_all(&dir);
        std::fs::create_dir_all(&dir).unwrap();
        let options = sst_options(bri, pri, tbs, bloom, Some(tfs));
        let mut fails: Vec<String> = vec![];
        let mut mb = SstMultiBuilder::new(std::path::PathBuf::from(&dir), ".sst".to_string(), options.clone());
        let res = feed(&mut mb, &atts);
        if res != want_res {
            fails.push(format!("builder answers {} want {}", res, want_res));
        }
        let mut line = format!("r={}", res);
        let mut filters: Vec<Vec<u8>> = vec![];
        let mut nfiles = 0;
        match guarded(Aus(move || mb.seal())) {
            Ok(Ok(paths)) => {
                nfiles = paths.len();
                line.push_str(&format!(" n={}", paths.len()));
                let mut mds: Vec<Vec<u8>> = vec![];
                let mut all: Vec<String> = vec![];
                let mut bad = false;
                for p in &paths {
                    let file = std::fs::read(p).unwrap_or_default();
                    match parse_layout(&file) {
                        Some(l) => filters.push(l.filter),
                        None => {
                            fails.push("file layout unreadable".into());
                            filters.push(vec![]);
                        }
                    }
                    let r = guarded(Aus(|| -> Result<(Vec<u8>, Vec<String>), SError> {
                        let t = Sst::<sst::file_manager::FileHandle>::new(options.clone(), p)?;
                        let md = t.metadata()?;
                        if md.file_size != file.len() as u64 {
                            return Ok((vec![], vec!["file-size".into()]));
                        }
                        let mut c = t.cursor();
                        let mut v = vec![];
                        c.seek_to_first()?;
                        c.next()?;
                        while c.key().is_some() {
                            v.push(observe(&c));
                            c.next()?;
                        }
                        Ok((buffertk::stack_pack(md.clone()).to_vec(), v))
                    }));
                    match r {
                        Ok(Ok((md, v))) => {
                            mds.push(md);
                            all.extend(v);
                        }
                        Ok(Err(e)) => {
                            bad = true;
                            line.push_str(&format!(" open-err:{}", code(&e)));
                            fails.push(format!("file cannot be read: {}", code(&e)));
                        }
                        Err(m) => {
                            bad = true;
                            line.push_str(" open-panic");
                            fails.push(format!("reading a file panicked: {}", m));
                        }
                    }
                }
                if !bad {
                    line.push_str(&format!(" M={}", hex_list(&mds)));
                    let want_all: Vec<String> = acc.iter().map(|e| show_e(Some(e))).collect();
                    if all != want_all {
                        fails.push(format!("files do not concatenate to the input: {}", first_diff(&all, &want_all)));
                    }
                }
            }
            Ok(Err(e)) => {
                line.push_str(&format!(" seal-err:{}", code(&e)));
                fails.push(format!("seal failed: {}", code(&e)));
                // the model still needs the filters of the files that were written
                let mut k = 0;
                loop {
                    let p = format!("{}/{}.sst", dir, k);
                    match std::fs::read(&p) {
                        Ok(file) => filters.push(parse_layout(&file).map(|l| l.filter).unwrap_or_default()),
                        Err(_) => break,
                    }
                    k += 1;
                }
            }
            Err(m) => {
                line.push_str(" seal-panic");
                fails.push(format!("seal panicked: {}", m));
            }
        }
        let _ = std::fs::remove_dir_all(&dir);
        let req = format!(
            "sst multi {} {} {} {} {} {} {} {}",
            bri,
            pri,
            tbs,
            bloom,
            tfs,
            if filters.is_empty() { "none".to_string() } else { filters.iter().map(|f| tok(f)).collect::<Vec<_>>().join(",") },
            atts.len(),
            atts.iter().map(|e| entry_tok(e, true)).collect::<Vec<_>>().join(" ")
        );
        let req = req.trim_end().to_string();
        rec.count("multi");
        rec.add("multi.files", nfiles as u64);
        rec.add("multi.entries", acc.len() as u64);
        if nfiles >= 2 {
            rec.count("multi.several_files");
        }
        // a file without entries arises when the first attempt after a roll-over is refused
        let class = if acc.is_empty() { "empty-sequence" } else if reject { "multi-reject" } else { "multi" };
        let nt = if nfiles >= 2 { Some(fnv(req.as_bytes())) } else { None };
        let v = if fails.is_empty() { Verdict::Ok } else { Verdict::Fail { class: class.into(), detail: trunc(&fails.join("; ")) } };
        rec.case(&req, &line, v, nt);
    }

    // ---- stream 3b: split hints (oracle only: the model has no hint) --------------------------
    // `split_hint` seals the open file once it has reached the minimum file size; whatever comes
    // next is still compared with the last key accepted, across the hint: out-of-order or duplicate
    // input right after a sealing hint is refused, and the files concatenate to what was accepted.
    for i in 0..(n_multi / 4).max(6) {
        if !rec.wants() {
            rec.skip();
            continue;
        }
        let mut rng = Rng::for_case(args.seed, 13, i);
        let style = *rng.pick(&[0u64, 1, 2, 3]);
        let target = 12 + rng.below(20) as usize;
        let es = gen_entries(&mut rng, style, target, false);
        let (_, acc0) = reference_accept(&es);
        let dir = format!("{}/h{}", tmp, rec.n);
        let _ = std::fs::remove_dir_all(&dir);
        std::fs::create_dir_all(&dir).unwrap();
        let mut v: Vec<String> = vec!["--minimum-file-size".into(), "1".into(), "--target-file-size".into(), "1000000".into(), "--target-block-size".into(), "64".into()];
        v.push("--bloom-filter-bits".into());
        v.push("17".into());
        let r: Vec<&str> = v.iter().map(|s| s.as_str()).collect();
        let options = SstOptions::from_arguments_relaxed("blueharness", &r).0;
        let mut mb = SstMultiBuilder::new(std::path::PathBuf::from(&dir), ".sst".to_string(), options.clone());
        let mut fails: Vec<String> = vec![];
        let mut accepted: Vec<E> = vec![];
        let mut hints = 0;
        for (j, e) in acc0.iter().enumerate() {
            let r = guarded(Aus(|| match &e.val {
                Some(v) => mb.put(&e.key, e.ts, v),
                None => mb.del(&e.key, e.ts),
            }));
            if put_char(&r) != '.' {
                fails.push(format!("a valid entry was refused at {}", j));
                break;
            }
            accepted.push(e.clone());
            if j % 3 == 2 {
                if !matches!(guarded(Aus(|| mb.split_hint())), Ok(Ok(()))) {
                    fails.push("split_hint failed".into());
                }
                hints += 1;
                // right after the hint: the same entry again, and an older key, must be refused
                let last = accepted.last().unwrap().clone();
                for bad in [last.clone(), accepted[0].clone()] {
                    let r = guarded(Aus(|| match &bad.val {
                        Some(v) => mb.put(&bad.key, bad.ts, v),
                        None => mb.del(&bad.key, bad.ts),
                    }));
                    if put_char(&r) == '.' {
                        fails.push(format!("out-of-order input accepted right after a split hint (entry {} of {})", j, acc0.len()));
                    }
                }
            }
        }
        let mut nfiles = 0;
        match guarded(Aus(move || mb.seal())) {
            Ok(Ok(paths)) => {
                nfiles = paths.len();
                let mut all: Vec<String> = vec![];
                for p in &paths {
                    let r = guarded(Aus(|| -> Result<Vec<String>, SError> {
                        let t = Sst::<sst::file_manager::FileHandle>::new(options.clone(), p)?;
                        let mut c = t.cursor();
                        let mut v = vec![];
                        c.seek_to_first()?;
                        c.next()?;
                        while c.key().is_some() {
                            v.push(observe(&c));
                            c.next()?;
                        }
                        Ok(v)
                    }));
                    match r {
                        Ok(Ok(v)) => all.extend(v),
                        _ => fails.push("a file written across split hints cannot be read".into()),
                    }
                }
                let want_all: Vec<String> = accepted.iter().map(|e| show_e(Some(e))).collect();
                if all != want_all {
                    fails.push(format!("files do not concatenate to the accepted input: {}", first_diff(&all, &want_all)));
                }
            }
            _ => fails.push("seal failed after split hints".into()),
        }
        let _ = std::fs::remove_dir_all(&dir);
        rec.count("multi.split_hint_cases");
        rec.add("multi.split_hints", hints);
        rec.add("multi.split_hint_files", nfiles as u64);
        let v = if fails.is_empty() { Verdict::Ok } else { Verdict::Fail { class: "multi-split-hint".into(), detail: trunc(&fails.join("; ")) } };
        rec.case(&format!("# split hints {} entries {} hints", accepted.len(), hints), "#", v, None);
    }

    // ---- stream 4: decisions at the limits ---------------------------------------------------
    for i in 0..n_dec {
        if !rec.wants() {
            rec.skip();
            continue;
        }
        let mut rng = Rng::for_case(args.seed, 4, i);
        let which = i % 3;
        let (req, obs, want) = match which {
            0 => {
                let n = *rng.pick(&[0usize, 1, MAX_KEY_LEN - 1, MAX_KEY_LEN, MAX_KEY_LEN + 1, MAX_KEY_LEN + 2, 2 * MAX_KEY_LEN]);
                let r = guarded(move || sst::check_key_len(&vec![0u8; n]));
                (format!("block check key {}", n), r, if n > MAX_KEY_LEN { "key-too-large" } else { "ok" })
            }
            1 => {
                let n = *rng.pick(&[0usize, 1, MAX_VALUE_LEN - 1, MAX_VALUE_LEN, MAX_VALUE_LEN + 1, 2 * MAX_VALUE_LEN]);
                let r = guarded(move || sst::check_value_len(&vec![0u8; n]));
                (format!("block check value {}", n), r, if n > MAX_VALUE_LEN { "value-too-large" } else { "ok" })
            }
            _ => {
                let n = *rng.pick(&[0usize, 27, TABLE_FULL_SIZE - 1, TABLE_FULL_SIZE, TABLE_FULL_SIZE + 1, 1 << 30, usize::MAX]);
                let r = guarded(move || sst::check_table_size(n));
                (format!("block check table {}", n), r, if n >= TABLE_FULL_SIZE { "table-full" } else { "ok" })
            }
        };
        let o = match obs {
            Ok(Ok(())) => "ok".to_string(),
            Ok(Err(e)) => code(&e),
            Err(_) => "panic".to_string(),
        };
        rec.count("decision");
        let v = if o == want { Verdict::Ok } else { Verdict::Fail { class: "limit".into(), detail: format!("{} want {}", o, want) } };
        rec.case(&req, &o, v, Some(fnv(req.as_bytes())));
    }

    // ---- thorough: a real BlockBuilder driven to table-full ------------------------------------
    if args.thorough {
        if rec.wants() {
            let r = guarded(|| {
                let mut bb = BlockBuilder::new(BlockBuilderOptions::default());
                let val = vec![0x5au8; MAX_VALUE_LEN];
                let mut i: u64 = 0;
                let mut last_ok_size;
                loop {
                    let key = format!("k{:012}", i).into_bytes();
                    last_ok_size = bb.approximate_size();
                    match bb.put(&key, 1, &val) {
                        Ok(()) => i += 1,
                        Err(e) => {
                            let after = bb.approximate_size();
                            return (last_ok_size, code(&e), after, i);
                        }
                    }
                    if i > 40000 {
                        return (last_ok_size, "never-full".to_string(), 0, i);
                    }
                }
            });
            match r {
                Ok((size, c, after, puts)) => {
                    rec.count("table_full.real_builder");
                    rec.add("table_full.puts_before_full", puts);
                    let ok = c == "table-full" && size >= TABLE_FULL_SIZE && after == size && size < TABLE_FULL_SIZE + MAX_VALUE_LEN + MAX_KEY_LEN + 64;
                    let v = if ok { Verdict::Ok } else { Verdict::Fail { class: "table-full".into(), detail: format!("size {} code {} after {}", size, c, after) } };
                    let req = format!("block check table {}", size);
                    rec.case(&req, &c, v, Some(fnv(req.as_bytes())));
                }
                Err(m) => rec.case("block check table 0", "panic", Verdict::Fail { class: "table-full".into(), detail: m }, None),
            }
        } else {
            rec.skip();
        }
    }

    // ---- stream 5: the bloom filter from the hash word on -------------------------------------
    bloom_stream(args, &mut rec, 400 * scale);

    // ---- on request only (`d23` after the options): Block::new on bytes no builder made -------
    if args.rest.iter().any(|a| a == "d23") {
        for bytes in [vec![0u8, 0, 0, 0], vec![1, 0, 0, 0], vec![9, 9, 9, 9, 9, 9, 2, 0, 0, 0], vec![0, 0, 0], vec![82, 4, 0, 0, 0, 0, 93, 1, 0, 0, 0], vec![93, 1, 0, 0, 0]] {
            let b2 = bytes.clone();
            let o = match guarded(move || Block::new(b2).map(|_| ())) {
                Ok(Ok(())) => "ok".to_string(),
                                Ok(Err(e)) => format!("err:{}", code(&e)),
                Err(_) => "panic".to_string(),
            };
            let req = format!("block new {}", tok(&bytes));
            let v = if o == "panic" { Verdict::Fail { class: "block-new-underflow".into(), detail: "Block::new panicked".into() } } else { Verdict::Ok };
            rec.case(&req, &o, v, None);
        }
    }

    let _ = std::fs::remove_dir_all(&tmp);
    rec.finish(
        "five seeded streams: blocks (entry sequences in six styles: short adversarial alphabet incl. the empty key, prefix chains, last-byte neighbours, many versions of one key, long keys/values up to the limits, mixtures; tombstone runs; restart intervals by bytes and pairs incl. 1; every fourth case with refused attempts), tables through SstBuilder (block sizes 0..65536 via the option strings, bloom bits 0..255), SstMultiBuilder (file sizes 0..4096), limit decisions; cursor programs of first/last/next/prev/seek/load with full forward+backward sweeps in half the cases; non-trivial = at least 2 accepted entries (blocks: and a program of at least 3 calls) or at least one refused attempt, multi: at least 2 files; bloom filter (sst::sbbf::Filter from the hash word Filter::defer_insert returns: Filter::new sizes at the block-count boundaries up to 2^24 (thorough: 2^28 and u32::MAX), try_from on bytes no filter wrote, filters of 0..300 items incl. the empty item, repeats and items aimed at one block, queries half inserted half fresh, the bytes re-parsed and cut / extended copies re-parsed): at least 2 blocks, at least 2 distinct inserted items and a fresh query answered false; distinct by request text",
        &[("excluded_configurations", "[\"restart interval 0 (bytes or pairs): outside the property's quantifier; BlockCursor::next never terminates on such a block (DESIGN 6.1)\"]".to_string())],
    );
}
