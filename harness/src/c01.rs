//! C01 — point reads return the latest write, whatever the tree did in between.
//!
//! Histories over a small adversarial key alphabet are run on the real `KeyValueStore` with the
//! flush and compaction loops single-stepped.  After every operation the store state is dumped and
//!  * oracle: `load` of every alphabet key == sequential map; no fault-free operation errs;
//!  * correspondence: the Lean model's `kvsLoad` on the dumped state == the implementation's reads;
//!    the model's decidable invariants I1 ∧ I2 hold on the dumped state (the hypothesis of theorem
//!    `kvsLoad_visible`); every compaction the selector chose is `closed` on the state it was
//!    chosen in (the hypothesis of `compaction_preserves`);
//!  * selector as a function: at EVERY compaction step (also the ones that choose nothing) the
//!    Lean function `nextCompaction` on the dumped tree metadata == what `Version::next_compaction`
//!    handed to the compaction loop (levels, key range, input ids in order); after every operation
//!    `next_compaction().is_some()` (`verif_status`) == the model's.  A second stream (`selhist`)
//!    runs selector-centred histories with the byte / file / open-file limits in play and asks the
//!    real selector again *inside* a running compaction (one compaction in flight), with the nested
//!    choice performed for real.
//!  * the tree steps as functions: at EVERY performed compaction step and EVERY flush of both
//!    streams (also the nested compaction of `selhist` and the step it is nested in) one request
//!    `kvs apply|move|ingest …` carries the tree before (per level, in the order the version holds
//!    the files — `verif_dump` does not sort — id, key range, timestamps, the (key, timestamp) of
//!    every entry), the compaction as the real selector returned it and the output files as the
//!    real tree after holds them; the Lean functions `applyCompaction` / `applyTrivialMove` /
//!    `ingest` must produce the tree after, level by level, file by file, in the order the real
//!    `Version` holds them (level 0 included: compared in the internal order).  The model's line
//!    also carries the Boolean forms of the theorems' hypotheses (`Chosen t c`, `OutsOk t c outs`)
//!    on that very step; the implementation's line says `chosen=1 outsok=1`.
//!    The outputs of a step are read off the tree after: the files of the output level whose id is
//!    not the id of a file of that level that is no input (no positions are used; an output that
//!    re-creates an input byte for byte has that input's id and is an output).
//!  * the history model's steps as functions: at EVERY put / del / batch, every refused batch (a
//!    batch naming a key twice, tried next to every batch of the history), every memtable rotation
//!    and every flush one request `kvs hist <op> :: <state before> :: <state after>` carries the
//!    memtable and the immutable memtable as version lists (`key@ts[!]`), `seq_no`,
//!    `visible_seq_no` and level 0 as the version holds it; the Lean function `Blue.StoreHist.apply`
//!    must produce the state after (memtables, both counters, level 0 in search order, and for a
//!    flush the metadata and versions of the new file).  One pass of the flush loop body is the
//!    model's `rollover` (up to the state the observer sees at `flush.rotated`) followed by the
//!    model's `flush`.
//!  * GC obligations on real steps: a performed compaction into the last level carries the
//!    tombstone flags of its inputs; the model answers `newest=` (`newestKeptB`, the Boolean form of
//!    `NewestKept`) and `sub=` (outputs ⊆ inputs); the implementation's line says `newest=1 sub=1`.
use crate::common::*;

fn tainted(v: Verdict, taint: &Option<String>) -> Verdict {
    match (v, taint) {
        (Verdict::Ok, Some(c)) => Verdict::Taint { class: c.clone() },
        (v, _) => v,
    }
}

/// a failure inside a history in which the trigger of a known finding fired carries that
/// finding's class (as the other checks of a tainted history do)
fn tainted_fail(v: Verdict, taint: &Option<String>) -> Verdict {
    match (v, taint) {
        (Verdict::Ok, Some(c)) => Verdict::Taint { class: c.clone() },
        (Verdict::Fail { detail, .. }, Some(c)) => Verdict::Fail { class: c.clone(), detail },
        (v, _) => v,
    }
}

use crate::store::*;

fn render_get(r: &Result<Option<Vec<u8>>, String>, tomb_is_none: bool) -> String {
    match r {
        Ok(Some(v)) => format!("={}", hex(v)),
        Ok(None) => {
            if tomb_is_none {
                "?".into()
            } else {
                "!".into()
            }
        }
        Err(e) => format!("err:{}", e),
    }
}

pub fn state_with_ids(d: &StateDump) -> String {
    // same as StateDump::render but with a short file id (setsum prefix) per file
    let mut s = format!("ts={} mem={} imm={}", d.seq_no, ents(&d.mem), match &d.imm {
        Some(e) => ents(e),
        None => "none".into(),
    });
    for (i, l) in d.levels.iter().enumerate() {
        for f in l {
            s.push_str(&format!(" L{}:{}:{}:{}:{}:{}:{}", i, &hex(&f.setsum)[..12], hex(&f.first_key), hex(&f.last_key), f.smallest_ts, f.biggest_ts, ents(&f.entries)));
        }
    }
    s
}

/// components of a dumped state in search order, as (level or -1 for memtables, file id, entries)
pub fn components(d: &StateDump) -> Vec<(i64, String, Vec<Ent>)> {
    let mut v = vec![(-1, "mem".to_string(), d.mem.clone())];
    if let Some(i) = &d.imm {
        v.push((-1, "imm".to_string(), i.clone()));
    }
    if !d.levels.is_empty() {
        let mut l0: Vec<&FileDump> = d.levels[0].iter().collect();
        l0.sort_by_key(|f| f.biggest_ts); // stable, as Version::load
        for f in l0.into_iter().rev() {
            v.push((0, hex(&f.setsum)[..12].to_string(), f.entries.clone()));
        }
        for (i, l) in d.levels.iter().enumerate().skip(1) {
            for f in l {
                v.push((i as i64, hex(&f.setsum)[..12].to_string(), f.entries.clone()));
            }
        }
    }
    v
}

/// I1 (levels >= 1 sorted, ranges at most touching, entries inside the file's range) and
/// I2 ("newer above" in search order), evaluated directly on the dump
pub fn check_invariants(d: &StateDump) -> &'static str {
    let comps = components(d);
    for i in 0..comps.len() {
        for j in i + 1..comps.len() {
            for a in &comps[i].2 {
                for b in &comps[j].2 {
                    if a.0 == b.0 && !(b.1 < a.1) {
                        return "I2-newer-above-violated";
                    }
                }
            }
        }
    }
    for l in d.levels.iter().skip(1) {
        for (i, f) in l.iter().enumerate() {
            if f.first_key > f.last_key || f.entries.iter().any(|e| e.0 < f.first_key || e.0 > f.last_key) {
                return "I1-level-order-violated";
            }
            for g in l.iter().skip(i + 1) {
                if f.last_key > g.first_key {
                    return "I1-level-order-violated";
                }
            }
        }
    }
    "ok"
}

/// is the chosen compaction closed on the state it was chosen in: no component that stays lies
/// (in search order, down to the output level) below an input it shares a key with
pub fn check_closed(d: &StateDump, upper: usize, inputs: &[String]) -> &'static str {
    let comps: Vec<(i64, String, Vec<Ent>)> = components(d).into_iter().filter(|c| c.0 <= upper as i64).collect();
    for i in 0..comps.len() {
        if !inputs.contains(&comps[i].1) {
            continue;
        }
        for j in i + 1..comps.len() {
            if inputs.contains(&comps[j].1) {
                continue;
            }
            if comps[i].2.iter().any(|a| comps[j].2.iter().any(|b| a.0 == b.0)) {
                return "open";
            }
        }
    }
    "closed"
}

/// D-9 trigger (a decidable predicate on the state a reopen starts from): two live files overlap
/// both in key range and in timestamp range, so `recover` cannot order them and gives them one level
pub fn d9_trigger(d: &StateDump) -> bool {
    let files: Vec<&FileDump> = d.levels.iter().flat_map(|l| l.iter()).collect();
    for i in 0..files.len() {
        for j in i + 1..files.len() {
            let (a, b) = (files[i], files[j]);
            let keys = a.first_key <= b.last_key && b.first_key <= a.last_key;
            let ts = !(a.biggest_ts < b.smallest_ts || b.biggest_ts < a.smallest_ts);
            if keys && ts {
                return true;
            }
        }
    }
    false
}

/// trigger of the verifier finding seen in thorough histories (decidable on the manifest history
/// the harness recorded and the directory): some SST was removed by one edit, added again by a later
/// edit (a compaction re-created a byte-identical file) and removed again by a still later edit,
/// and is now in neither sst/ nor trash/ — the verifier unlinked the trash copy when it verified
/// the first removal and cannot read the file when it reaches the second
fn recreated_and_removed_again(sim: &Sim) -> Option<String> {
    for (name, evs) in sim.sst_events.iter() {
        let mut hit = false;
        for (i, a) in evs.iter().enumerate() {
            if a.1 != '-' {
                continue;
            }
            for (j, b) in evs.iter().enumerate().skip(i + 1) {
                if b.1 != '+' || b.0 <= a.0 {
                    continue;
                }
                if evs.iter().skip(j + 1).any(|c| c.1 == '-' && c.0 > b.0) {
                    hit = true;
                }
            }
        }
        if hit && !std::path::Path::new(&format!("{}/sst/{}.sst", sim.root, name)).exists() && !std::path::Path::new(&format!("{}/trash/{}.sst", sim.root, name)).exists() {
            return Some(name.clone());
        }
    }
    None
}

fn ents(es: &[Ent]) -> String {
    if es.is_empty() {
        return "-".into();
    }
    es.iter()
        .map(|(k, t, v)| match v {
            Some(v) => format!("{}@{}={}", hex(k), t, hex(v)),
            None => format!("{}@{}!", hex(k), t),
        })
        .collect::<Vec<_>>()
        .join(",")
}

/// run one history; emits one `load` + one `inv` case per step and one `closed` case per chosen
/// compaction.  Returns false if the history had to stop (error).
pub fn run_history(rec: &mut Recorder, seed: u64, hidx: u64, len: usize, nkeys: usize) {
    let mut rng = Rng::for_case(seed, 101, hidx);
    let cfg = Cfg::gen(&mut rng);
    let mode = hidx % 4 % 3;
    let ops = gen_history(&mut rng, if mode == 1 { len * 3 } else { len }, nkeys, mode);
    let root = scratch_dir(&format!("c01.{}", hidx));
    rec.aux(&format!("history {} cfg {} ops {}", hidx, cfg.render(), ops.iter().map(|o| o.render()).collect::<Vec<_>>().join(" ")));
    let mut sim = match Sim::open(&root, &cfg) {
        Ok(s) => s,
        Err(e) => {
            rec.case(&format!("# history {} open", hidx), "#", Verdict::Fail { class: "open-error".into(), detail: e }, None);
            return;
        }
    };
    let keys: Vec<Vec<u8>> = ALPHABET[..nkeys].iter().map(|k| k.to_vec()).collect();
    let qs = keys.iter().map(|k| hex(k)).collect::<Vec<_>>().join(" ");
    let mut taint: Option<String> = None;
    let so = SelOpts { mof: 1 << 19, mcb: 1 << 29, mcf: cfg.max_compaction_files, mand_files: cfg.l0_mandatory_files, mand_bytes: 1 << 26 };
    let mut prev: Option<StateDump> = sim.dump().ok();
    sim.record_applied = true;
    sim.record_hist = true;
    for (step, op) in ops.iter().enumerate() {
        let tag = format!("h{}s{}:{}", hidx, step, op.render());
        let ord0 = sim.edit_ordinal;
        if let Op::Reopen = op {
            if taint.is_none() {
                if let Ok(d) = sim.dump() {
                    if d9_trigger(&d) {
                        taint = Some("reopen-with-key-and-timestamp-overlapping-files".to_string());
                        rec.count("histories_tainted_by_D9_trigger");
                    }
                }
            }
        }
        let res = guarded(std::panic::AssertUnwindSafe(|| sim.apply(op)));
        let res = match res {
            Ok(r) => r,
            Err(p) => Err(format!("panic:{}", p)),
        };
        // next to every batch: the same batch naming its first key twice must be refused and
        // change nothing (the model's `write` with `batchOk = false`)
        if let (Ok(()), Op::Batch(es)) = (&res, op) {
            let mut dup = es.clone();
            let extra = (es[0].0.clone(), if step % 2 == 0 { None } else { Some(b"dup".to_vec()) });
            if step % 3 == 0 {
                dup.insert(0, extra);
            } else {
                dup.push(extra);
            }
            let hb = sim.hist_before();
            let mut wb = lsmtk::WriteBatch::with_capacity(dup.len());
            for (k, v) in &dup {
                match v {
                    Some(v) => wb.put(k, v),
                    None => wb.del(k),
                }
            }
            let r = guarded(std::panic::AssertUnwindSafe(|| sim.kvs().write(wb).is_err()));
            let verb = match r {
                Ok(true) => "reject",
                _ => "write",
            };
            sim.record_hist_step(format!("{} {}", verb, batch_keys(&dup)), hb);
        }
        if let Err(e) = res {
            rec.count("op_errors");
            rec.case(&format!("# {}", tag), "#", Verdict::Fail { class: taint.clone().unwrap_or_else(|| "fault-free-op-error".to_string()), detail: format!("{} -> {}", tag, e) }, None);
            break;
        }
        match op {
            Op::Put(..) => rec.count("op.put"),
            Op::Del(..) => rec.count("op.del"),
            Op::Batch(..) => rec.count("op.batch"),
            Op::Flush => rec.count("op.flush"),
            Op::Compact(..) => rec.count("op.compact"),
            Op::Reopen => rec.count("op.reopen"),
            Op::Verify => {
                rec.count("op.verify");
                if sim.last_verify.starts_with("error") {
                    let class = match recreated_and_removed_again(&sim) {
                        Some(name) => {
                            rec.count("verifier_error_after_identical_recreation");
                            rec.aux(&format!("{} verifier error; {} was removed, re-created identically by a later edit and removed again, and is in neither sst/ nor trash/", tag, name));
                            "sst-removed-recreated-identically-removed-again".to_string()
                        }
                        None => "verifier-rejects-store-history".to_string(),
                    };
                    rec.case(&format!("# {}", tag), "#", Verdict::Fail { class: taint.clone().unwrap_or(class), detail: format!("{} {}", tag, sim.last_verify) }, None);
                }
            }
        }
        // chosen compactions: closed on the state they were chosen in?
        let pf = std::mem::take(&mut sim.probe_failures);
        if !pf.is_empty() {
            rec.case(&format!("# {} inside", tag), "#", Verdict::Fail { class: taint.clone().unwrap_or_else(|| "wrong-read-or-missing-log-inside-flush-or-compaction".to_string()), detail: format!("{} {}", tag, pf.iter().take(3).cloned().collect::<Vec<_>>().join("; ")) }, None);
        }
        let chosen = std::mem::take(&mut sim.chosen);
        // the selector as a function: every selection the compaction loop made in this operation,
        // and the selection that found nothing when a compaction step did nothing
        for (b, c) in chosen.iter() {
            let lv = sel_levels_of_dump(b);
            let v = tainted_fail(select_oracle(&so, &lv, &[], Some(c), &tag), &taint);
            select_case(rec, "full", &so, &lv, &[], &render_chosen(Some(c)), v);
            rec.count("select.step.chosen");
        }
        if let (Op::Compact(_), true, Some(b)) = (op, chosen.is_empty(), prev.as_ref()) {
            let lv = sel_levels_of_dump(b);
            select_case(rec, "full", &so, &lv, &[], "none", tainted(Verdict::Ok, &taint));
            rec.count("select.step.none");
        }
        for (b, c) in chosen.iter() {
            let ins: Vec<String> = c.inputs.iter().map(|d| hex(d)[..12].to_string()).collect();
            let req = format!("kvs closed {} {} :: {}", c.upper_level, state_with_ids(b), ins.join(" "));
            rec.count(if c.inputs.len() == 1 { "compaction.trivial_move" } else if c.upper_level == lsmtk::NUM_LEVELS - 1 { "compaction.gc" } else { "compaction.merge" });
            let verdict = check_closed(b, c.upper_level, &ins);
            let v = if verdict == "closed" {
                Verdict::Ok
            } else {
                Verdict::Fail { class: taint.clone().unwrap_or_else(|| "selector-chose-open-compaction".to_string()), detail: format!("{} levels {}->{} inputs {}", tag, c.lower_level, c.upper_level, ins.join(",")) }
            };
            rec.case(&req, verdict, tainted(v, &taint), Some(fnv(req.as_bytes())));
        }
        let d = match sim.dump() {
            Ok(d) => d,
            Err(e) => {
                rec.case(&format!("# {}", tag), "#", Verdict::Fail { class: "dump-error".into(), detail: e }, None);
                break;
            }
        };
        // reads
        let mut obs = vec![];
        let mut bad = vec![];
        let mut multi = false;
        for k in &keys {
            let mut tomb = false;
            let r = sim.kvs().load(k, &mut tomb).map_err(|e| format!("{:?}", e).replace(' ', "_"));
            let want = sim.oracle.get(k).cloned().flatten();
            match &r {
                Ok(got) => {
                    if *got != want {
                        bad.push(format!("key {} got {:?} want {:?}", hex(k), got.as_ref().map(|v| hex(v)), want.as_ref().map(|v| hex(v))));
                    }
                }
                Err(e) => bad.push(format!("key {} load error {}", hex(k), e)),
            }
            obs.push(render_get(&r, !tomb));
            // non-trivial: >= 2 versions of this key in >= 2 different components
            let mut comps = 0;
            if d.mem.iter().any(|e| &e.0 == k) {
                comps += 1;
            }
            if d.imm.as_ref().map(|i| i.iter().any(|e| &e.0 == k)).unwrap_or(false) {
                comps += 1;
            }
            for l in &d.levels {
                for f in l {
                    if f.entries.iter().any(|e| &e.0 == k) {
                        comps += 1;
                    }
                }
            }
            if comps >= 2 {
                multi = true;
            }
        }
        rec.add("state.files", d.nfiles() as u64);
        let depth = d.depth();
        rec.count(&format!("state.depth{}", depth));
        let st = state_with_ids(&d);
        let req = format!("kvs load {} :: {}", st, qs);
        let verdict = if bad.is_empty() { Verdict::Ok } else { Verdict::Fail { class: taint.clone().unwrap_or_else(|| "stale-or-wrong-read".to_string()), detail: format!("{} {}", tag, bad.join("; ")) } };
        rec.case(&req, &obs.join(" "), tainted(verdict, &taint), if multi { Some(fnv(req.as_bytes())) } else { None });
        let req = format!("kvs inv {}", st);
        let iv = check_invariants(&d);
        let v = if iv == "ok" { Verdict::Ok } else { Verdict::Fail { class: taint.clone().unwrap_or_else(|| "tree-invariant-violated".to_string()), detail: format!("{} {}", tag, iv) } };
        rec.case(&req, iv, tainted(v, &taint), None);
        // is anything selectable on this state (the real selector, selection released at once)
        // (not on a history tainted by D-9: compute_bounds may then panic on its assertions while
        // the compaction mutex is held)
        if taint.is_none() {
            match guarded(std::panic::AssertUnwindSafe(|| sim.kvs().verif_tree().verif_status())) {
                Ok((_stall, selectable, _n)) => {
                    select_case(rec, "some", &so, &sel_levels_of_dump(&d), &[], if selectable { "some" } else { "none" }, Verdict::Ok);
                    rec.count(if selectable { "select.state.some" } else { "select.state.none" });
                }
                Err(p) => {
                    // the selector panicked with the compaction mutex held: the store is unusable
                    rec.case(&format!("# {} select", tag), "#", Verdict::Fail { class: "selector-panicked".to_string(), detail: format!("{} next_compaction panicked: {}", tag, p) }, None);
                    break;
                }
            }
        }
        // the tree steps of this operation as functions (flushes and performed compaction steps,
        // in the order they happened)
        for a in std::mem::take(&mut sim.applied) {
            let events = &sim.sst_events;
            let readded = |f: &FileDump| events.get(&hex(&f.setsum)).map(|evs| evs.iter().any(|e| e.0 > ord0 && e.1 == '+')).unwrap_or(false);
            apply_case(rec, &a.before, a.compaction.as_ref(), &a.after, &taint, &tag, Some(&readded));
        }
        // the history model's steps of this operation (writes, refused writes, rotations, flushes)
        for hs in std::mem::take(&mut sim.hist) {
            hist_case(rec, &hs, &taint, &tag);
        }
        prev = Some(d);
    }
    rec.add("flushes", sim.flushes);
    rec.add("compactions", sim.compactions);
    rec.add("reopens", sim.reopens);
    rec.add("observations_inside_flush_or_compaction", sim.probes_run);
    rec.add("stalled_with_nothing_selectable", sim.stalled_unselectable);
    sim.close();
}


// ===================================================== the tree steps as functions ===============

fn short_id(f: &FileDump) -> String {
    hex(&f.setsum)[..12].to_string()
}

/// `L<level>:<id>:<first>:<last>:<smallest ts>:<biggest ts>:<key@ts!,…|->` (the entries without values)
fn apply_file(level: usize, f: &FileDump) -> String {
    let es = if f.entries.is_empty() { "-".to_string() } else { f.entries.iter().map(|e| format!("{}@{}!", hex(&e.0), e.1)).collect::<Vec<_>>().join(",") };
    format!("L{}:{}:{}:{}:{}:{}:{}", level, short_id(f), hex(&f.first_key), hex(&f.last_key), f.smallest_ts, f.biggest_ts, es)
}

/// `L0=<id,id,…|-> L1=… …`: per level the file ids in the order the version holds them
pub fn render_tree_ids(levels: &[Vec<FileDump>]) -> String {
    levels.iter().enumerate().map(|(i, l)| format!("L{}={}", i, if l.is_empty() { "-".to_string() } else { l.iter().map(short_id).collect::<Vec<_>>().join(",") })).collect::<Vec<_>>().join(" ")
}

/// One performed tree step: `c = None` a flush (`Version::ingest`), else the compaction the real
/// selector returned (`Version::apply_compaction`; one input = `apply_moving_compaction`).
/// `readded`: for an output that carries the id of an input, did the manifest edit of this step add
/// that name (`None`: the caller has no manifest history)?
pub fn apply_case(rec: &mut Recorder, before: &[Vec<FileDump>], c: Option<&lsmtk::verif::ChosenCompaction>, after: &[Vec<FileDump>], taint: &Option<String>, tag: &str, readded: Option<&dyn Fn(&FileDump) -> bool>) {
    let mut req;
    let mut fails: Vec<(String, String)> = vec![];
    let mut nontrivial = false;
    let mut gc = false;
    let ids = |l: &[FileDump]| -> Vec<String> {
        let mut v: Vec<String> = l.iter().map(short_id).collect();
        v.sort();
        v
    };
    match c {
        None => {
            // the new file: the file of level 0 after whose id level 0 before does not hold
            let b0: Vec<String> = before.first().map(|l| l.iter().map(short_id).collect()).unwrap_or_default();
            let new: Vec<&FileDump> = after.first().map(|l| l.iter().filter(|f| !b0.contains(&short_id(f))).collect()).unwrap_or_default();
            req = format!("kvs ingest {} ::", before.len());
            for (i, l) in before.iter().enumerate() {
                for f in l {
                    req.push_str(&format!(" {}", apply_file(i, f)));
                }
            }
            req.push_str(" ::");
            for f in &new {
                req.push_str(&format!(" {}", apply_file(0, f)));
            }
            rec.count("apply.ingest");
            if !b0.is_empty() {
                rec.count("apply.ingest.level0_not_empty");
                nontrivial = true;
            }
            if new.len() != 1 {
                fails.push(("apply-lost-or-invented-file".into(), format!("a flush added {} files to level 0", new.len())));
            }
            for i in 0..before.len().max(after.len()) {
                let mut want = before.get(i).map(|l| ids(l)).unwrap_or_default();
                if i == 0 {
                    want.extend(new.iter().map(|f| short_id(f)));
                    want.sort();
                }
                let got = after.get(i).map(|l| ids(l)).unwrap_or_default();
                if want != got {
                    fails.push(("apply-lost-or-invented-file".into(), format!("level {} after a flush holds {:?}, before + new file = {:?}", i, got, want)));
                }
            }
        }
        Some(c) => {
            let ins: Vec<String> = c.inputs.iter().map(|d| hex(d)[..12].to_string()).collect();
            let up = c.upper_level;
            let kept_up: Vec<String> = before.get(up).map(|l| l.iter().map(short_id).filter(|i| !ins.contains(i)).collect()).unwrap_or_default();
            let outs: Vec<&FileDump> = after.get(up).map(|l| l.iter().filter(|f| !kept_up.contains(&short_id(f))).collect()).unwrap_or_default();
            let verb = if ins.len() == 1 { "move" } else { "apply" };
            req = format!("kvs {} {} {} {} {} {} {} ::", verb, before.len(), c.lower_level, up, hex(&c.first_key), hex(&c.last_key), if ins.is_empty() { "-".to_string() } else { ins.join(",") });
            for (i, l) in before.iter().enumerate() {
                for f in l {
                    req.push_str(&format!(" {}", apply_file(i, f)));
                }
            }
            req.push_str(" ::");
            for f in &outs {
                req.push_str(&format!(" {}", apply_file(up, f)));
            }
            rec.count(if ins.len() == 1 { "apply.move" } else if up == lsmtk::NUM_LEVELS - 1 { "apply.gc" } else { "apply.merge" });
            if ins.len() != 1 && up == lsmtk::NUM_LEVELS - 1 {
                // ---- a garbage-collecting step: the tombstones among the inputs, and the two
                // obligations of `GcCompactionOk` evaluated on the entries alone
                gc = true;
                let in_ents: Vec<&Ent> = before.iter().flat_map(|l| l.iter()).filter(|f| ins.contains(&short_id(f))).flat_map(|f| f.entries.iter()).collect();
                let out_ents: Vec<&Ent> = outs.iter().flat_map(|f| f.entries.iter()).collect();
                let tombs: Vec<String> = in_ents.iter().filter(|e| e.2.is_none()).map(|e| format!("{}@{}!", hex(&e.0), e.1)).collect();
                req.push_str(&format!(" :: gc {}", if tombs.is_empty() { "-".to_string() } else { tombs.join(",") }));
                let mut dropped_any = false;
                let mut dropped_newest_tomb = false;
                for o in &out_ents {
                    if !in_ents.iter().any(|i| i.0 == o.0 && i.1 == o.1 && i.2 == o.2) {
                        fails.push(("gc-output-is-no-input-version".into(), format!("output {}@{} of a collecting compaction is no input version", hex(&o.0), o.1)));
                    }
                }
                if out_ents.len() < in_ents.len() {
                    dropped_any = true;
                }
                let mut keys: Vec<&Vec<u8>> = in_ents.iter().map(|e| &e.0).collect();
                keys.sort();
                keys.dedup();
                for k in keys {
                    let newest_in = in_ents.iter().filter(|e| &e.0 == k).max_by_key(|e| e.1).unwrap();
                    if out_ents.iter().any(|o| o.0 == newest_in.0 && o.1 == newest_in.1) {
                        continue;
                    }
                    let newest_out = out_ents.iter().filter(|e| &e.0 == k).max_by_key(|e| e.1);
                    if newest_in.2.is_some() {
                        fails.push(("gc-dropped-current-value".into(), format!("the newest input version {}@{} is a value and no output", hex(k), newest_in.1)));
                    } else if newest_out.map(|o| o.2.is_some()).unwrap_or(false) {
                        fails.push(("gc-uncovered-older-value".into(), format!("the newest input version {}@{} is a dropped tombstone and the outputs of the key start with the value @{}", hex(k), newest_in.1, newest_out.unwrap().1)));
                    } else {
                        dropped_newest_tomb = true;
                    }
                }
                if dropped_any {
                    rec.count("apply.gc.dropped_versions");
                    nontrivial = true;
                }
                if dropped_newest_tomb {
                    rec.count("apply.gc.dropped_a_newest_tombstone");
                }
                if !tombs.is_empty() {
                    rec.count("apply.gc.inputs_hold_tombstones");
                }
            }
            // ---- oracle: ids as multisets, level by level
            for i in 0..before.len().max(after.len()) {
                let mut want: Vec<String> = before.get(i).map(|l| l.iter().map(short_id).collect()).unwrap_or_default();
                if c.lower_level <= i && i < up {
                    want.retain(|x| !ins.contains(x));
                } else if i == up {
                    want.retain(|x| !ins.contains(x));
                    want.extend(outs.iter().map(|f| short_id(f)));
                }
                want.sort();
                let got = after.get(i).map(|l| ids(l)).unwrap_or_default();
                if want != got {
                    fails.push(("apply-lost-or-invented-file".into(), format!("level {} after holds {:?}, before - inputs + outputs = {:?}", i, got, want)));
                }
            }
            let before_ids: Vec<String> = before.iter().flat_map(|l| l.iter().map(short_id)).collect();
            for i in &ins {
                if !before_ids.contains(i) {
                    fails.push(("apply-lost-or-invented-file".into(), format!("input {} is no file of the tree before", i)));
                }
            }
            let mut recreated = 0;
            for o in &outs {
                let id = short_id(o);
                if ins.contains(&id) && ins.len() > 1 {
                    recreated += 1;
                    if let Some(f) = readded {
                        if !f(o) {
                            fails.push(("apply-lost-or-invented-file".into(), format!("input {} is still in the output level and the manifest edit of the step did not add it", id)));
                        }
                    }
                } else if before_ids.contains(&id) && !ins.contains(&id) {
                    fails.push(("apply-lost-or-invented-file".into(), format!("output {} is a file of another level that is no input", id)));
                }
            }
            if recreated > 0 {
                rec.count("apply.output_recreates_an_input_byte_for_byte");
            }
            // ---- what the step exercises
            let in_levels: std::collections::BTreeSet<usize> = before.iter().enumerate().filter(|(_, l)| l.iter().any(|f| ins.contains(&short_id(f)))).map(|(i, _)| i).collect();
            if ins.len() >= 2 && in_levels.len() >= 2 {
                rec.count("apply.nontrivial.inputs_at_two_or_more_levels");
                nontrivial = true;
            }
            if in_levels.len() >= 3 {
                rec.count("apply.nontrivial.inputs_at_three_or_more_levels");
            }
            if outs.len() >= 2 {
                rec.count("apply.nontrivial.two_or_more_outputs");
                nontrivial = true;
            }
            if outs.is_empty() {
                rec.count("apply.nontrivial.no_output");
                nontrivial = true;
            }
            if let Some(l) = after.get(up) {
                let pos: Vec<usize> = l.iter().enumerate().filter(|(_, f)| !kept_up.contains(&short_id(f))).map(|(i, _)| i).collect();
                let (left, right) = match (pos.first(), pos.last()) {
                    (Some(a), Some(b)) => (*a > 0, *b + 1 < l.len()),
                    _ => (false, false),
                };
                if left && right {
                    rec.count("apply.nontrivial.kept_file_on_each_side_of_the_outputs");
                    nontrivial = true;
                } else if left || right {
                    rec.count("apply.nontrivial.kept_file_on_one_side_of_the_outputs");
                    nontrivial = true;
                }
            }
            if before.get(up).map(|l| l.iter().any(|f| ins.contains(&short_id(f)))).unwrap_or(false) {
                rec.count("apply.nontrivial.output_level_loses_inputs_by_position");
            }
            if (c.lower_level..up).any(|i| before.get(i).map(|l| l.iter().any(|f| !ins.contains(&short_id(f)))).unwrap_or(false) && before[i].iter().any(|f| ins.contains(&short_id(f)))) {
                rec.count("apply.nontrivial.lower_level_keeps_files_next_to_inputs");
                nontrivial = true;
            }
        }
    }
    // ---- oracle: every level below level 0 of the tree after sorted by key, ranges at most touching
    for (i, l) in after.iter().enumerate().skip(1) {
        for (k, f) in l.iter().enumerate() {
            if f.first_key > f.last_key || l[k + 1..].iter().any(|g| f.last_key > g.first_key || f.first_key > g.first_key) {
                fails.push(("apply-level-unsorted".into(), format!("level {} after: {}", i, l.iter().map(|f| format!("{}[{}..{}]", short_id(f), hex(&f.first_key), hex(&f.last_key))).collect::<Vec<_>>().join(" "))));
                break;
            }
        }
    }
    if nontrivial {
        rec.count("apply.nontrivial");
    }
    let v = match fails.into_iter().next() {
        None => Verdict::Ok,
        Some((class, detail)) => Verdict::Fail { class, detail: format!("{} {}", tag, detail) },
    };
    let obs = format!("{} chosen=1 outsok=1{}", render_tree_ids(after), if gc { " newest=1 sub=1" } else { "" });
    let h = fnv(req.as_bytes());
    rec.case(&req, &obs, tainted_fail(v, taint), if nontrivial { Some(h) } else { None });
}

// ===================================================== the history model's steps ================

fn hist_ents(es: &[Ent]) -> String {
    if es.is_empty() {
        return "-".into();
    }
    es.iter().map(|(k, t, v)| format!("{}@{}{}", hex(k), t, if v.is_some() { "" } else { "!" })).collect::<Vec<_>>().join(",")
}

fn hist_file(f: &FileDump) -> String {
    format!("L0:{}:{}:{}:{}:{}:{}", short_id(f), hex(&f.first_key), hex(&f.last_key), f.smallest_ts, f.biggest_ts, hist_ents(&f.entries))
}

fn hist_state_req(h: &HistState) -> String {
    let mut s = format!("seq={} vis={} mem={} imm={}", h.seq, h.vis, hist_ents(&h.mem), match &h.imm {
        Some(e) => hist_ents(e),
        None => "none".into(),
    });
    for f in &h.l0 {
        s.push_str(&format!(" {}", hist_file(f)));
    }
    s
}

/// level 0 in the order `Version::load` searches it: stable sort by newest timestamp, reversed
fn l0_search_order(l0: &[FileDump]) -> Vec<String> {
    let mut v: Vec<&FileDump> = l0.iter().collect();
    v.sort_by_key(|f| f.biggest_ts);
    v.into_iter().rev().map(short_id).collect()
}

fn sorted_versions(es: &[Ent]) -> bool {
    es.windows(2).all(|w| w[0].0 < w[1].0 || (w[0].0 == w[1].0 && w[0].1 > w[1].1))
}

/// One step of the history model on the real store: `write` / `reject` / `rollover` / `flush`.
pub fn hist_case(rec: &mut Recorder, hs: &HistStep, taint: &Option<String>, tag: &str) {
    let (b, a) = (&hs.before, &hs.after);
    let req = format!("kvs hist {} :: {} :: {}", hs.op, hist_state_req(b), hist_state_req(a));
    let b_ids: Vec<String> = b.l0.iter().map(short_id).collect();
    let new: Vec<&FileDump> = a.l0.iter().filter(|f| !b_ids.contains(&short_id(f))).collect();
    let order = l0_search_order(&a.l0);
    let mut obs = format!("seq={} vis={} mem={} imm={} l0={}", a.seq, a.vis, hist_ents(&a.mem), match &a.imm {
        Some(e) => hist_ents(e),
        None => "none".into(),
    }, if order.is_empty() { "-".to_string() } else { order.join(",") });
    let verb = hs.op.split(' ').next().unwrap_or("");
    let mut fails: Vec<(String, String)> = vec![];
    let mut nontrivial = false;
    let same_l0 = |x: &HistState, y: &HistState| x.l0.iter().map(short_id).collect::<Vec<_>>() == y.l0.iter().map(short_id).collect::<Vec<_>>();
    let max_ts = |h: &HistState| h.mem.iter().chain(h.imm.iter().flatten()).chain(h.l0.iter().flat_map(|f| f.entries.iter())).map(|e| e.1).max().unwrap_or(0);
    rec.count(&format!("hist.{}", verb));
    if !sorted_versions(&a.mem) || !a.imm.as_ref().map(|i| sorted_versions(i)).unwrap_or(true) {
        fails.push(("hist-memtable-out-of-order".into(), "a memtable's cursor is not sorted by key ascending, timestamp descending".into()));
    }
    match verb {
        "write" => {
            let keys: Vec<(String, bool)> = hs.op[6..].split(',').map(|k| (k.trim_end_matches('!').to_string(), k.ends_with('!'))).collect();
            // the property's words: every entry of the batch is in the memtable under one fresh
            // timestamp newer than everything the store holds, readable at once; nothing else moved
            if a.seq <= b.seq || a.seq <= max_ts(b) {
                fails.push(("hist-write-timestamp-not-fresh".into(), format!("seq_no {} -> {}, newest version before @{}", b.seq, a.seq, max_ts(b))));
            }
            for (k, tomb) in &keys {
                let hits: Vec<&Ent> = a.mem.iter().filter(|e| &hex(&e.0) == k && e.1 > b.seq).collect();
                if hits.len() != 1 || hits[0].2.is_none() != *tomb || hits[0].1 > a.vis {
                    fails.push(("hist-write-not-in-memtable".into(), format!("key {} of the batch: {} new versions in the memtable, visible_seq_no {}", k, hits.len(), a.vis)));
                }
            }
            if a.mem.len() != b.mem.len() + keys.len() || !b.mem.iter().all(|e| a.mem.contains(e)) {
                fails.push(("hist-write-lost-or-invented-version".into(), format!("memtable {} -> {} versions for a batch of {}", b.mem.len(), a.mem.len(), keys.len())));
            }
            if a.imm != b.imm || !same_l0(a, b) {
                fails.push(("hist-write-moved-other-components".into(), "a write changed the immutable memtable or level 0".into()));
            }
            if keys.len() >= 2 {
                rec.count("hist.write.batch");
                nontrivial = true;
            }
            if keys.iter().any(|(k, _)| b.mem.iter().any(|e| &hex(&e.0) == k)) {
                rec.count("hist.write.key_already_in_memtable");
                nontrivial = true;
            }
            if b.imm.is_some() {
                rec.count("hist.write.with_immutable_memtable");
            }
        }
        "reject" => {
            if a.seq != b.seq || a.vis != b.vis || a.mem != b.mem || a.imm != b.imm || !same_l0(a, b) {
                fails.push(("hist-refused-write-changed-state".into(), format!("seq_no {} -> {}", b.seq, a.seq)));
            }
            nontrivial = true;
        }
        "rollover" => {
            if b.imm.is_some() {
                fails.push(("hist-rotation-over-immutable-memtable".into(), "the memtable was rotated while an immutable memtable was present".into()));
            }
            if a.imm.as_ref() != Some(&b.mem) || !a.mem.is_empty() {
                fails.push(("hist-rotation-lost-or-invented-version".into(), format!("memtable of {} versions rotated: immutable memtable {:?}, new memtable {}", b.mem.len(), a.imm.as_ref().map(|i| i.len()), a.mem.len())));
            }
            if a.vis != b.vis || !same_l0(a, b) || a.seq < b.seq {
                fails.push(("hist-rotation-moved-other-components".into(), format!("visible_seq_no {} -> {}", b.vis, a.vis)));
            }
            if b.mem.is_empty() {
                rec.count("hist.rollover.empty_memtable");
            }
            if b.mem.len() >= 2 {
                nontrivial = true;
            }
        }
        "flush" => {
            let imm = b.imm.clone().unwrap_or_default();
            if b.imm.is_none() {
                fails.push(("hist-flush-without-immutable-memtable".into(), "a flush ran with no immutable memtable".into()));
            }
            if new.len() != 1 {
                if !(imm.is_empty() && new.is_empty()) {
                    fails.push(("hist-flush-lost-or-invented-version".into(), format!("a flush added {} files to level 0", new.len())));
                }
            } else {
                let f = new[0];
                if f.entries != imm {
                    fails.push(("hist-flush-lost-or-invented-version".into(), format!("the new file holds {} versions, the immutable memtable {}", f.entries.len(), imm.len())));
                }
                if order.first() != Some(&short_id(f)) {
                    fails.push(("hist-flushed-file-not-searched-first".into(), format!("level 0 is searched {:?}, the new file is {}", order, short_id(f))));
                }
                obs.push_str(&format!(" file={}:{}:{}:{}", hex(&f.first_key), hex(&f.last_key), f.biggest_ts, hist_ents(&f.entries)));
            }
            if a.imm.is_some() || a.mem != b.mem || a.seq != b.seq || a.vis != b.vis {
                fails.push(("hist-flush-moved-other-components".into(), format!("seq_no {} -> {}, immutable memtable present after: {}", b.seq, a.seq, a.imm.is_some())));
            }
            if imm.is_empty() {
                rec.count("hist.flush.empty_immutable_memtable");
            }
            if !b.l0.is_empty() {
                rec.count("hist.flush.level0_not_empty");
                nontrivial = true;
            }
        }
        _ => fails.push(("hist-unknown-op".into(), hs.op.clone())),
    }
    if nontrivial {
        rec.count("hist.nontrivial");
    }
    let v = match fails.into_iter().next() {
        None => Verdict::Ok,
        Some((class, detail)) => Verdict::Fail { class, detail: format!("{} {} {}", tag, hs.op, detail) },
    };
    let h = fnv(req.as_bytes());
    rec.case(&req, &obs, tainted_fail(v, taint), if nontrivial { Some(h) } else { None });
}

// ===================================================== the selector as a function ===============

/// the options the selector reads
#[derive(Clone, Debug)]
pub struct SelOpts {
    pub mof: u64,
    pub mcb: u64,
    pub mcf: u64,
    pub mand_files: u64,
    pub mand_bytes: u64,
}

/// the metadata of one file the selector reads
#[derive(Clone, Debug)]
pub struct SelF {
    pub id: String,
    pub first: Vec<u8>,
    pub last: Vec<u8>,
    pub size: u64,
    pub bts: u64,
}

pub fn sel_levels_of_dump(d: &StateDump) -> Vec<Vec<SelF>> {
    d.levels.iter().map(|l| l.iter().map(|f| SelF { id: hex(&f.setsum)[..12].to_string(), first: f.first_key.clone(), last: f.last_key.clone(), size: f.file_size, bts: f.biggest_ts }).collect()).collect()
}

pub fn sel_levels_of_meta(levels: &[Vec<sst::SstMetadata>]) -> Vec<Vec<SelF>> {
    levels.iter().map(|l| l.iter().map(|f| SelF { id: hex(&f.setsum)[..12].to_string(), first: f.first_key.clone(), last: f.last_key.clone(), size: f.file_size, bts: f.biggest_timestamp }).collect()).collect()
}

/// `<lower> <upper> <first> <last> <id> …` | `none`
pub fn render_chosen(c: Option<&lsmtk::verif::ChosenCompaction>) -> String {
    match c {
        None => "none".to_string(),
        Some(c) => {
            let mut v = vec![c.lower_level.to_string(), c.upper_level.to_string(), hex(&c.first_key), hex(&c.last_key)];
            v.extend(c.inputs.iter().map(|d| hex(d)[..12].to_string()));
            v.join(" ")
        }
    }
}

pub fn select_request(mode: &str, o: &SelOpts, levels: &[Vec<SelF>], ongoing: &[lsmtk::verif::ChosenCompaction]) -> String {
    let mut s = format!("kvs select {} {} {} {} {} {} {} ::", mode, levels.len(), o.mof, o.mcb, o.mcf, o.mand_files, o.mand_bytes);
    for (i, l) in levels.iter().enumerate() {
        for f in l {
            s.push_str(&format!(" L{}:{}:{}:{}:{}:{}", i, f.id, hex(&f.first), hex(&f.last), f.size, f.bts));
        }
    }
    s.push_str(" ::");
    for g in ongoing {
        let ins: Vec<String> = g.inputs.iter().map(|d| hex(d)[..12].to_string()).collect();
        s.push_str(&format!(" G{}:{}:{}:{}:0:{}", g.lower_level, g.upper_level, hex(&g.first_key), hex(&g.last_key), if ins.is_empty() { "-".to_string() } else { ins.join(",") }));
    }
    s
}

/// the tree invariant the selector relies on (the hypothesis of the Lean theorem
/// `nextCompaction_closed`), evaluated on the metadata: key ranges non-empty, every level below
/// level 0 sorted by key with ranges at most touching (I1), file ids distinct
pub fn select_inv(levels: &[Vec<SelF>]) -> bool {
    let mut ids: Vec<&str> = vec![];
    for (i, l) in levels.iter().enumerate() {
        for (k, f) in l.iter().enumerate() {
            if f.first > f.last || ids.contains(&f.id.as_str()) {
                return false;
            }
            ids.push(&f.id);
            if i >= 1 && l[k + 1..].iter().any(|g| f.last > g.first) {
                return false;
            }
        }
    }
    true
}

pub fn select_case(rec: &mut Recorder, mode: &str, o: &SelOpts, levels: &[Vec<SelF>], ongoing: &[lsmtk::verif::ChosenCompaction], observed: &str, v: Verdict) {
    let req = select_request(mode, o, levels, ongoing);
    let nfiles: usize = levels.iter().map(|l| l.len()).sum();
    let observed = if mode == "full" {
        let inv = select_inv(levels);
        rec.count(if inv { "select.tree_invariant_holds" } else { "select.tree_invariant_violated" });
        format!("{} inv={}", observed, if inv { "ok" } else { "violated" })
    } else {
        observed.to_string()
    };
    rec.case(&req, &observed, v, if nfiles >= 3 { Some(fnv(req.as_bytes())) } else { None });
}

/// the oracle on one real selection, evaluated on the metadata alone (no model):
///  * every input is a file of the tree at a level in lower..=upper, named once;
///  * no input is an input of a compaction in flight;
///  * *range-closed*: no file that stays lies, in search order and down to the output level, below
///    an input whose key range it meets (level 0 is searched newest first) — this implies `closed`;
///  * the open-file budget shared with the compactions in flight is respected.
pub fn select_oracle(o: &SelOpts, levels: &[Vec<SelF>], ongoing: &[lsmtk::verif::ChosenCompaction], c: Option<&lsmtk::verif::ChosenCompaction>, tag: &str) -> Verdict {
    let Some(c) = c else { return Verdict::Ok };
    let ins: Vec<String> = c.inputs.iter().map(|d| hex(d)[..12].to_string()).collect();
    let fail = |class: &str, what: String| Verdict::Fail { class: class.to_string(), detail: format!("{} levels {}->{} inputs {}: {}", tag, c.lower_level, c.upper_level, ins.join(","), what) };
    // search order: level 0 by descending newest timestamp (stable sort, reversed), then the levels
    let mut order: Vec<(usize, &SelF)> = vec![];
    if !levels.is_empty() {
        let mut l0: Vec<&SelF> = levels[0].iter().collect();
        l0.sort_by_key(|f| f.bts);
        for f in l0.into_iter().rev() {
            order.push((0, f));
        }
        for (i, l) in levels.iter().enumerate().skip(1) {
            for f in l {
                order.push((i, f));
            }
        }
    }
    for (n, i) in ins.iter().enumerate() {
        if ins[..n].contains(i) {
            return fail("selector-names-an-input-twice", i.clone());
        }
        match order.iter().find(|(_, f)| &f.id == i) {
            None => return fail("selector-input-not-in-tree", i.clone()),
            Some((l, _)) if *l < c.lower_level || *l > c.upper_level => return fail("selector-input-outside-its-levels", format!("{} at level {}", i, l)),
            _ => {}
        }
        for g in ongoing {
            if g.inputs.iter().any(|d| &hex(d)[..12] == i.as_str()) {
                return fail("selector-chose-input-of-compaction-in-flight", i.clone());
            }
        }
    }
    let in_flight: usize = ongoing.iter().map(|g| g.inputs.len()).sum();
    if (ins.len() + in_flight) as u64 >= o.mof {
        return fail("selector-exceeds-open-file-budget", format!("{} + {} in flight, max_open_files {}", ins.len(), in_flight, o.mof));
    }
    for a in 0..order.len() {
        if !ins.contains(&order[a].1.id) {
            continue;
        }
        for b in a + 1..order.len() {
            if order[b].0 > c.upper_level || ins.contains(&order[b].1.id) {
                continue;
            }
            let (f, g) = (order[a].1, order[b].1);
            if f.first <= g.last && g.first <= f.last {
                return fail("selector-chose-open-compaction", format!("input {} (level {}) meets kept {} (level {})", f.id, order[a].0, g.id, order[b].0));
            }
        }
    }
    Verdict::Ok
}

/// the two floating-point expressions of `next_compaction`, evaluated here exactly as the code
/// writes them, against the model's integer computation
fn f64_cases(rec: &mut Recorder, seed: u64, n: u64) {
    fn level_curve(level: usize) -> u64 {
        if level <= 2 {
            1
        } else {
            (level as f64).log10().ceil() as u64 + 1
        }
    }
    fn level_factor(lower_level: usize) -> f64 {
        (lower_level as f64 + 1.0).log2() / (lower_level + 1) as f64 + 1.0
    }
    let curve: Vec<String> = (0..16usize).map(|l| level_curve(l).to_string()).collect();
    let factor: Vec<String> = (0..16usize).map(|l| format!("{:016x}", level_factor(l).to_bits())).collect();
    rec.corr("kvs f64tab", &format!("curve {} factor {}", curve.join(" "), factor.join(" ")), Some(fnv(b"f64tab")));
    let mut rng = Rng::for_case(seed, 103, 0);
    let edge: [i64; 16] = [0, 1, -1, 2, 3, 7, -7, 1 << 52, (1 << 53) - 1, 1 << 53, (1 << 53) + 1, -((1 << 53) + 1), i64::MAX, i64::MIN, i64::MIN + 1, i64::MAX - 1];
    for i in 0..n {
        let l = rng.range(0, 15) as usize;
        let score: i64 = match rng.below(5) {
            0 => edge[rng.below(16) as usize],
            1 => rng.below(4096) as i64 - 1024,
            2 => (rng.next() >> rng.range(1, 40)) as i64,
            3 => -((rng.next() >> rng.range(1, 40)) as i64),
            // multiples of 8 and 16: the products with the dyadic factors 1.5 / 1.375 / 1.25 are integers
            _ => (rng.below(1 << 20) as i64) * 16 - (i as i64 % 2) * 8,
        };
        let got = (score as f64 * level_factor(l)).ceil() as i64;
        rec.corr(&format!("kvs scale {} {}", l, score), &got.to_string(), Some(fnv(format!("scale {} {}", l, score).as_bytes())));
        rec.count("f64.scale_cases");
    }
}

// ---------------------------------------------------------------- selector-centred histories ----

#[derive(Clone, Debug)]
struct SelCfg {
    stall_files: u64,
    stall_bytes: u64,
    mand_files: u64,
    mand_bytes: u64,
    mcf: u64,
    mcb: u64,
    mof: u64,
    memtable: u64,
    target_file: u64,
    cache: u64,
}

impl SelCfg {
    fn gen(rng: &mut Rng, kind: u64) -> SelCfg {
        let mut c = SelCfg { stall_files: 12, stall_bytes: 1 << 28, mand_files: 4, mand_bytes: 1 << 26, mcf: 64, mcb: 1 << 29, mof: 1 << 19, memtable: 256, target_file: 1 << 22, cache: 1 << 26 };
        c.memtable = *rng.pick(&[64, 200, 600]);
        c.target_file = *rng.pick(&[128, 256, 1024, 1 << 22]);
        c.stall_files = *rng.pick(&[3, 4, 6, 12]);
        c.mand_files = *rng.pick(&[1, 2, 4, 8]);
        match kind {
            // limits out of the way
            0 => c.mcf = *rng.pick(&[16, 32, 64]),
            // the file limit around the stall threshold
            1 => c.mcf = match rng.below(3) {
                0 => c.stall_files.saturating_sub(1).max(2),
                1 => c.stall_files,
                _ => c.stall_files + rng.range(1, 3),
            },
            // byte thresholds and the byte limit
            2 => {
                c.stall_bytes = *rng.pick(&[900, 2000, 1 << 28]);
                c.mand_bytes = *rng.pick(&[200, 500, 5000]);
                c.mcb = *rng.pick(&[300, 700, 1200, 3000]);
                c.mcf = *rng.pick(&[8, 64]);
            }
            // the open-file limit (cache off so that handles are closed again)
            _ => {
                c.cache = 0;
                c.mof = *rng.pick(&[8, 12, 24]);
                c.mcf = *rng.pick(&[4, 8, 64]);
            }
        }
        c
    }
    fn render(&self) -> String {
        format!("stall={}f/{}b mand={}f/{}b mcf={} mcb={} mof={} mem={} tf={} cache={}", self.stall_files, self.stall_bytes, self.mand_files, self.mand_bytes, self.mcf, self.mcb, self.mof, self.memtable, self.target_file, self.cache)
    }
    fn sel_opts(&self) -> SelOpts {
        SelOpts { mof: self.mof, mcb: self.mcb, mcf: self.mcf, mand_files: self.mand_files, mand_bytes: self.mand_bytes }
    }
    fn options(&self, path: &str) -> lsmtk::LsmtkOptions {
        use arrrg::CommandLine;
        let args: Vec<String> = vec![
            "--path".into(),
            path.into(),
            "--memtable-size-bytes".into(),
            self.memtable.to_string(),
            "--sst-target-file-size".into(),
            self.target_file.to_string(),
            "--sst-minimum-file-size".into(),
            "64".into(),
            "--sst-target-block-size".into(),
            "256".into(),
            "--l0-mandatory-compaction-threshold-files".into(),
            self.mand_files.to_string(),
            "--l0-mandatory-compaction-threshold-bytes".into(),
            self.mand_bytes.to_string(),
            "--l0-write-stall-threshold-files".into(),
            self.stall_files.to_string(),
            "--l0-write-stall-threshold-bytes".into(),
            self.stall_bytes.to_string(),
            "--max-compaction-files".into(),
            self.mcf.to_string(),
            "--max-compaction-bytes".into(),
            self.mcb.to_string(),
            "--max-open-files".into(),
            self.mof.to_string(),
            "--sst-cache-bytes".into(),
            self.cache.to_string(),
        ];
        let refs: Vec<&str> = args.iter().map(|s| s.as_str()).collect();
        let (opts, free) = lsmtk::LsmtkOptions::from_arguments_relaxed("blueharness", &refs);
        assert!(free.is_empty(), "free args: {:?}", free);
        opts
    }
}

fn err_text(e: &lsmtk::SError) -> String {
    let s = format!("{:?}", e);
    s.chars().take(300).map(|c| if c.is_whitespace() { '_' } else { c }).collect()
}

/// what the observer inside a running compaction saw
#[derive(Default)]
struct Inside {
    /// the compaction in flight
    first: Option<lsmtk::verif::ChosenCompaction>,
    /// the tree and `next_compaction().is_some()` with that compaction in flight
    status: Option<(Vec<Vec<SelF>>, bool, usize)>,
    /// the nested selection, performed for real: `None` = not attempted
    nested: Option<Result<Option<lsmtk::verif::ChosenCompaction>, String>>,
    /// the tree (with entries) the nested compaction was chosen in and the tree after it
    nested_trees: Option<(Vec<Vec<FileDump>>, Vec<Vec<FileDump>>)>,
    /// the tree before and after the outer compaction was applied (after the nested one, if any)
    trees: Option<(Vec<Vec<FileDump>>, Vec<Vec<FileDump>>)>,
}

/// one single-stepped selection + compaction.  With `nest`, a second selection is made (and
/// performed) from inside the first compaction, before its manifest edit: the selector then runs
/// with one compaction in flight.
fn sel_compact_step(kvs: &lsmtk::KeyValueStore, nest: bool, root: &str, cache: &EntCache) -> (Vec<Vec<SelF>>, Result<(), String>, Option<lsmtk::verif::ChosenCompaction>, Inside) {
    let before = sel_levels_of_meta(&kvs.verif_tree().verif_dump());
    let before_d = levels_cached(kvs, root, cache).ok();
    let (root2, cache2) = (root.to_string(), cache.clone());
    let sink = std::rc::Rc::new(std::cell::RefCell::new(Inside::default()));
    let kvs_ptr = kvs as *const lsmtk::KeyValueStore;
    let sink2 = sink.clone();
    lsmtk::verif::set_probe(Some(Box::new(move |tag: &'static str| {
        if tag != "compaction.before_manifest" {
            return;
        }
        // SAFETY: the probe is cleared below, before `kvs` can go away
        let kvs = unsafe { &*kvs_ptr };
        let mut out = sink2.borrow_mut();
        if out.first.is_some() {
            return;
        }
        out.first = lsmtk::verif::take_chosen().into_iter().next();
        let tree = kvs.verif_tree();
        let levels = sel_levels_of_meta(&tree.verif_dump());
        let (_stall, selectable, n) = tree.verif_status();
        out.status = Some((levels, selectable, n));
        if nest {
            // the probe is not re-entered: `verif::probe` takes the observer out while it runs
            let t0 = levels_cached(kvs, &root2, &cache2).ok();
            lsmtk::verif::set_single_step(Some(1));
            let r = kvs.compaction_thread();
            lsmtk::verif::set_single_step(Some(0));
            let c2 = lsmtk::verif::take_chosen().into_iter().next();
            if let (Ok(_), Some(_), Some(t0)) = (&r, &c2, t0) {
                if let Ok(t1) = levels_cached(kvs, &root2, &cache2) {
                    out.nested_trees = Some((t0, t1));
                }
            }
            out.nested = Some(r.map(|_| c2).map_err(|e| err_text(&e)));
        }
    })));
    lsmtk::verif::set_single_step(Some(1));
    let r = kvs.compaction_thread();
    lsmtk::verif::set_single_step(None);
    lsmtk::verif::set_probe(None);
    let mut inside = std::mem::take(&mut *sink.borrow_mut());
    let chosen = match inside.first.clone() {
        Some(c) => Some(c),
        None => lsmtk::verif::take_chosen().into_iter().next(),
    };
    if inside.first.is_none() {
        inside.status = None;
    }
    if let (Ok(_), Some(_), Some(b)) = (&r, &chosen, before_d) {
        // the outer compaction is applied to the tree the nested one left
        let b = match &inside.nested_trees {
            Some((_, t1)) => t1.clone(),
            None => b,
        };
        if let Ok(a) = levels_cached(kvs, root, cache) {
            inside.trees = Some((b, a));
        }
    }
    (before, r.map_err(|e| format!("compaction-error:{}", err_text(&e))), chosen, inside)
}

fn sel_keys(n: usize) -> Vec<Vec<u8>> {
    (0..n).map(|i| format!("k{:02}", i).into_bytes()).collect()
}

fn run_sel_history(rec: &mut Recorder, seed: u64, h: u64, len: usize) {
    let mut rng = Rng::for_case(seed, 102, h);
    let kind = h % 4;
    let cfg = SelCfg::gen(&mut rng, kind);
    let so = cfg.sel_opts();
    let nkeys = *rng.pick(&[3usize, 6, 12, 30]);
    let keys = sel_keys(nkeys);
    // which keys a write touches: 0 = a few random keys; 1 = the same plus the smallest and the
    // largest key (every file spans the key space: nothing moves past anything, the levels fill up
    // one file each and every later flush forces a merge); 2 = the two ends of a random interval of
    // the alphabet plus some keys inside (partially overlapping and nested ranges: the fixed point
    // of compute_bounds and expand_compaction have work to do)
    let shape = (h / 4) % 3;
    let wide = shape == 1;
    // 0: compaction steps at random; 1: after every flush the compaction loop runs until it
    // finds nothing (bounded)
    let drain = shape != 0 || rng.chance(1, 2);
    let p_compact = if drain { 0 } else { *rng.pick(&[15u64, 30, 50]) };
    let nest = h % 3 != 2;
    rec.aux(&format!("sel-history {} kind {} {} nkeys {} shape {} drain {} pc {} nest {}", h, kind, cfg.render(), nkeys, shape, drain, p_compact, nest));
    rec.count(&format!("selhist.shape{}", shape));
    rec.count(&format!("selhist.kind{}", kind));
    let root = scratch_dir(&format!("c01s.{}", h));
    let kvs = match lsmtk::KeyValueStore::open(cfg.options(&root)) {
        Ok(k) => k,
        Err(e) => {
            rec.case(&format!("# sel-history {} open", h), "#", Verdict::Fail { class: "open-error".into(), detail: err_text(&e) }, None);
            return;
        }
    };
    let mut oracle: std::collections::BTreeMap<Vec<u8>, Vec<u8>> = Default::default();
    let mut counter = 0u64;
    let mut moves_seen = 0u64;
    let cache: EntCache = Default::default();
    'steps: for step in 0..len {
        let tag = format!("sel-history {} step {}", h, step);
        let r = rng.below(100);
        let res: Result<(), String> = guarded(std::panic::AssertUnwindSafe(|| -> Result<(), String> {
            let mut flushed = false;
            if r >= p_compact {
                let n = rng.range(1, 4) as usize;
                let mut ks: Vec<Vec<u8>> = (0..n).map(|_| rng.pick(&keys).clone()).collect();
                if wide {
                    ks.push(keys[0].clone());
                    ks.push(keys[nkeys - 1].clone());
                }
                if shape == 2 {
                    let a = rng.below(nkeys as u64) as usize;
                    let b = (a + rng.below(1 + nkeys as u64 / 2) as usize).min(nkeys - 1);
                    ks = vec![keys[a].clone(), keys[b].clone()];
                    for _ in 0..rng.below(3) {
                        ks.push(keys[rng.range(a as u64, b as u64) as usize].clone());
                    }
                }
                ks.sort();
                ks.dedup();
                let vlen = rng.range(2, 40) as usize;
                let mut wb = lsmtk::WriteBatch::with_capacity(ks.len());
                let mut vals = vec![];
                for k in &ks {
                    counter += 1;
                    let mut v = format!("v{}", counter).into_bytes();
                    v.extend(std::iter::repeat(b'.').take(vlen));
                    wb.put(k, &v);
                    vals.push((k.clone(), v));
                }
                kvs.write(wb).map_err(|e| format!("write-error:{}", err_text(&e)))?;
                for (k, v) in vals {
                    oracle.insert(k, v);
                }
                if drain || rng.chance(2, 3) {
                    let (mem, _) = kvs.verif_dump_mem().map_err(|e| err_text(&e))?;
                    let (stall, _, _) = kvs.verif_tree().verif_status();
                    if !mem.is_empty() && !stall {
                        kvs.verif_request_flush();
                        let t0 = levels_cached(&kvs, &root, &cache).ok();
                        lsmtk::verif::set_single_step(Some(0));
                        let r = kvs.memtable_thread();
                        lsmtk::verif::set_single_step(None);
                        r.map_err(|e| format!("flush-error:{}", err_text(&e)))?;
                        rec.count("selhist.flush");
                        if let (Some(t0), Ok(t1)) = (t0, levels_cached(&kvs, &root, &cache)) {
                            apply_case(rec, &t0, None, &t1, &None, &tag, None);
                        }
                        flushed = true;
                    } else if stall {
                        flushed = true; // let the compaction loop relieve the stall
                    }
                }
            }
            if r < p_compact || (drain && flushed) {
                // withheld now and then, so that level 0 holds more than one file when the loop runs
                let steps = if drain { if rng.chance(1, 3) { 0 } else { 24 } } else { rng.range(1, 4) };
                for _ in 0..steps {
                    let (before, res, chosen, inside) = sel_compact_step(&kvs, nest, &root, &cache);
                    let v = select_oracle(&so, &before, &[], chosen.as_ref(), &tag);
                    // trivial moves dominate (a flushed file moves down alone while there is room):
                    // every third of them is compared here, every one in the store histories above
                    let is_move = chosen.as_ref().map(|c| c.inputs.len() == 1).unwrap_or(false);
                    if is_move {
                        moves_seen += 1;
                    }
                    match v {
                        Verdict::Ok if is_move && moves_seen % 3 != 0 => rec.count("selhist.trivial_move_not_compared"),
                        v => select_case(rec, "full", &so, &before, &[], &render_chosen(chosen.as_ref()), v),
                    }
                    match &chosen {
                        None => rec.count("selhist.none"),
                        Some(c) if c.inputs.len() == 1 => rec.count("selhist.trivial_move"),
                        Some(c) if c.upper_level == lsmtk::NUM_LEVELS - 1 => rec.count("selhist.gc"),
                        Some(_) => rec.count("selhist.merge"),
                    }
                    if let Some(c) = &chosen {
                        if c.inputs.len() as u64 > so.mcf {
                            rec.count("selhist.inputs_exceed_max_compaction_files");
                        }
                    }
                    if let (Some(c1), Some((levels, selectable, n))) = (&inside.first, &inside.status) {
                        let og = [c1.clone()];
                        let v = if *n == 1 { Verdict::Ok } else { Verdict::Fail { class: "in-flight-count-wrong".into(), detail: format!("{} ongoing {}", tag, n) } };
                        select_case(rec, "some", &so, levels, &og, if *selectable { "some" } else { "none" }, v);
                        rec.count(if *selectable { "selhist.inflight.some" } else { "selhist.inflight.none" });
                        match &inside.nested {
                            Some(Ok(c2)) => {
                                let v = select_oracle(&so, levels, &og, c2.as_ref(), &tag);
                                select_case(rec, "full", &so, levels, &og, &render_chosen(c2.as_ref()), v);
                                rec.count(if c2.is_some() { "selhist.nested.chosen" } else { "selhist.nested.none" });
                            }
                            Some(Err(e)) => return Err(format!("nested-{}", e)),
                            None => {}
                        }
                    }
                    res?;
                    // the tree steps as functions: the nested compaction (performed first), then
                    // the compaction it was nested in, applied to the tree the nested one left
                    if let (Some(Ok(Some(c2))), Some((t0, t1))) = (&inside.nested, &inside.nested_trees) {
                        apply_case(rec, t0, Some(c2), t1, &None, &tag, None);
                        rec.count("selhist.apply.nested");
                    }
                    if let (Some(c1), Some((t0, t1))) = (&chosen, &inside.trees) {
                        apply_case(rec, t0, Some(c1), t1, &None, &tag, None);
                        if inside.nested_trees.is_some() {
                            rec.count("selhist.apply.on_the_tree_a_nested_compaction_left");
                        }
                    }
                    if chosen.is_none() {
                        break;
                    }
                }
            }
            Ok(())
        }))
        .unwrap_or_else(|p| Err(format!("panic:{}", p)));
        if let Err(e) = res {
            let refused = e.contains("TooManyOpenFiles") || e.contains("too_many_open_files") || e.contains("too many open files");
            if refused {
                rec.count("selhist.history_ended_by_open_file_limit");
            } else {
                rec.case(&format!("# {}", tag), "#", Verdict::Fail { class: "fault-free-op-error".into(), detail: format!("{} {} -> {}", tag, cfg.render(), e) }, None);
            }
            break 'steps;
        }
        // reads against the sequential map (the nested compactions are real)
        let mut bad = vec![];
        for k in &keys {
            let mut tomb = false;
            match kvs.load(k, &mut tomb) {
                Ok(got) => {
                    if got.as_ref() != oracle.get(k) {
                        bad.push(format!("key {} got {:?} want {:?}", hex(k), got.as_ref().map(|v| hex(v)), oracle.get(k).map(|v| hex(v))));
                    }
                }
                Err(e) => bad.push(format!("key {} load error {}", hex(k), err_text(&e))),
            }
        }
        if !bad.is_empty() {
            rec.case(&format!("# {} reads", tag), "#", Verdict::Fail { class: "stale-or-wrong-read".into(), detail: format!("{} {}", tag, bad.join("; ")) }, None);
            break 'steps;
        }
        rec.count("selhist.steps");
    }
    drop(kvs);
    let _ = std::fs::remove_dir_all(&root);
}

pub fn run(args: &Args) {
    let mut rec = Recorder::new(&args.out, args.only_case);
    let (nh, len) = if args.thorough { (250, 120) } else { (100, 60) };
    for h in 0..nh {
        let nkeys = if h % 3 == 0 { 4 } else if h % 3 == 1 { 7 } else { 12 };
        run_history(&mut rec, args.seed, h, len, nkeys);
    }
    f64_cases(&mut rec, args.seed, if args.thorough { 2000 } else { 400 });
    let (nsh, shlen) = if args.thorough { (150, 160) } else { (48, 90) };
    for h in 0..nsh {
        run_sel_history(&mut rec, args.seed, h, shlen);
    }
    rec.finish(
        "seeded store histories (put/del/batch/flush/compaction steps/reopen; keys from a 4-12 key adversarial alphabet, ~30% tombstones, options grid memtable x file size x block size x L0 thresholds x max compaction files x gc versions x manifest rollover ratio) on the real KeyValueStore, flush and compaction loops single-stepped; after every op: reads of every key vs. sequential map and vs. the Lean model on the dumped state, invariants I1/I2 on the dumped state, closedness of each chosen compaction; the selector as a function (Lean nextCompaction vs Version::next_compaction: levels, key range, input ids in order) at every compaction step and, as is_some, on every state; selhist: selector-centred histories (options grid stall/mandatory thresholds x max_compaction_files at/below/above the stall threshold x max_compaction_bytes x max_open_files x memtable x file size) with the selection compared at every compaction step, again with one compaction in flight (asked inside the running compaction, the nested choice performed) and reads checked against a sequential map; f64: the level-curve / level-factor tables and seeded (level, score) pairs of ceil(score as f64 * level_factor) as i64; tree steps: at every performed compaction step and every flush of both kinds of history (the nested compaction of selhist and the step it is nested in included) the Lean functions applyCompaction / applyTrivialMove / ingest on the tree before (per level in the order the version holds the files), the compaction the real selector returned and the outputs read off the real tree after vs the real tree after, level by level, file by file, in the version's order, with the Boolean forms of Chosen and OutsOk evaluated on the step; oracle on the ids alone: after = before - inputs + outputs level by level as multisets, an output carrying an input's id was added by the step's manifest edit (store histories), every level >= 1 after sorted by key with at most touching ranges; non-trivial = a read step at which some key has versions in >= 2 components, or a selection on a tree of >= 3 files; distinct by dumped state; a tree step is non-trivial when it has inputs at >= 2 levels, >= 2 or 0 outputs, a kept file next to the outputs in the output level or next to the inputs in a lower level, or (flush) a non-empty level 0; history model: at every put / del / batch, every refused batch (tried next to every batch), every memtable rotation and every flush the Lean function Blue.StoreHist.apply on the state before (memtable, immutable memtable, seq_no, visible_seq_no, level 0) vs the state after (one pass of the flush loop = rollover up to the state seen at flush.rotated, then flush: new file's key range, newest timestamp and versions, level 0 in search order); oracle on the dumps alone (fresh timestamp, batch in the memtable and visible, nothing lost or moved, flushed file searched first); a history step is non-trivial when it is a batch of >= 2 keys, writes a key the memtable already holds, is a refused batch, rotates >= 2 versions or flushes into a non-empty level 0; GC obligations: every performed compaction into the last level carries the tombstones of its inputs, the model evaluates newestKeptB and outputs-subset-of-inputs, the oracle evaluates both on the entries directly",
        &[],
    );
}
