//! C01 — point reads return the latest write, whatever the tree did in between.
//!
//! Histories over a small adversarial key alphabet are run on the real `KeyValueStore` with the
//! flush and compaction loops single-stepped.  After every operation the store state is dumped and
//!  * oracle: `load` of every alphabet key == sequential map; no fault-free operation errs;
//!  * correspondence: the Lean model's `kvsLoad` on the dumped state == the implementation's reads;
//!    the model's decidable invariants I1 ∧ I2 hold on the dumped state (the hypothesis of theorem
//!    `kvsLoad_visible`); every compaction the selector chose is `closed` on the state it was
//!    chosen in (the hypothesis of `compaction_preserves`).
use crate::common::*;

fn tainted(v: Verdict, taint: &Option<String>) -> Verdict {
    match (v, taint) {
        (Verdict::Ok, Some(c)) => Verdict::Taint { class: c.clone() },
        (v, _) => v,
    }
}

use crate::store::*;

fn render_get(r: &Result<Option<Vec<u8>>, String>, tomb_is_none: bool) -> String {
    match r {
        Ok(Some(v)) => format!("={}", hex(v)),
        Ok(None) => {
            if tomb_is_none {
                "?".into()
            } else {
                "!".into()
            }
        }
        Err(e) => format!("err:{}", e),
    }
}

pub fn state_with_ids(d: &StateDump) -> String {
    // same as StateDump::render but with a short file id (setsum prefix) per file
    let mut s = format!("ts={} mem={} imm={}", d.seq_no, ents(&d.mem), match &d.imm {
        Some(e) => ents(e),
        None => "none".into(),
    });
    for (i, l) in d.levels.iter().enumerate() {
        for f in l {
            s.push_str(&format!(" L{}:{}:{}:{}:{}:{}:{}", i, &hex(&f.setsum)[..12], hex(&f.first_key), hex(&f.last_key), f.smallest_ts, f.biggest_ts, ents(&f.entries)));
        }
    }
    s
}

/// components of a dumped state in search order, as (level or -1 for memtables, file id, entries)
pub fn components(d: &StateDump) -> Vec<(i64, String, Vec<Ent>)> {
    let mut v = vec![(-1, "mem".to_string(), d.mem.clone())];
    if let Some(i) = &d.imm {
        v.push((-1, "imm".to_string(), i.clone()));
    }
    if !d.levels.is_empty() {
        let mut l0: Vec<&FileDump> = d.levels[0].iter().collect();
        l0.sort_by_key(|f| f.biggest_ts); // stable, as Version::load
        for f in l0.into_iter().rev() {
            v.push((0, hex(&f.setsum)[..12].to_string(), f.entries.clone()));
        }
        for (i, l) in d.levels.iter().enumerate().skip(1) {
            for f in l {
                v.push((i as i64, hex(&f.setsum)[..12].to_string(), f.entries.clone()));
            }
        }
    }
    v
}

/// I1 (levels >= 1 sorted, ranges at most touching, entries inside the file's range) and
/// I2 ("newer above" in search order), evaluated directly on the dump
pub fn check_invariants(d: &StateDump) -> &'static str {
    let comps = components(d);
    for i in 0..comps.len() {
        for j in i + 1..comps.len() {
            for a in &comps[i].2 {
                for b in &comps[j].2 {
                    if a.0 == b.0 && !(b.1 < a.1) {
                        return "I2-newer-above-violated";
                    }
                }
            }
        }
    }
    for l in d.levels.iter().skip(1) {
        for (i, f) in l.iter().enumerate() {
            if f.first_key > f.last_key || f.entries.iter().any(|e| e.0 < f.first_key || e.0 > f.last_key) {
                return "I1-level-order-violated";
            }
            for g in l.iter().skip(i + 1) {
                if f.last_key > g.first_key {
                    return "I1-level-order-violated";
                }
            }
        }
    }
    "ok"
}

/// is the chosen compaction closed on the state it was chosen in: no component that stays lies
/// (in search order, down to the output level) below an input it shares a key with
pub fn check_closed(d: &StateDump, upper: usize, inputs: &[String]) -> &'static str {
    let comps: Vec<(i64, String, Vec<Ent>)> = components(d).into_iter().filter(|c| c.0 <= upper as i64).collect();
    for i in 0..comps.len() {
        if !inputs.contains(&comps[i].1) {
            continue;
        }
        for j in i + 1..comps.len() {
            if inputs.contains(&comps[j].1) {
                continue;
            }
            if comps[i].2.iter().any(|a| comps[j].2.iter().any(|b| a.0 == b.0)) {
                return "open";
            }
        }
    }
    "closed"
}

/// D-9 trigger (a decidable predicate on the state a reopen starts from): two live files overlap
/// both in key range and in timestamp range, so `recover` cannot order them and gives them one level
pub fn d9_trigger(d: &StateDump) -> bool {
    let files: Vec<&FileDump> = d.levels.iter().flat_map(|l| l.iter()).collect();
    for i in 0..files.len() {
        for j in i + 1..files.len() {
            let (a, b) = (files[i], files[j]);
            let keys = a.first_key <= b.last_key && b.first_key <= a.last_key;
            let ts = !(a.biggest_ts < b.smallest_ts || b.biggest_ts < a.smallest_ts);
            if keys && ts {
                return true;
            }
        }
    }
    false
}

fn ents(es: &[Ent]) -> String {
    if es.is_empty() {
        return "-".into();
    }
    es.iter()
        .map(|(k, t, v)| match v {
            Some(v) => format!("{}@{}={}", hex(k), t, hex(v)),
            None => format!("{}@{}!", hex(k), t),
        })
        .collect::<Vec<_>>()
        .join(",")
}

/// run one history; emits one `load` + one `inv` case per step and one `closed` case per chosen
/// compaction.  Returns false if the history had to stop (error).
pub fn run_history(rec: &mut Recorder, seed: u64, hidx: u64, len: usize, nkeys: usize) {
    let mut rng = Rng::for_case(seed, 101, hidx);
    let cfg = Cfg::gen(&mut rng);
    let mode = hidx % 4 % 3;
    let ops = gen_history(&mut rng, if mode == 1 { len * 3 } else { len }, nkeys, mode);
    let root = scratch_dir(&format!("c01.{}", hidx));
    rec.aux(&format!("history {} cfg {} ops {}", hidx, cfg.render(), ops.iter().map(|o| o.render()).collect::<Vec<_>>().join(" ")));
    let mut sim = match Sim::open(&root, &cfg) {
        Ok(s) => s,
        Err(e) => {
            rec.case(&format!("# history {} open", hidx), "#", Verdict::Fail { class: "open-error".into(), detail: e }, None);
            return;
        }
    };
    let keys: Vec<Vec<u8>> = ALPHABET[..nkeys].iter().map(|k| k.to_vec()).collect();
    let qs = keys.iter().map(|k| hex(k)).collect::<Vec<_>>().join(" ");
    let mut taint: Option<String> = None;
    for (step, op) in ops.iter().enumerate() {
        let tag = format!("h{}s{}:{}", hidx, step, op.render());
        if let Op::Reopen = op {
            if taint.is_none() {
                if let Ok(d) = sim.dump() {
                    if d9_trigger(&d) {
                        taint = Some("reopen-with-key-and-timestamp-overlapping-files".to_string());
                        rec.count("histories_tainted_by_D9_trigger");
                    }
                }
            }
        }
        let res = guarded(std::panic::AssertUnwindSafe(|| sim.apply(op)));
        let res = match res {
            Ok(r) => r,
            Err(p) => Err(format!("panic:{}", p)),
        };
        if let Err(e) = res {
            rec.count("op_errors");
            rec.case(&format!("# {}", tag), "#", Verdict::Fail { class: taint.clone().unwrap_or_else(|| "fault-free-op-error".to_string()), detail: format!("{} -> {}", tag, e) }, None);
            break;
        }
        match op {
            Op::Put(..) => rec.count("op.put"),
            Op::Del(..) => rec.count("op.del"),
            Op::Batch(..) => rec.count("op.batch"),
            Op::Flush => rec.count("op.flush"),
            Op::Compact(..) => rec.count("op.compact"),
            Op::Reopen => rec.count("op.reopen"),
            Op::Verify => {
                rec.count("op.verify");
                if sim.last_verify.starts_with("error") {
                    rec.case(&format!("# {}", tag), "#", Verdict::Fail { class: taint.clone().unwrap_or_else(|| "verifier-rejects-store-history".to_string()), detail: format!("{} {}", tag, sim.last_verify) }, None);
                }
            }
        }
        // chosen compactions: closed on the state they were chosen in?
        let pf = std::mem::take(&mut sim.probe_failures);
        if !pf.is_empty() {
            rec.case(&format!("# {} inside", tag), "#", Verdict::Fail { class: taint.clone().unwrap_or_else(|| "wrong-read-or-missing-log-inside-flush-or-compaction".to_string()), detail: format!("{} {}", tag, pf.iter().take(3).cloned().collect::<Vec<_>>().join("; ")) }, None);
        }
        let chosen = std::mem::take(&mut sim.chosen);
        for (b, c) in chosen.iter() {
            let ins: Vec<String> = c.inputs.iter().map(|d| hex(d)[..12].to_string()).collect();
            let req = format!("kvs closed {} {} :: {}", c.upper_level, state_with_ids(b), ins.join(" "));
            rec.count(if c.inputs.len() == 1 { "compaction.trivial_move" } else if c.upper_level == lsmtk::NUM_LEVELS - 1 { "compaction.gc" } else { "compaction.merge" });
            let verdict = check_closed(b, c.upper_level, &ins);
            let v = if verdict == "closed" {
                Verdict::Ok
            } else {
                Verdict::Fail { class: taint.clone().unwrap_or_else(|| "selector-chose-open-compaction".to_string()), detail: format!("{} levels {}->{} inputs {}", tag, c.lower_level, c.upper_level, ins.join(",")) }
            };
            rec.case(&req, verdict, tainted(v, &taint), Some(fnv(req.as_bytes())));
        }
        let d = match sim.dump() {
            Ok(d) => d,
            Err(e) => {
                rec.case(&format!("# {}", tag), "#", Verdict::Fail { class: "dump-error".into(), detail: e }, None);
                break;
            }
        };
        // reads
        let mut obs = vec![];
        let mut bad = vec![];
        let mut multi = false;
        for k in &keys {
            let mut tomb = false;
            let r = sim.kvs().load(k, &mut tomb).map_err(|e| format!("{:?}", e).replace(' ', "_"));
            let want = sim.oracle.get(k).cloned().flatten();
            match &r {
                Ok(got) => {
                    if *got != want {
                        bad.push(format!("key {} got {:?} want {:?}", hex(k), got.as_ref().map(|v| hex(v)), want.as_ref().map(|v| hex(v))));
                    }
                }
                Err(e) => bad.push(format!("key {} load error {}", hex(k), e)),
            }
            obs.push(render_get(&r, !tomb));
            // non-trivial: >= 2 versions of this key in >= 2 different components
            let mut comps = 0;
            if d.mem.iter().any(|e| &e.0 == k) {
                comps += 1;
            }
            if d.imm.as_ref().map(|i| i.iter().any(|e| &e.0 == k)).unwrap_or(false) {
                comps += 1;
            }
            for l in &d.levels {
                for f in l {
                    if f.entries.iter().any(|e| &e.0 == k) {
                        comps += 1;
                    }
                }
            }
            if comps >= 2 {
                multi = true;
            }
        }
        rec.add("state.files", d.nfiles() as u64);
        let depth = d.depth();
        rec.count(&format!("state.depth{}", depth));
        let st = state_with_ids(&d);
        let req = format!("kvs load {} :: {}", st, qs);
        let verdict = if bad.is_empty() { Verdict::Ok } else { Verdict::Fail { class: taint.clone().unwrap_or_else(|| "stale-or-wrong-read".to_string()), detail: format!("{} {}", tag, bad.join("; ")) } };
        rec.case(&req, &obs.join(" "), tainted(verdict, &taint), if multi { Some(fnv(req.as_bytes())) } else { None });
        let req = format!("kvs inv {}", st);
        let iv = check_invariants(&d);
        let v = if iv == "ok" { Verdict::Ok } else { Verdict::Fail { class: taint.clone().unwrap_or_else(|| "tree-invariant-violated".to_string()), detail: format!("{} {}", tag, iv) } };
        rec.case(&req, iv, tainted(v, &taint), None);
    }
    rec.add("flushes", sim.flushes);
    rec.add("compactions", sim.compactions);
    rec.add("reopens", sim.reopens);
    rec.add("observations_inside_flush_or_compaction", sim.probes_run);
    rec.add("stalled_with_nothing_selectable", sim.stalled_unselectable);
    sim.close();
}

pub fn run(args: &Args) {
    let mut rec = Recorder::new(&args.out, args.only_case);
    let (nh, len) = if args.thorough { (250, 120) } else { (100, 60) };
    for h in 0..nh {
        let nkeys = if h % 3 == 0 { 4 } else if h % 3 == 1 { 7 } else { 12 };
        run_history(&mut rec, args.seed, h, len, nkeys);
    }
    rec.finish(
        "seeded store histories (put/del/batch/flush/compaction steps/reopen; keys from a 4-12 key adversarial alphabet, ~30% tombstones, options grid memtable x file size x block size x L0 thresholds x max compaction files x gc versions x manifest rollover ratio) on the real KeyValueStore, flush and compaction loops single-stepped; after every op: reads of every key vs. sequential map and vs. the Lean model on the dumped state, invariants I1/I2 on the dumped state, closedness of each chosen compaction; non-trivial = a read step at which some key has versions in >= 2 components; distinct by dumped state",
        &[],
    );
}
