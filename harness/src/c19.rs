//! C19 — the compressed text index answers every query as the uncompressed text would; bit vectors
//! answer access/rank/select as a plain bit array.
//!
//! Instance `bv`: every `BitVector` implementation of scrunch (reference, rrr, cf_rrr, sparse with
//! the branch factors the crate uses plus the two extreme ones) against the Lean model on
//! `List Bool` (correspondence) and against a `Vec<bool>` (oracle), constructed -> bytes -> parsed,
//! and parsed a second time from a copy of the bytes.
//!
//! Instance `doc`: real `CompressedDocument` and `ReferenceDocument`, against each other, against a
//! naive scan (oracle) and against the Lean `Csa`/`CsaDoc` model (correspondence, small texts);
//! the suffix array, psi and the sampled inverse suffix array of the *built* document are read
//! back out of its serialised form through the crate's public parsers, and the suffix array is
//! checked to be the sorted permutation both here and by the Lean driver (`doc sa`).
use crate::common::*;
use buffertk::Unpackable;
use scrunch::bit_vector::{cf_rrr, rrr, sparse, BitVector, ReferenceBitVector};
use scrunch::builder::{parse_one_field_bytes, Builder};
use scrunch::isa::InverseSuffixArray;
use scrunch::psi::Psi;
use scrunch::sa::SuffixArray;
use scrunch::{CompressedDocument, Document, RecordOffset, ReferenceDocument, TextOffset};
use std::panic::AssertUnwindSafe;

fn g<T>(f: impl FnOnce() -> T) -> Result<T, String> {
    guarded(AssertUnwindSafe(f))
}

// ================================================================================================
// bit vectors
// ================================================================================================

#[derive(Clone, PartialEq, Debug)]
enum Slot {
    Nil,
    Val(usize),
    Panic,
}

impl Slot {
    fn of(r: Result<Option<usize>, String>) -> Slot {
        match r {
            Ok(Some(x)) => Slot::Val(x),
            Ok(None) => Slot::Nil,
            Err(_) => Slot::Panic,
        }
    }
    fn show(&self) -> String {
        match self {
            Slot::Nil => "-".into(),
            Slot::Val(x) => x.to_string(),
            Slot::Panic => "!".into(),
        }
    }
}

fn show_slots(xs: &[Slot]) -> String {
    if xs.is_empty() {
        "-".into()
    } else {
        xs.iter().map(|s| s.show()).collect::<Vec<_>>().join(",")
    }
}

/// which arguments each operation is asked at
struct Queries {
    pa: Vec<usize>,
    ps: Vec<usize>,
    ps0: Vec<usize>,
}

#[derive(Clone, PartialEq, Debug)]
struct BvObs {
    len: Slot,
    a: Vec<Slot>,
    r: Vec<Slot>,
    r0: Vec<Slot>,
    s: Vec<Slot>,
    s0: Vec<Slot>,
    /// arguments `x < len` at which `access_rank(x) != Some((access(x), rank(x)))`
    ar_bad: Vec<usize>,
}

impl BvObs {
    fn render(&self) -> String {
        format!(
            "len={};a={};r={};r0={};s={};s0={}",
            self.len.show(),
            show_slots(&self.a),
            show_slots(&self.r),
            show_slots(&self.r0),
            show_slots(&self.s),
            show_slots(&self.s0)
        )
    }
}

fn observe_bv<B: BitVector>(bv: &B, q: &Queries, true_len: usize) -> BvObs {
    let len = Slot::of(g(|| Some(bv.len())));
    let a: Vec<Slot> = q.pa.iter().map(|&x| Slot::of(g(|| bv.access(x).map(|b| b as usize)))).collect();
    let r: Vec<Slot> = q.pa.iter().map(|&x| Slot::of(g(|| bv.rank(x)))).collect();
    let r0: Vec<Slot> = q.pa.iter().map(|&x| Slot::of(g(|| bv.rank0(x)))).collect();
    let s: Vec<Slot> = q.ps.iter().map(|&x| Slot::of(g(|| bv.select(x)))).collect();
    let s0: Vec<Slot> = q.ps0.iter().map(|&x| Slot::of(g(|| bv.select0(x)))).collect();
    let mut ar_bad = vec![];
    for (i, &x) in q.pa.iter().enumerate() {
        if x < true_len {
            let ar = g(|| bv.access_rank(x));
            let ok = match (&ar, &a[i], &r[i]) {
                (Ok(Some((b, k))), Slot::Val(b2), Slot::Val(k2)) => (*b as usize) == *b2 && k == k2,
                _ => false,
            };
            if !ok {
                ar_bad.push(x);
            }
        }
    }
    BvObs { len, a, r, r0, s, s0, ar_bad }
}

/// the property, stated on a plain bit array
fn expected_bv(bits: &[bool], q: &Queries) -> BvObs {
    let n = bits.len();
    let mut pre = Vec::with_capacity(n + 1);
    let mut ones = vec![];
    let mut zeros = vec![];
    let mut c = 0usize;
    for (i, b) in bits.iter().enumerate() {
        pre.push(c);
        if *b {
            c += 1;
            ones.push(i);
        } else {
            zeros.push(i);
        }
    }
    pre.push(c);
    let opt = |o: Option<usize>| match o {
        Some(x) => Slot::Val(x),
        None => Slot::Nil,
    };
    // select(0) = 0; select(k) = one past the k-th set bit = the least p with rank(p) = k
    let sel = |pos: &Vec<usize>, k: usize| {
        if k == 0 {
            Some(0)
        } else {
            pos.get(k - 1).map(|p| p + 1)
        }
    };
    BvObs {
        len: Slot::Val(n),
        a: q.pa.iter().map(|&x| opt(bits.get(x).map(|b| *b as usize))).collect(),
        r: q.pa.iter().map(|&x| opt(pre.get(x).copied())).collect(),
        r0: q.pa.iter().map(|&x| opt(pre.get(x).map(|r| x - r))).collect(),
        s: q.ps.iter().map(|&k| opt(sel(&ones, k))).collect(),
        s0: q.ps0.iter().map(|&k| opt(sel(&zeros, k))).collect(),
        ar_bad: vec![],
    }
}

/// construct -> bytes -> parse -> observe; parse a copy of the bytes -> observe again
fn run_trait<B: BitVector>(bits: &[bool], q: &Queries) -> Result<(BvObs, BvObs), String> {
    let mut buf = vec![];
    {
        let mut b = Builder::new(&mut buf);
        g(|| B::construct(bits, &mut b))?.map_err(|e| format!("construct:{:?}", e))?;
    }
    let o1 = {
        let (bv, _) = g(|| B::parse(&buf))?.map_err(|e| format!("parse:{:?}", e))?;
        observe_bv(&bv, q, bits.len())
    };
    let copy = buf.clone();
    drop(buf);
    let (bv, _) = g(|| B::parse(&copy))?.map_err(|e| format!("reparse:{:?}", e))?;
    let o2 = observe_bv(&bv, q, bits.len());
    Ok((o1, o2))
}

fn run_sparse(branch: usize, bits: &[bool], q: &Queries) -> Result<(BvObs, BvObs), String> {
    let idx: Vec<usize> = bits.iter().enumerate().filter(|(_, b)| **b).map(|(i, _)| i).collect();
    let mut buf = vec![];
    {
        let mut b = Builder::new(&mut buf);
        g(|| sparse::BitVector::from_indices(branch, bits.len(), &idx, &mut b))?.ok_or("construct:none".to_string())?;
    }
    let o1 = {
        let bv = g(|| sparse::BitVector::new(&buf))?.ok_or("parse:none".to_string())?;
        observe_bv(&bv, q, bits.len())
    };
    let copy = buf.clone();
    drop(buf);
    let bv = g(|| sparse::BitVector::new(&copy))?.ok_or("reparse:none".to_string())?;
    let o2 = observe_bv(&bv, q, bits.len());
    Ok((o1, o2))
}

const IMPLS: [&str; 7] = ["ref", "rrr", "cfrrr", "sparse", "sparse4", "sparse128", "sparse255"];

fn run_impl(name: &str, bits: &[bool], q: &Queries) -> Result<(BvObs, BvObs), String> {
    match name {
        "ref" => run_trait::<ReferenceBitVector>(bits, q),
        "rrr" => run_trait::<rrr::BitVector>(bits, q),
        "cfrrr" => run_trait::<cf_rrr::BitVector>(bits, q),
        "sparse" => run_trait::<sparse::BitVector>(bits, q),
        "sparse4" => run_sparse(4, bits, q),
        "sparse128" => run_sparse(128, bits, q),
        "sparse255" => run_sparse(255, bits, q),
        _ => unreachable!(),
    }
}

/// block sizes of the implementations: 63-bit words; rrr 8 words per block, select sample 64;
/// cf_rrr 23 words per block (= its select sample); sparse branch 16 (levels 16, 256, 4096) and 128.
const BLOCKS: [usize; 11] = [8, 16, 63, 64, 128, 256, 504, 1449, 4032, 4096, 16384];

const CF_BLOCK: usize = 23 * 63;

fn rle(bits: &[bool]) -> String {
    if bits.is_empty() {
        return "-".into();
    }
    let mut runs: Vec<usize> = vec![];
    let mut cur = false;
    let mut n = 0usize;
    for &b in bits {
        if b == cur {
            n += 1;
        } else {
            runs.push(n);
            cur = b;
            n = 1;
        }
    }
    runs.push(n);
    runs.iter().map(|x| x.to_string()).collect::<Vec<_>>().join(",")
}

fn gen_bits(rng: &mut Rng, kind: u64, n: usize) -> (Vec<bool>, &'static str) {
    match kind {
        0 => (vec![false; n], "zeros"),
        1 => (vec![true; n], "ones"),
        2 => ((0..n).map(|i| i % 2 == 1).collect(), "alt01"),
        3 => ((0..n).map(|i| i % 2 == 0).collect(), "alt10"),
        4 => {
            // block-aligned runs: run length B-1, B or B+1, starting with either value
            let b = *rng.pick(&BLOCKS);
            let run = (b as i64 + rng.range(0, 2) as i64 - 1).max(1) as usize;
            let first = rng.chance(1, 2);
            ((0..n).map(|i| ((i / run) % 2 == 0) == first).collect(), "block-runs")
        }
        5 => {
            // one set bit (or one clear bit) at a boundary-ish position
            let inv = rng.chance(1, 2);
            let mut v = vec![inv; n];
            if n > 0 {
                let p = match rng.below(4) {
                    0 => 0,
                    1 => n - 1,
                    2 => {
                        let b = *rng.pick(&BLOCKS);
                        let k = rng.below((n / b) as u64 + 1) as usize * b;
                        (k + rng.below(3) as usize).saturating_sub(1).min(n - 1)
                    }
                    _ => rng.below(n as u64) as usize,
                };
                v[p] = !inv;
            }
            (v, "single")
        }
        6 => {
            let den = *rng.pick(&[2u64, 3, 10, 100, 1000]);
            let inv = rng.chance(1, 2);
            ((0..n).map(|_| rng.chance(1, den) != inv).collect(), "random-density")
        }
        7 => {
            // ones exactly at the multiples of a block size (or everywhere but there)
            let b = *rng.pick(&BLOCKS);
            let off = rng.below(2) as usize;
            let inv = rng.chance(1, 2);
            ((0..n).map(|i| ((i + off) % b == 0) != inv).collect(), "stripe")
        }
        8 => {
            // random run lengths
            let maxrun = *rng.pick(&[3u64, 70, 600, 3000]);
            let mut v = Vec::with_capacity(n);
            let mut cur = rng.chance(1, 2);
            while v.len() < n {
                let k = rng.range(1, maxrun) as usize;
                for _ in 0..k.min(n - v.len()) {
                    v.push(cur);
                }
                cur = !cur;
            }
            (v, "random-runs")
        }
        _ => {
            // a prefix of one value, then the other
            let cut = if n == 0 { 0 } else { rng.below(n as u64 + 1) as usize };
            let first = rng.chance(1, 2);
            ((0..n).map(|i| (i < cut) == first).collect(), "half")
        }
    }
}

fn sampled_positions(rng: &mut Rng, bits: &[bool], want: usize) -> Vec<usize> {
    let n = bits.len();
    let ones = bits.iter().filter(|b| **b).count();
    let zeros = n - ones;
    let mut must: Vec<usize> = vec![0, 1, n.saturating_sub(1), n, n + 1, n + 2, ones.saturating_sub(1), ones, ones + 1, zeros.saturating_sub(1), zeros, zeros + 1];
    let mut cand: Vec<usize> = vec![];
    for b in BLOCKS {
        let mut k = b;
        while k <= n + 1 {
            cand.extend_from_slice(&[k - 1, k, k + 1]);
            k += b;
            if cand.len() > 4000 {
                break;
            }
        }
    }
    rng.shuffle(&mut cand);
    cand.truncate(want / 2);
    must.extend(cand);
    while must.len() < want {
        must.push(rng.below(n as u64 + 2) as usize);
    }
    must.sort();
    must.dedup();
    must
}

fn bv_case(rec: &mut Recorder, bits: Vec<bool>, kind: &str, q: Queries, mode: String) {
    let req = format!("bv {} {} {} {}", bits.len(), rle(&bits), IMPLS.join(","), mode);
    let exp = expected_bv(&bits, &q);
    let mut segs: Vec<String> = vec![];
    let mut fails: Vec<String> = vec![];
    for name in IMPLS {
        match g(|| run_impl(name, &bits, &q)) {
            Ok(Ok((o1, o2))) => {
                segs.push(format!("{}:{}", name, o1.render()));
                if o1 != o2 {
                    fails.push(format!("{}:reparse-differs", name));
                }
                let mut what = vec![];
                if o1.len != exp.len {
                    what.push("len".to_string());
                }
                for (nm, got, want, args) in [("access", &o1.a, &exp.a, &q.pa), ("rank", &o1.r, &exp.r, &q.pa), ("rank0", &o1.r0, &exp.r0, &q.pa), ("select", &o1.s, &exp.s, &q.ps), ("select0", &o1.s0, &exp.s0, &q.ps0)] {
                    if let Some(i) = (0..args.len()).find(|&i| got[i] != want[i]) {
                        what.push(format!("{}({})={}!={}", nm, args[i], got[i].show(), want[i].show()));
                    }
                }
                if let Some(x) = o1.ar_bad.first() {
                    what.push(format!("access_rank({})", x));
                }
                if !what.is_empty() {
                    fails.push(format!("{}:{}", name, what.join("/")));
                }
            }
            Ok(Err(m)) => {
                segs.push(format!("{}:{}", name, m.replace(' ', "_")));
                fails.push(format!("{}:{}", name, m));
            }
            Err(m) => {
                segs.push(format!("{}:panic", name));
                fails.push(format!("{}:panic:{}", name, m));
            }
        }
    }
    rec.count(&format!("bv.kind.{}", kind));
    rec.count(&format!("bv.len.{}", len_bucket(bits.len())));
    rec.add("bv.bits_total", bits.len() as u64);
    rec.add("bv.query_args_total", (q.pa.len() * 3 + q.ps.len() + q.ps0.len()) as u64 * IMPLS.len() as u64);
    let nt = if !bits.is_empty() { Some(fnv(req.as_bytes())) } else { None };
    let v = if fails.is_empty() {
        Verdict::Ok
    } else {
        // the cf_rrr defect: decidable on the input — a non-empty vector whose length is a multiple of the
        // cf_rrr block (23 words of 63 bits), and nothing but cf_rrr is off
        let class = if fails.iter().any(|f| f.contains("panic")) {
            "bv-panic"
        } else if !bits.is_empty() && bits.len() % CF_BLOCK == 0 && fails.iter().all(|f| f.starts_with("cfrrr:")) {
            "cfrrr-len-multiple-of-block"
        } else {
            "bv-answer"
        };
        Verdict::Fail { class: class.into(), detail: format!("len={} kind={} {}", bits.len(), kind, fails.join(" ")) }
    };
    rec.case(&req, &segs.join(" "), v, nt);
}

fn len_bucket(n: usize) -> &'static str {
    match n {
        0 => "0",
        1 => "1",
        2..=63 => "2-63",
        64..=504 => "64-504",
        505..=1449 => "505-1449",
        1450..=4096 => "1450-4096",
        4097..=20000 => "4097-20000",
        _ => ">20000",
    }
}

fn all_queries(bits: &[bool]) -> Queries {
    let n = bits.len();
    let ones = bits.iter().filter(|b| **b).count();
    Queries { pa: (0..n + 2).collect(), ps: (0..ones + 2).collect(), ps0: (0..n - ones + 2).collect() }
}

fn run_bv(args: &Args, rec: &mut Recorder) {
    // ---- stream 0: lengths that are exact multiples of a block, asked around the end ----------
    for (i, (n, kind)) in [63usize, 504, 1449, 2898, 4347, 4032, 4096].iter().flat_map(|n| [(*n, 0u64), (*n, 1), (*n, 2)]).enumerate() {
        if !rec.wants() {
            rec.skip();
            continue;
        }
        let mut rng = Rng::for_case(args.seed, 0, i as u64);
        let (bits, kind) = gen_bits(&mut rng, kind, n);
        let ones = bits.iter().filter(|b| **b).count();
        let mut ps = vec![0, 1, n - 1, n, n + 1, ones.saturating_sub(1), ones, ones + 1, n - ones, n - ones + 1];
        ps.sort();
        ps.dedup();
        let mode = format!("at {}", ps.iter().map(|x| x.to_string()).collect::<Vec<_>>().join(","));
        let q = Queries { pa: ps.clone(), ps: ps.clone(), ps0: ps };
        bv_case(rec, bits, kind, q, mode);
    }
    // ---- stream 1: every length 0..=70 x four deterministic patterns, every argument ----------
    for i in 0..(71 * 4) {
        if !rec.wants() {
            rec.skip();
            continue;
        }
        let mut rng = Rng::for_case(args.seed, 1, i);
        let (bits, kind) = gen_bits(&mut rng, i % 4, (i / 4) as usize);
        let q = all_queries(&bits);
        bv_case(rec, bits, kind, q, "all".into());
    }
    // ---- stream 2: small random patterns, every argument -------------------------------------
    let n2 = if args.thorough { 1800 } else { 300 };
    for i in 0..n2 {
        if !rec.wants() {
            rec.skip();
            continue;
        }
        let mut rng = Rng::for_case(args.seed, 2, i);
        let n = if rng.chance(1, 2) { rng.below(70) } else { rng.below(260) } as usize;
        let kind = rng.range(4, 9);
        let (bits, kind) = gen_bits(&mut rng, kind, n);
        let q = all_queries(&bits);
        bv_case(rec, bits, kind, q, "all".into());
    }
    // ---- stream 3: lengths around the block sizes, every argument ----------------------------
    let boundary: Vec<usize> = {
        let mut v = vec![];
        for b in [63usize, 64, 126, 128, 256, 504, 1008, 1449] {
            v.extend_from_slice(&[b - 1, b, b + 1]);
        }
        v
    };
    let n3 = if args.thorough { boundary.len() as u64 * 6 + 9 } else { 30 };
    for i in 0..n3 {
        if !rec.wants() {
            rec.skip();
            continue;
        }
        let mut rng = Rng::for_case(args.seed, 3, i);
        // thorough: every boundary length x six kinds, then two blocks of cf_rrr (2897..2899) x three kinds
        let j = (i / 6) as usize;
        let n = if !args.thorough {
            *rng.pick(&boundary)
        } else if j < boundary.len() {
            boundary[j]
        } else {
            2897 + ((i - boundary.len() as u64 * 6) / 3) as usize
        };
        let kind = if !args.thorough {
            *rng.pick(&[0u64, 1, 2, 4, 6, 7, 8])
        } else if j < boundary.len() {
            [0, 1, 2, 4, 6, 8][(i % 6) as usize]
        } else {
            [1, 6, 8][(i % 3) as usize]
        };
        let (bits, kind) = gen_bits(&mut rng, kind, n);
        let q = all_queries(&bits);
        bv_case(rec, bits, kind, q, "all".into());
    }
    // ---- stream 4: medium and large, sampled + boundary arguments ---------------------------
    let n4 = if args.thorough { 500 } else { 110 };
    for i in 0..n4 {
        if !rec.wants() {
            rec.skip();
            continue;
        }
        let mut rng = Rng::for_case(args.seed, 4, i);
        let n = match rng.below(10) {
            0..=3 => rng.range(200, 2000) as usize,
            4..=6 => {
                let b = *rng.pick(&BLOCKS);
                let m = b * rng.range(1, 5) as usize;
                (m as i64 + rng.range(0, 2) as i64 - 1) as usize
            }
            _ => rng.range(2000, 6000) as usize,
        };
        let kind = rng.below(10);
        let (bits, kind) = gen_bits(&mut rng, kind, n);
        let ps = sampled_positions(&mut rng, &bits, 40);
        let mode = format!("at {}", ps.iter().map(|x| x.to_string()).collect::<Vec<_>>().join(","));
        let q = Queries { pa: ps.clone(), ps: ps.clone(), ps0: ps };
        bv_case(rec, bits, kind, q, mode);
    }
    // ---- stream 5 (thorough): tens of thousands of bits ---------------------------------------
    let n5 = if args.thorough { 48 } else { 3 };
    for i in 0..n5 {
        if !rec.wants() {
            rec.skip();
            continue;
        }
        let mut rng = Rng::for_case(args.seed, 5, i);
        let n = if args.thorough {
            match rng.below(3) {
                0 => rng.range(10000, 70000) as usize,
                1 => {
                    let b = *rng.pick(&[504usize, 1449, 4096, 16384, 63 * 64]);
                    let m = b * rng.range(2, (70000 / b) as u64) as usize;
                    (m as i64 + rng.range(0, 2) as i64 - 1) as usize
                }
                _ => rng.range(20000, 40000) as usize,
            }
        } else {
            rng.range(8000, 12000) as usize
        };
        let kind = rng.below(10);
        let (bits, kind) = gen_bits(&mut rng, kind, n);
        let ps = sampled_positions(&mut rng, &bits, 36);
        let mode = format!("at {}", ps.iter().map(|x| x.to_string()).collect::<Vec<_>>().join(","));
        let q = Queries { pa: ps.clone(), ps: ps.clone(), ps0: ps };
        bv_case(rec, bits, kind, q, mode);
    }
}

// ================================================================================================
// documents
// ================================================================================================

type Cdoc<'a> = CompressedDocument<'a>;
type WtPsi<'a> = scrunch::psi::wavelet_tree::WaveletTreePsi<'a, scrunch::wavelet_tree::prefix::WaveletTree<'a, scrunch::encoder::HuffmanEncoder>>;

#[derive(Clone, PartialEq, Debug)]
struct DocObs {
    len: String,
    recs: String,
    cnt: Vec<String>,
    pos: Vec<String>,
    lk: Vec<String>,
    off: Vec<String>,
    ret: Vec<String>,
}

fn nums<T: ToString>(xs: impl IntoIterator<Item = T>) -> String {
    let v: Vec<String> = xs.into_iter().map(|x| x.to_string()).collect();
    if v.is_empty() {
        "-".into()
    } else {
        v.join(",")
    }
}

fn res<T, E>(r: Result<Result<T, E>, String>, show: impl FnOnce(T) -> String) -> String {
    match r {
        Ok(Ok(x)) => show(x),
        Ok(Err(_)) => "err".into(),
        Err(_) => "!".into(),
    }
}

/// everything the `Document` trait lets one see
fn observe_doc<D: Document>(d: &D, pats: &[Vec<u32>], lk: &[usize], recs_probe: &[usize]) -> DocObs {
    DocObs {
        len: res::<usize, ()>(g(|| Ok(d.len())), |x| x.to_string()),
        recs: res::<usize, ()>(g(|| Ok(d.records())), |x| x.to_string()),
        cnt: pats.iter().map(|p| res(g(|| d.count(p)), |c| c.to_string())).collect(),
        pos: pats.iter().map(|p| res(g(|| d.search(p).map(|it| it.map(|o| o.0).collect::<Vec<usize>>())), nums)).collect(),
        lk: lk.iter().map(|&o| res(g(|| d.lookup(TextOffset(o))), |r| r.0.to_string())).collect(),
        off: recs_probe.iter().map(|&r| res(g(|| d.offset_of(RecordOffset(r))), |o| o.0.to_string())).collect(),
        ret: recs_probe.iter().map(|&r| res(g(|| d.retrieve(RecordOffset(r))), nums)).collect(),
    }
}

/// the plain scan
fn naive_doc(text: &[u32], rb: &[usize], pats: &[Vec<u32>], lk: &[usize], recs_probe: &[usize]) -> DocObs {
    let n = text.len();
    let occ = |p: &Vec<u32>| -> Vec<usize> {
        if p.is_empty() {
            (0..n).collect()
        } else if p.len() > n {
            vec![]
        } else {
            (0..=n - p.len()).filter(|&k| text[k..k + p.len()] == p[..]).collect()
        }
    };
    DocObs {
        len: n.to_string(),
        recs: rb.len().to_string(),
        cnt: pats.iter().map(|p| occ(p).len().to_string()).collect(),
        pos: pats.iter().map(|p| nums(occ(p))).collect(),
        lk: lk.iter().map(|&o| if o < n { (rb.iter().filter(|b| **b <= o).count() - 1).to_string() } else { "oob".into() }).collect(),
        off: recs_probe.iter().map(|&r| if r < rb.len() { rb[r].to_string() } else { "err".into() }).collect(),
        ret: recs_probe
            .iter()
            .map(|&r| {
                if r < rb.len() {
                    let lim = if r + 1 < rb.len() { rb[r + 1] } else { n };
                    nums(text[rb[r]..lim].iter())
                } else {
                    "err".into()
                }
            })
            .collect(),
    }
}

/// compare two observations on the slots the property quantifies over (text offsets `< len`,
/// records `< records`); `what` collects the first difference of each kind
fn diff_docs(tag: &str, a: &DocObs, b: &DocObs, n: usize, lk: &[usize], what: &mut Vec<String>) {
    if a.len != b.len {
        what.push(format!("{}:len {}!={}", tag, a.len, b.len));
    }
    if a.recs != b.recs {
        what.push(format!("{}:records {}!={}", tag, a.recs, b.recs));
    }
    if let Some(i) = (0..a.cnt.len()).find(|&i| a.cnt[i] != b.cnt[i]) {
        what.push(format!("{}:count[pattern#{}] {}!={}", tag, i, a.cnt[i], b.cnt[i]));
    }
    if let Some(i) = (0..a.pos.len()).find(|&i| a.pos[i] != b.pos[i]) {
        what.push(format!("{}:search[pattern#{}] {}!={}", tag, i, clip(&a.pos[i]), clip(&b.pos[i])));
    }
    if let Some(i) = (0..lk.len()).find(|&i| lk[i] < n && a.lk[i] != b.lk[i]) {
        what.push(format!("{}:lookup({}) {}!={}", tag, lk[i], a.lk[i], b.lk[i]));
    }
    if let Some(i) = (0..a.off.len()).find(|&i| a.off[i] != b.off[i]) {
        what.push(format!("{}:offset_of(#{}) {}!={}", tag, i, a.off[i], b.off[i]));
    }
    if let Some(i) = (0..a.ret.len()).find(|&i| a.ret[i] != b.ret[i]) {
        what.push(format!("{}:retrieve(#{}) {}!={}", tag, i, clip(&a.ret[i]), clip(&b.ret[i])));
    }
}

fn clip(s: &str) -> String {
    if s.len() > 60 {
        format!("{}…", &s[..60])
    } else {
        s.to_string()
    }
}

fn build<D: Document>(text: &[u32], rb: &[usize]) -> Result<Result<Vec<u8>, scrunch::Error>, String> {
    g(|| {
        let mut buf = vec![];
        let mut b = Builder::new(&mut buf);
        let r = D::construct(text.to_vec(), rb.to_vec(), &mut b);
        drop(b);
        r.map(|_| buf)
    })
}

struct Internals {
    sa: Vec<usize>,
    psi: Vec<usize>,
    /// `isa.lookup(b)` for every record boundary `b`
    isa_at_boundaries: Vec<Result<usize, scrunch::Error>>,
}

/// Read the suffix array, psi and the sampled inverse suffix array of the *built* document out of
/// its serialised form (fields 2..5 of the document message) with the crate's public parsers.
/// `ranks`: which suffix-array ranks to read (all of them unless the text is huge).
fn dump_internals(buf: &[u8], ranks: &[usize], rb: &[usize]) -> Result<Internals, String> {
    let mut fields: [Option<&[u8]>; 6] = [None; 6];
    let mut rest = buf;
    while !rest.is_empty() {
        let (tag, val, r) = parse_one_field_bytes(rest).ok_or("document message does not parse")?;
        let k = tag.field_number.get() as usize;
        if k < 6 {
            fields[k] = Some(val);
        }
        rest = r;
    }
    let f = |k: usize| fields[k].ok_or(format!("field {} missing", k));
    let sigma = <scrunch::sigma::Sigma as Unpackable>::unpack(f(2)?).map_err(|e| format!("sigma:{:?}", e))?.0;
    let sa = <scrunch::sa::SampledSuffixArray as Unpackable>::unpack(f(3)?).map_err(|e| format!("sa:{:?}", e))?.0;
    let isa = <scrunch::isa::SampledInverseSuffixArray as Unpackable>::unpack(f(4)?).map_err(|e| format!("isa:{:?}", e))?.0;
    let psi = <WtPsi as Unpackable>::unpack(f(5)?).map_err(|e| format!("psi:{:?}", e))?.0;
    let mut out = Internals { sa: vec![], psi: vec![], isa_at_boundaries: vec![] };
    for &i in ranks {
        out.sa.push(sa.lookup(&sigma, &psi, i).map_err(|e| format!("sa.lookup({}):{:?}", i, e))?);
        out.psi.push(psi.lookup(&sigma, i).map_err(|e| format!("psi.lookup({}):{:?}", i, e))?);
    }
    for &b in rb {
        out.isa_at_boundaries.push(isa.lookup(b));
    }
    Ok(out)
}

/// is `sa` (over all ranks `0..=n`) the sorted permutation of the suffixes of `text` + end marker,
/// is psi its successor function, are the ISA samples its inverse?
fn check_internals(text: &[u32], rb: &[usize], it: &Internals, what: &mut Vec<String>) {
    let n = text.len();
    let mut inv = vec![usize::MAX; n + 1];
    let mut perm = it.sa.len() == n + 1;
    for (i, &p) in it.sa.iter().enumerate() {
        if p > n || inv[p] != usize::MAX {
            perm = false;
            break;
        }
        inv[p] = i;
    }
    if !perm {
        what.push("sa-not-a-permutation".into());
        return;
    }
    // a proper prefix sorts first, exactly as with a unique smallest end marker
    if let Some(i) = (0..n).find(|&i| text[it.sa[i]..] >= text[it.sa[i + 1]..]) {
        what.push(format!("sa-not-sorted at rank {}", i));
    }
    if let Some(i) = (0..=n).find(|&i| it.psi[i] != inv[(it.sa[i] + 1) % (n + 1)]) {
        what.push(format!("psi-not-successor at rank {}", i));
    }
    for (k, b) in rb.iter().enumerate() {
        if it.isa_at_boundaries[k] != Ok(inv[*b]) {
            what.push(format!("isa-sample-wrong at text position {}", b));
            break;
        }
    }
}

// ---- texts -----------------------------------------------------------------------------------

fn de_bruijn(k: usize, m: usize) -> Vec<usize> {
    fn db(t: usize, p: usize, k: usize, m: usize, a: &mut Vec<usize>, seq: &mut Vec<usize>) {
        if t > m {
            if m % p == 0 {
                seq.extend_from_slice(&a[1..=p]);
            }
        } else {
            a[t] = a[t - p];
            db(t + 1, p, k, m, a, seq);
            for j in a[t - p] + 1..k {
                a[t] = j;
                db(t + 1, t, k, m, a, seq);
            }
        }
    }
    let mut a = vec![0usize; k * m + 1];
    let mut seq = vec![];
    db(1, 1, k, m, &mut a, &mut seq);
    seq
}

const LARGE: [u32; 16] = [0, 1, 255, 256, 257, 65535, 65536, 65537, (1 << 20) - 1, 1 << 20, (1 << 20) + 1, 0x10FFFF, 0x110000, 0x7fff_ffff, u32::MAX - 1, u32::MAX];

/// `k` distinct code points; the abstract symbol `j` is mapped to `alphabet[j]`
fn gen_alphabet(rng: &mut Rng, k: usize) -> (Vec<u32>, &'static str) {
    let style = rng.below(5);
    let (mut v, name): (Vec<u32>, &'static str) = match style {
        0 | 1 => {
            let base = *rng.pick(&[0u32, 1, 97, 250, 65530, (1 << 20) - 3, 0x10FFF0]);
            ((0..k as u32).map(|j| base + j).collect(), "dense")
        }
        2 if k <= LARGE.len() => {
            let mut p = LARGE.to_vec();
            rng.shuffle(&mut p);
            p.truncate(k);
            (p, "large-code-points")
        }
        _ => {
            let mut s = std::collections::BTreeSet::new();
            while s.len() < k {
                s.insert(rng.next() as u32 >> rng.below(24));
            }
            (s.into_iter().collect(), "random-code-points")
        }
    };
    if rng.chance(1, 2) {
        v.sort();
    } else {
        rng.shuffle(&mut v);
    }
    (v, name)
}

/// abstract text over `0..k`
fn gen_shape(rng: &mut Rng, kind: u64, n: usize, k: usize) -> (Vec<usize>, &'static str) {
    let k = k.max(1);
    match kind {
        0 => (vec![rng.below(k as u64) as usize; n], "all-equal"),
        1 => {
            let p = rng.range(2, 6) as usize;
            let w: Vec<usize> = (0..p).map(|_| rng.below(k as u64) as usize).collect();
            ((0..n).map(|i| w[i % p]).collect(), "periodic")
        }
        2 => {
            let kk = k.clamp(2, 4);
            let m = match kk {
                2 => rng.range(2, 6),
                3 => rng.range(2, 4),
                _ => rng.range(2, 3),
            } as usize;
            let mut s = de_bruijn(kk, m);
            let head: Vec<usize> = s[..m - 1].to_vec();
            s.extend(head);
            while s.len() < n {
                let c = s.clone();
                s.extend(c);
            }
            s.truncate(n.max(1));
            (s, "de-bruijn")
        }
        3 => ((0..n).map(|_| rng.below(k as u64) as usize).collect(), "random"),
        4 => {
            // Fibonacci word / Thue-Morse
            if rng.chance(1, 2) {
                let (mut a, mut b) = (vec![0usize], vec![0usize, 1 % k]);
                while b.len() < n {
                    let mut c = b.clone();
                    c.extend(&a);
                    a = b;
                    b = c;
                }
                b.truncate(n.max(1));
                (b, "fibonacci")
            } else {
                ((0..n).map(|i| (i.count_ones() as usize % 2) % k).collect(), "thue-morse")
            }
        }
        5 => {
            // monotone runs: all suffixes of one type for the induced sort
            if rng.chance(1, 2) {
                ((0..n).map(|i| i * k / n.max(1)).collect(), "ascending")
            } else {
                ((0..n).map(|i| (n - 1 - i) * k / n.max(1)).collect(), "descending")
            }
        }
        6 => {
            // a^(n-1) b  /  b a^(n-1)  /  a^i b a^j
            let mut v = vec![0usize; n];
            if n > 0 {
                let p = match rng.below(3) {
                    0 => 0,
                    1 => n - 1,
                    _ => rng.below(n as u64) as usize,
                };
                v[p] = if rng.chance(1, 2) { k - 1 } else { 1 % k };
                if rng.chance(1, 2) {
                    for x in v.iter_mut() {
                        *x = k - 1 - *x;
                    }
                }
            }
            (v, "one-off")
        }
        _ => {
            // random with long repeats (copies of earlier substrings)
            let mut v: Vec<usize> = vec![];
            while v.len() < n {
                if v.len() > 2 && rng.chance(2, 3) {
                    let s = rng.below(v.len() as u64) as usize;
                    let l = rng.range(1, 40) as usize;
                    for j in 0..l {
                        if s + j < v.len() && v.len() < n {
                            let c = v[s + j];
                            v.push(c);
                        }
                    }
                } else {
                    v.push(rng.below(k as u64) as usize);
                }
            }
            (v, "repeats")
        }
    }
}

fn gen_boundaries(rng: &mut Rng, n: usize) -> (Vec<usize>, &'static str) {
    match rng.below(6) {
        0 => (vec![0], "one-record"),
        1 => ((0..n).collect(), "one-symbol-per-record"),
        2 => {
            // dense random
            let mut v = vec![0];
            v.extend((1..n).filter(|_| rng.chance(1, 3)));
            (v, "random-dense")
        }
        3 => {
            let mut v = vec![0];
            let den = (n as u64 / 4).max(2);
            v.extend((1..n).filter(|_| rng.chance(1, den)));
            (v, "random-sparse")
        }
        4 => {
            // around the multiples of the sampling / branching strides
            let mut v = vec![0];
            let b = *rng.pick(&[16usize, 64, 128]);
            let mut k = b;
            while k < n + 2 {
                for d in [k - 1, k, k + 1] {
                    if d > 0 && d < n && rng.chance(2, 3) {
                        v.push(d);
                    }
                }
                k += b;
            }
            v.sort();
            v.dedup();
            (v, "stride-aligned")
        }
        _ => {
            // last record of one symbol / first record of one symbol
            let mut v = vec![0];
            if n > 1 {
                if rng.chance(1, 2) {
                    v.push(1);
                }
                if n > 2 && rng.chance(1, 2) {
                    v.push(n - 1);
                }
            }
            v.dedup();
            (v, "edge-records")
        }
    }
}

fn sampled_patterns(rng: &mut Rng, text: &[u32], rb: &[usize], alphabet: &[u32], absent: u32, want: usize, maxlen: usize) -> Vec<Vec<u32>> {
    let n = text.len();
    let mut pats: Vec<Vec<u32>> = vec![vec![], text.to_vec(), vec![absent]];
    let mut longer = text.to_vec();
    longer.push(*rng.pick(alphabet));
    pats.push(longer);
    pats.push(vec![*rng.pick(alphabet)]);
    while pats.len() < want {
        let l = rng.range(1, maxlen.min(n).max(1) as u64) as usize;
        let mut p: Vec<u32> = match rng.below(4) {
            0 | 1 => {
                let s = rng.below((n - l) as u64 + 1) as usize;
                text[s..s + l].to_vec()
            }
            2 => {
                // crossing a record boundary
                let b = *rng.pick(rb);
                let s = b.saturating_sub(rng.below(l as u64) as usize).min(n - l);
                text[s..s + l].to_vec()
            }
            _ => (0..l).map(|_| *rng.pick(alphabet)).collect(),
        };
        if rng.chance(1, 4) {
            let j = rng.below(p.len() as u64) as usize;
            p[j] = if rng.chance(1, 3) { absent } else { *rng.pick(alphabet) };
        }
        pats.push(p);
    }
    pats
}

fn exhaustive_patterns(symbols: &[u32], maxlen: usize) -> Vec<Vec<u32>> {
    let mut out: Vec<Vec<u32>> = vec![vec![]];
    let mut level: Vec<Vec<u32>> = vec![vec![]];
    for _ in 0..maxlen {
        let mut next = vec![];
        for p in &level {
            for &s in symbols {
                let mut q = p.clone();
                q.push(s);
                next.push(q);
            }
        }
        out.extend(next.iter().cloned());
        level = next;
    }
    out
}

fn show_pats(pats: &[Vec<u32>]) -> String {
    if pats.is_empty() {
        return "-".into();
    }
    pats.iter().map(|p| if p.is_empty() { "e".to_string() } else { nums(p.iter()) }).collect::<Vec<_>>().join("/")
}

struct DocCase {
    text: Vec<u32>,
    rb: Vec<usize>,
    pats: Vec<Vec<u32>>,
    shape: &'static str,
    alpha: &'static str,
    bkind: &'static str,
    k: usize,
}

/// what the run of one admissible document yields
struct DocRun {
    comp: Option<DocObs>,
    internals: Option<Internals>,
    fails: Vec<String>,
    panicked: bool,
}

fn run_doc(c: &DocCase, lk: &[usize], recs_probe: &[usize], ranks: &[usize], full_internals: bool) -> DocRun {
    let mut fails = vec![];
    let mut panicked = false;
    let n = c.text.len();
    let naive = naive_doc(&c.text, &c.rb, &c.pats, lk, recs_probe);
    // reference
    let mut refobs = None;
    match build::<ReferenceDocument>(&c.text, &c.rb) {
        Ok(Ok(buf)) => {
            let o1 = g(|| ReferenceDocument::unpack(&buf).map(|d| observe_doc(&d.0, &c.pats, lk, recs_probe)));
            let copy = buf.clone();
            let o2 = g(|| ReferenceDocument::unpack(&copy).map(|d| observe_doc(&d.0, &c.pats, lk, recs_probe)));
            match (o1, o2) {
                (Ok(Ok(a)), Ok(Ok(b))) => {
                    if a != b {
                        fails.push("reference:reparse-differs".into());
                    }
                    refobs = Some(a);
                }
                (a, b) => {
                    panicked |= a.is_err() || b.is_err();
                    fails.push("reference:does-not-parse".into());
                }
            }
        }
        Ok(Err(e)) => fails.push(format!("reference:construct:{:?}", e)),
        Err(m) => {
            panicked = true;
            fails.push(format!("reference:construct-panic:{}", m));
        }
    }
    // compressed
    let mut comp = None;
    let mut internals = None;
    match build::<Cdoc>(&c.text, &c.rb) {
        Ok(Ok(buf)) => {
            let o1 = g(|| Cdoc::unpack(&buf).map(|d| observe_doc(&d.0, &c.pats, lk, recs_probe)));
            let copy = buf.clone();
            let o2 = g(|| Cdoc::unpack(&copy).map(|d| observe_doc(&d.0, &c.pats, lk, recs_probe)));
            match (o1, o2) {
                (Ok(Ok(a)), Ok(Ok(b))) => {
                    if a != b {
                        fails.push("compressed:reparse-differs".into());
                    }
                    comp = Some(a);
                }
                (a, b) => {
                    panicked |= a.is_err() || b.is_err();
                    fails.push("compressed:does-not-parse".into());
                }
            }
            match g(|| dump_internals(&buf, ranks, &c.rb)) {
                Ok(Ok(it)) => {
                    if full_internals {
                        check_internals(&c.text, &c.rb, &it, &mut fails);
                    } else {
                        // sampled ranks come in adjacent pairs
                        for w in it.sa.chunks(2) {
                            if w.len() == 2 && (w[0] > n || w[1] > n || c.text[w[0]..] >= c.text[w[1]..]) {
                                fails.push("sa-not-sorted (sampled ranks)".into());
                                break;
                            }
                        }
                    }
                    internals = Some(it);
                }
                Ok(Err(m)) => fails.push(format!("internals:{}", m)),
                Err(m) => {
                    panicked = true;
                    fails.push(format!("internals-panic:{}", m));
                }
            }
        }
        Ok(Err(e)) => fails.push(format!("compressed:construct:{:?}", e)),
        Err(m) => {
            panicked = true;
            fails.push(format!("compressed:construct-panic:{}", m));
        }
    }
    if let Some(cobs) = &comp {
        diff_docs("compressed-vs-scan", cobs, &naive, n, lk, &mut fails);
        if let Some(r) = &refobs {
            diff_docs("compressed-vs-reference", cobs, r, n, lk, &mut fails);
        }
        let any_panic = |o: &DocObs| o.len == "!" || o.recs == "!" || [&o.cnt, &o.pos, &o.lk, &o.off, &o.ret].iter().any(|v| v.iter().any(|s| s == "!"));
        if any_panic(cobs) {
            panicked = true;
            fails.push("compressed:panic-in-query".into());
        }
    }
    if let Some(r) = &refobs {
        diff_docs("reference-vs-scan", r, &naive, n, lk, &mut fails);
    }
    DocRun { comp, internals, fails, panicked }
}

fn doc_verdict(c: &DocCase, run: &DocRun) -> Verdict {
    if run.fails.is_empty() {
        Verdict::Ok
    } else {
        let class = if run.panicked { "doc-panic" } else { "doc-answer" };
        Verdict::Fail {
            class: class.into(),
            detail: format!("n={} k={} shape={} boundaries={} :: {}", c.text.len(), c.k, c.shape, c.bkind, run.fails.join(" ; ")),
        }
    }
}

fn doc_stats(rec: &mut Recorder, stream: &str, c: &DocCase) {
    rec.count(&format!("doc.{}", stream));
    rec.count(&format!("doc.shape.{}", c.shape));
    rec.count(&format!("doc.alphabet.{}", c.alpha));
    rec.count(&format!("doc.boundaries.{}", c.bkind));
    rec.count(&format!(
        "doc.K.{}",
        match c.k {
            1 => "1",
            2 => "2",
            3..=4 => "3-4",
            5..=16 => "5-16",
            17..=255 => "17-255",
            256..=65535 => "256-65535 (u16 symbols)",
            _ => ">=65536 (u32 symbols)",
        }
    ));
    rec.count(&format!(
        "doc.n.{}",
        match c.text.len() {
            1 => "1",
            2..=14 => "2-14",
            15..=64 => "15-64",
            65..=200 => "65-200",
            201..=3000 => "201-3000",
            3001..=30000 => "3001-30000",
            _ => ">30000",
        }
    ));
    rec.add("doc.patterns_total", c.pats.len() as u64);
    rec.add("doc.records_total", c.rb.len() as u64);
    rec.add("doc.symbols_total", c.text.len() as u64);
}

fn make_text(rng: &mut Rng, n: usize, kmax: usize, shape_kind: u64) -> (Vec<u32>, Vec<u32>, u32, &'static str, &'static str) {
    let k = kmax.max(1);
    let (alphabet, alpha) = gen_alphabet(rng, k);
    let (shape, shape_name) = gen_shape(rng, shape_kind, n, k);
    let text: Vec<u32> = shape.iter().map(|&j| alphabet[j.min(k - 1)]).collect();
    // a code point that is not in the alphabet
    let mut absent = *rng.pick(&[0u32, 1, 98, 65536, u32::MAX, 7]);
    while alphabet.contains(&absent) {
        absent = absent.wrapping_add(1);
    }
    (text, alphabet, absent, shape_name, alpha)
}

fn distinct(text: &[u32]) -> Vec<u32> {
    let mut v = text.to_vec();
    v.sort();
    v.dedup();
    v
}

/// full three-way cases: the Lean model answers everything
fn full_case(rec: &mut Recorder, c: DocCase, stream: &str) {
    let n = c.text.len();
    let recs = c.rb.len();
    let lk: Vec<usize> = (0..n + 2).collect();
    let probe: Vec<usize> = (0..recs + 1).collect();
    let ranks: Vec<usize> = (0..n + 1).collect();
    let run = run_doc(&c, &lk, &probe, &ranks, true);
    let req = format!("doc full {} {} {}", nums(c.text.iter()), nums(c.rb.iter()), show_pats(&c.pats));
    let line = match (&run.comp, &run.internals) {
        (Some(o), Some(it)) => format!(
            "len={} recs={} sa={} psi={} cnt={} pos={} lk={} off={} ret={}",
            o.len,
            o.recs,
            nums(it.sa.iter()),
            nums(it.psi[1..].iter()),
            if o.cnt.is_empty() { "-".into() } else { o.cnt.join(",") },
            if o.pos.is_empty() { "-".into() } else { o.pos.join("|") },
            o.lk.join(","),
            o.off.join(","),
            o.ret.join("|")
        ),
        _ => "construct-failed".to_string(),
    };
    doc_stats(rec, stream, &c);
    let nt = if n >= 2 && c.pats.iter().any(|p| !p.is_empty()) { Some(fnv(req.as_bytes())) } else { None };
    rec.case(&req, &line, doc_verdict(&c, &run), nt);
}

const LEAN_SA_MAX: usize = 2500;

/// big cases: the oracle checks the answers; the Lean driver checks the suffix array
fn big_case(rec: &mut Recorder, rng: &mut Rng, mut c: DocCase, stream: &str) {
    let n = c.text.len();
    // `search` costs one sampled-suffix-array walk per occurrence: bound the total number of
    // occurrences asked for (highly repetitive texts would otherwise dominate the run)
    {
        let mut budget: usize = 6_000 + 2 * n;
        let text = &c.text;
        c.pats.retain(|p| {
            let occ = if p.is_empty() { n } else if p.len() > n { 0 } else { (0..=n - p.len()).filter(|&k| text[k..k + p.len()] == p[..]).count() };
            if occ <= budget {
                budget -= occ;
                true
            } else {
                false
            }
        });
    }
    let recs = c.rb.len();
    let lk: Vec<usize> = if n <= 30000 { (0..n + 2).collect() } else { (0..3000).map(|_| rng.below(n as u64 + 2) as usize).collect() };
    let probe: Vec<usize> = if recs <= 4000 {
        (0..recs + 1).collect()
    } else {
        let mut p: Vec<usize> = (0..2000).map(|_| rng.below(recs as u64 + 1) as usize).collect();
        p.extend_from_slice(&[0, recs - 1, recs]);
        p
    };
    let full = n <= 30000;
    let ranks: Vec<usize> = if full {
        (0..n + 1).collect()
    } else {
        (0..1500).flat_map(|_| { let i = rng.below(n as u64) as usize; [i, i + 1] }).collect()
    };
    let run = run_doc(&c, &lk, &probe, &ranks, full);
    let (req, line) = match (&run.internals, full && n <= LEAN_SA_MAX) {
        (Some(it), true) => (format!("doc sa {} {}", nums(c.text.iter()), nums(it.sa.iter())), format!("sorted-permutation n={}", n)),
        _ => (format!("doc oracle-only n={} k={} shape={} fp={:016x}", n, c.k, c.shape, fnv(nums(c.text.iter()).as_bytes())), "oracle-only".to_string()),
    };
    doc_stats(rec, stream, &c);
    rec.case(&req, &line, doc_verdict(&c, &run), Some(fnv(req.as_bytes())));
}

fn run_docs(args: &Args, rec: &mut Recorder) {
    // ---- stream 10: tiny texts, exhaustive patterns ------------------------------------------
    let n10 = if args.thorough { 2500 } else { 320 };
    for i in 0..n10 {
        if !rec.wants() {
            rec.skip();
            continue;
        }
        let mut rng = Rng::for_case(args.seed, 10, i);
        let n = match i {
            0..=11 => 1 + (i as usize) / 4,
            _ => rng.range(1, 14) as usize,
        };
        let k = if i < 12 { 1 + (i as usize % 4).min(2) } else { *rng.pick(&[1usize, 2, 2, 2, 3, 3]) };
        let shape_kind = if i < 12 { 3 } else { rng.below(8) };
        let (text, _alphabet, absent, shape, alpha) = make_text(&mut rng, n, k, shape_kind);
        let (rb, bkind) = gen_boundaries(&mut rng, n);
        let mut syms = distinct(&text);
        let kk = syms.len();
        syms.push(absent);
        let mut pats = exhaustive_patterns(&syms, if kk <= 2 { 4 } else { 3 });
        pats.push(text.clone());
        let mut longer = text.clone();
        longer.push(text[0]);
        pats.push(longer);
        full_case(rec, DocCase { text, rb, pats, shape, alpha, bkind, k: kk }, "tiny-exhaustive");
    }
    // ---- stream 11: small texts, sampled patterns --------------------------------------------
    let n11 = if args.thorough { 1500 } else { 200 };
    for i in 0..n11 {
        if !rec.wants() {
            rec.skip();
            continue;
        }
        let mut rng = Rng::for_case(args.seed, 11, i);
        let n = if rng.chance(1, 6) { rng.range(65, 140) } else { rng.range(5, 64) } as usize;
        let k = *rng.pick(&[1usize, 2, 2, 3, 4, 5, 8, 16, 40]);
        let shape_kind = rng.below(8);
        let (text, alphabet, absent, shape, alpha) = make_text(&mut rng, n, k.min(n), shape_kind);
        let (rb, bkind) = gen_boundaries(&mut rng, n);
        let want = if n > 64 { 10 } else { 20 };
        let pats = sampled_patterns(&mut rng, &text, &rb, &alphabet, absent, want, 9);
        let kk = distinct(&text).len();
        full_case(rec, DocCase { text, rb, pats, shape, alpha, bkind, k: kk }, "small-sampled");
    }
    // ---- stream 12: inadmissible divisions into records / the empty text ---------------------
    let n12 = if args.thorough { 400 } else { 80 };
    for i in 0..n12 {
        if !rec.wants() {
            rec.skip();
            continue;
        }
        let mut rng = Rng::for_case(args.seed, 12, i);
        let n = if i < 4 { 0 } else { rng.range(0, 12) as usize };
        let (text, _, _, _, _) = if n == 0 { (vec![], vec![], 0, "", "") } else { make_text(&mut rng, n, 3, 3) };
        let (mut rb, _) = if n == 0 { (vec![0], "") } else { gen_boundaries(&mut rng, n) };
        let kind = if i < 4 { [0u64, 1, 7, 7][i as usize] } else { rng.below(8) };
        let what = match kind {
            0 => {
                rb.clear();
                "no-boundaries"
            }
            1 => "as-generated",
            2 => {
                rb[0] = 1;
                rb.dedup();
                "first-not-zero"
            }
            3 => {
                let j = rng.below(rb.len() as u64) as usize;
                let d = rb[j];
                rb.insert(j, d);
                "empty-record"
            }
            4 => {
                rb.push(n);
                "last-equals-len"
            }
            5 => {
                rb.push(n + 1 + rng.below(3) as usize);
                "last-beyond-len"
            }
            6 => {
                if rb.len() >= 2 {
                    let l = rb.len();
                    rb.swap(l - 1, l - 2);
                } else {
                    rb.push(0);
                }
                "not-increasing"
            }
            _ => "as-generated",
        };
        let req = format!("doc reject {} {}", nums(text.iter()), nums(rb.iter()));
        let r1 = build::<ReferenceDocument>(&text, &rb);
        let r2 = build::<Cdoc>(&text, &rb);
        let show = |r: &Result<Result<Vec<u8>, scrunch::Error>, String>| match r {
            Ok(Ok(_)) => "accepted",
            Ok(Err(_)) => "err",
            Err(_) => "panic",
        };
        rec.count(&format!("doc.reject.{}", what));
        if n == 0 {
            rec.count("doc.reject.empty-text");
        }
        let v = if show(&r1) == show(&r2) && show(&r2) != "panic" {
            Verdict::Ok
        } else {
            Verdict::Fail { class: "doc-admission".into(), detail: format!("reference={} compressed={}", show(&r1), show(&r2)) }
        };
        rec.case(&req, show(&r2), v, Some(fnv(req.as_bytes())));
    }
    // ---- stream 13: big texts ------------------------------------------------------------------
    let n13 = if args.thorough { 100 } else { 36 };
    for i in 0..n13 {
        if !rec.wants() {
            rec.skip();
            continue;
        }
        let mut rng = Rng::for_case(args.seed, 13, i);
        let n = match rng.below(6) {
            0 | 1 => rng.range(100, 700),
            2 | 3 => rng.range(700, 2400),
            _ => {
                if args.thorough {
                    rng.range(2400, 14000)
                } else {
                    rng.range(2400, 5000)
                }
            }
        } as usize;
        // alphabets of 1 .. thousands; K > 256 takes the u16 suffix sort
        let k = match rng.below(8) {
            0 => 1,
            1 => 2,
            2 => 4,
            3 => rng.range(5, 40) as usize,
            4 => rng.range(200, 300) as usize,
            5 => rng.range(255, 258) as usize,
            6 => rng.range(300, 3000) as usize,
            _ => rng.range(2, 20) as usize,
        }
        .min(n);
        let shape_kind = if k > 40 { *rng.pick(&[3u64, 3, 5, 7]) } else { rng.below(8) };
        let (text, alphabet, absent, shape, alpha) = make_text(&mut rng, n, k, shape_kind);
        let (rb, bkind) = gen_boundaries(&mut rng, n);
        let pats = sampled_patterns(&mut rng, &text, &rb, &alphabet, absent, 30, 24);
        let kk = distinct(&text).len();
        big_case(rec, &mut rng, DocCase { text, rb, pats, shape, alpha, bkind, k: kk }, "big");
    }
    // ---- stream 14 (thorough): more than 65536 distinct symbols: the u32 suffix sort -----------
    let n14 = if args.thorough { 2 } else { 0 };
    for i in 0..n14 {
        if !rec.wants() {
            rec.skip();
            continue;
        }
        let mut rng = Rng::for_case(args.seed, 14, i);
        let k = 65536 + rng.range(1, 3000) as usize;
        let n = k + rng.range(0, 9000) as usize;
        let (alphabet, alpha) = gen_alphabet(&mut rng, k);
        // every symbol at least once, the rest random, shuffled
        let mut shape: Vec<usize> = (0..k).collect();
        while shape.len() < n {
            shape.push(rng.below(k as u64) as usize);
        }
        rng.shuffle(&mut shape);
        let text: Vec<u32> = shape.iter().map(|&j| alphabet[j]).collect();
        let mut absent = 5u32;
        while alphabet.contains(&absent) {
            absent += 1;
        }
        let (rb, bkind) = gen_boundaries(&mut rng, n);
        let pats = sampled_patterns(&mut rng, &text, &rb, &alphabet, absent, 24, 6);
        big_case(rec, &mut rng, DocCase { text, rb, pats, shape: "random", alpha, bkind, k }, "huge-alphabet");
    }
}

pub fn run(args: &Args) {
    let mut rec = Recorder::new(&args.out, args.only_case);
    let t0 = std::time::Instant::now();
    run_bv(args, &mut rec);
    let t1 = std::time::Instant::now();
    run_docs(args, &mut rec);
    eprintln!("C19 harness: bv {:.1}s, doc {:.1}s", (t1 - t0).as_secs_f64(), t1.elapsed().as_secs_f64());
    rec.finish(
        "bv: seeded bit patterns (all-zeros, all-ones, alternating, runs of length B-1/B/B+1 for the block sizes B of the implementations, single bits at block boundaries, stripes, random densities 1/2..1/1000, random runs) of length 0..70 exhaustively, around every block size, and up to 6000 (quick) / 70000 (thorough) bits, asked at every argument (small) or at 36-40 boundary+random arguments (large), through seven implementations each parsed twice; doc: texts (single symbol, all-equal, periodic, de Bruijn, Fibonacci/Thue-Morse, monotone, one-off, repeats, random) over alphabets of 1..3000 (thorough: >65536) code points incl. 0, 2^20+-1, 0x10FFFF, 0x110000, 2^32-1, with records at every admissible kind of division; patterns exhaustive up to length 3-4 over alphabet+absent symbol for n<=14, sampled (substrings, boundary-crossing, perturbed, absent, whole text, longer than text, empty) otherwise; plus inadmissible divisions and the empty text; non-trivial = a non-empty bit vector; a document of >= 2 symbols with >= 1 non-empty pattern; every big/rejected case; distinct by request text",
        &[],
    );
}
