//! C19 — the compressed text index answers every query as the uncompressed text would; bit vectors
//! answer access/rank/select as a plain bit array.
//!
//! Instance `bv`: every `BitVector` implementation of scrunch (reference, rrr, cf_rrr, sparse with
//! the branch factors the crate uses plus the two extreme ones) against the Lean model on
//! `List Bool` (correspondence) and against a `Vec<bool>` (oracle), constructed -> bytes -> parsed,
//! and parsed a second time from a copy of the bytes.
//!
//! Instance `doc`: real `CompressedDocument` and `ReferenceDocument`, against each other, against a
//! naive scan (oracle) and against the Lean `Csa`/`CsaDoc` model (correspondence, small texts);
//! the suffix array, psi and the sampled inverse suffix array of the *built* document are read
//! back out of its serialised form through the crate's public parsers, and the suffix array is
//! checked to be the sorted permutation both here and by the Lean driver (`doc sa`).
use crate::common::*;
use buffertk::Unpackable;
use scrunch::bit_vector::{cf_rrr, rrr, sparse, BitVector, ReferenceBitVector};
use scrunch::builder::{parse_one_field_bytes, Builder};
use scrunch::isa::InverseSuffixArray;
use scrunch::psi::Psi;
use scrunch::sa::SuffixArray;
use scrunch::{CompressedDocument, Document, RecordOffset, ReferenceDocument, TextOffset};
use std::panic::AssertUnwindSafe;

fn g<T>(f: impl FnOnce() -> T) -> Result<T, String> {
    guarded(AssertUnwindSafe(f))
}

// ================================================================================================
// bit vectors
// ================================================================================================

#[derive(Clone, PartialEq, Debug)]
enum Slot {
    Nil,
    Val(usize),
    Panic,
}

impl Slot {
    fn of(r: Result<Option<usize>, String>) -> Slot {
        match r {
            Ok(Some(x)) => Slot::Val(x),
            Ok(None) => Slot::Nil,
            Err(_) => Slot::Panic,
        }
    }
    fn show(&self) -> String {
        match self {
            Slot::Nil => "-".into(),
            Slot::Val(x) => x.to_string(),
            Slot::Panic => "!".into(),
        }
    }
}

fn show_slots(xs: &[Slot]) -> String {
    if xs.is_empty() {
        "-".into()
    } else {
        xs.iter().map(|s| s.show()).collect::<Vec<_>>().join(",")
    }
}

/// which arguments each operation is asked at
struct Queries {
    pa: Vec<usize>,
    ps: Vec<usize>,
    ps0: Vec<usize>,
}

#[derive(Clone, PartialEq, Debug)]
struct BvObs {
    len: Slot,
    a: Vec<Slot>,
    r: Vec<Slot>,
    r0: Vec<Slot>,
    s: Vec<Slot>,
    s0: Vec<Slot>,
    /// arguments `x < len` at which `access_rank(x) != Some((access(x), rank(x)))`
    ar_bad: Vec<usize>,
}

impl BvObs {
    fn render(&self) -> String {
        format!(
            "len={};a={};r={};r0={};s={};s0={}",
            self.len.show(),
            show_slots(&self.a),
            show_slots(&self.r),
            show_slots(&self.r0),
            show_slots(&self.s),
            show_slots(&self.s0)
        )
    }
}

fn observe_bv<B: BitVector>(bv: &B, q: &Queries, true_len: usize) -> BvObs {
    let len = Slot::of(g(|| Some(bv.len())));
    let a: Vec<Slot> = q.pa.iter().map(|&x| Slot::of(g(|| bv.access(x).map(|b| b as usize)))).collect();
    let r: Vec<Slot> = q.pa.iter().map(|&x| Slot::of(g(|| bv.rank(x)))).collect();
    let r0: Vec<Slot> = q.pa.iter().map(|&x| Slot::of(g(|| bv.rank0(x)))).collect();
    let s: Vec<Slot> = q.ps.iter().map(|&x| Slot::of(g(|| bv.select(x)))).collect();
    let s0: Vec<Slot> = q.ps0.iter().map(|&x| Slot::of(g(|| bv.select0(x)))).collect();
    let mut ar_bad = vec![];
    for (i, &x) in q.pa.iter().enumerate() {
        if x < true_len {
            let ar = g(|| bv.access_rank(x));
            let ok = match (&ar, &a[i], &r[i]) {
                (Ok(Some((b, k))), Slot::Val(b2), Slot::Val(k2)) => (*b as usize) == *b2 && k == k2,
                _ => false,
            };
            if !ok {
                ar_bad.push(x);
            }
        }
    }
    BvObs { len, a, r, r0, s, s0, ar_bad }
}

/// the property, stated on a plain bit array
fn expected_bv(bits: &[bool], q: &Queries) -> BvObs {
    let n = bits.len();
    let mut pre = Vec::with_capacity(n + 1);
    let mut ones = vec![];
    let mut zeros = vec![];
    let mut c = 0usize;
    for (i, b) in bits.iter().enumerate() {
        pre.push(c);
        if *b {
            c += 1;
            ones.push(i);
        } else {
            zeros.push(i);
        }
    }
    pre.push(c);
    let opt = |o: Option<usize>| match o {
        Some(x) => Slot::Val(x),
        None => Slot::Nil,
    };
    // select(0) = 0; select(k) = one past the k-th set bit = the least p with rank(p) = k
    let sel = |pos: &Vec<usize>, k: usize| {
        if k == 0 {
            Some(0)
        } else {
            pos.get(k - 1).map(|p| p + 1)
        }
    };
    BvObs {
        len: Slot::Val(n),
        a: q.pa.iter().map(|&x| opt(bits.get(x).map(|b| *b as usize))).collect(),
        r: q.pa.iter().map(|&x| opt(pre.get(x).copied())).collect(),
        r0: q.pa.iter().map(|&x| opt(pre.get(x).map(|r| x - r))).collect(),
        s: q.ps.iter().map(|&k| opt(sel(&ones, k))).collect(),
        s0: q.ps0.iter().map(|&k| opt(sel(&zeros, k))).collect(),
        ar_bad: vec![],
    }
}

/// construct -> bytes -> parse -> observe; parse a copy of the bytes -> observe again
fn run_trait<B: BitVector>(bits: &[bool], q: &Queries) -> Result<(BvObs, BvObs), String> {
    let mut buf = vec![];
    {
        let mut b = Builder::new(&mut buf);
        g(|| B::construct(bits, &mut b))?.map_err(|e| format!("construct:{:?}", e))?;
    }
    let o1 = {
        let (bv, _) = g(|| B::parse(&buf))?.map_err(|e| format!("parse:{:?}", e))?;
        observe_bv(&bv, q, bits.len())
    };
    let copy = buf.clone();
    drop(buf);
    let (bv, _) = g(|| B::parse(&copy))?.map_err(|e| format!("reparse:{:?}", e))?;
    let o2 = observe_bv(&bv, q, bits.len());
    Ok((o1, o2))
}

fn run_sparse(branch: usize, bits: &[bool], q: &Queries) -> Result<(BvObs, BvObs), String> {
    let idx: Vec<usize> = bits.iter().enumerate().filter(|(_, b)| **b).map(|(i, _)| i).collect();
    let mut buf = vec![];
    {
        let mut b = Builder::new(&mut buf);
        g(|| sparse::BitVector::from_indices(branch, bits.len(), &idx, &mut b))?.ok_or("construct:none".to_string())?;
    }
    let o1 = {
        let bv = g(|| sparse::BitVector::new(&buf))?.ok_or("parse:none".to_string())?;
        observe_bv(&bv, q, bits.len())
    };
    let copy = buf.clone();
    drop(buf);
    let bv = g(|| sparse::BitVector::new(&copy))?.ok_or("reparse:none".to_string())?;
    let o2 = observe_bv(&bv, q, bits.len());
    Ok((o1, o2))
}

const IMPLS: [&str; 7] = ["ref", "rrr", "cfrrr", "sparse", "sparse4", "sparse128", "sparse255"];

fn run_impl(name: &str, bits: &[bool], q: &Queries) -> Result<(BvObs, BvObs), String> {
    match name {
        "ref" => run_trait::<ReferenceBitVector>(bits, q),
        "rrr" => run_trait::<rrr::BitVector>(bits, q),
        "cfrrr" => run_trait::<cf_rrr::BitVector>(bits, q),
        "sparse" => run_trait::<sparse::BitVector>(bits, q),
        "sparse4" => run_sparse(4, bits, q),
        "sparse128" => run_sparse(128, bits, q),
        "sparse255" => run_sparse(255, bits, q),
        _ => unreachable!(),
    }
}

/// block sizes of the implementations: 63-bit words; rrr 8 words per block, select sample 64;
/// cf_rrr 23 words per block (= its select sample); sparse branch 16 (levels 16, 256, 4096) and 128.
const BLOCKS: [usize; 11] = [8, 16, 63, 64, 128, 256, 504, 1449, 4032, 4096, 16384];

const CF_BLOCK: usize = 23 * 63;

fn rle(bits: &[bool]) -> String {
    if bits.is_empty() {
        return "-".into();
    }
    let mut runs: Vec<usize> = vec![];
    let mut cur = false;
    let mut n = 0usize;
    for &b in bits {
        if b == cur {
            n += 1;
        } else {
            runs.push(n);
            cur = b;
            n = 1;
        }
    }
    runs.push(n);
    runs.iter().map(|x| x.to_string()).collect::<Vec<_>>().join(",")
}

fn gen_bits(rng: &mut Rng, kind: u64, n: usize) -> (Vec<bool>, &'static str) {
    match kind {
        0 => (vec![false; n], "zeros"),
        1 => (vec![true; n], "ones"),
        2 => ((0..n).map(|i| i % 2 == 1).collect(), "alt01"),
        3 => ((0..n).map(|i| i % 2 == 0).collect(), "alt10"),
        4 => {
            // block-aligned runs: run length B-1, B or B+1, starting with either value
            let b = *rng.pick(&BLOCKS);
            let run = (b as i64 + rng.range(0, 2) as i64 - 1).max(1) as usize;
            let first = rng.chance(1, 2);
            ((0..n).map(|i| ((i / run) % 2 == 0) == first).collect(), "block-runs")
        }
        5 => {
            // one set bit (or one clear bit) at a boundary-ish position
            let inv = rng.chance(1, 2);
            let mut v = vec![inv; n];
            if n > 0 {
                let p = match rng.below(4) {
                    0 => 0,
                    1 => n - 1,
                    2 => {
                        let b = *rng.pick(&BLOCKS);
                        let k = rng.below((n / b) as u64 + 1) as usize * b;
                        (k + rng.below(3) as usize).saturating_sub(1).min(n - 1)
                    }
                    _ => rng.below(n as u64) as usize,
                };
                v[p] = !inv;
            }
            (v, "single")
        }
        6 => {
            let den = *rng.pick(&[2u64, 3, 10, 100, 1000]);
            let inv = rng.chance(1, 2);
            ((0..n).map(|_| rng.chance(1, den) != inv).collect(), "random-density")
        }
        7 => {
            // ones exactly at the multiples of a block size (or everywhere but there)
            let b = *rng.pick(&BLOCKS);
            let off = rng.below(2) as usize;
            let inv = rng.chance(1, 2);
            ((0..n).map(|i| ((i + off) % b == 0) != inv).collect(), "stripe")
        }
        8 => {
            // random run lengths
            let maxrun = *rng.pick(&[3u64, 70, 600, 3000]);
            let mut v = Vec::with_capacity(n);
            let mut cur = rng.chance(1, 2);
            while v.len() < n {
                let k = rng.range(1, maxrun) as usize;
                for _ in 0..k.min(n - v.len()) {
                    v.push(cur);
                }
                cur = !cur;
            }
            (v, "random-runs")
        }
        _ => {
            // a prefix of one value, then the other
            let cut = if n == 0 { 0 } else { rng.below(n as u64 + 1) as usize };
            let first = rng.chance(1, 2);
            ((0..n).map(|i| (i < cut) == first).collect(), "half")
        }
    }
}

fn sampled_positions(rng: &mut Rng, bits: &[bool], want: usize) -> Vec<usize> {
    let n = bits.len();
    let ones = bits.iter().filter(|b| **b).count();
    let zeros = n - ones;
    let mut must: Vec<usize> = vec![0, 1, n.saturating_sub(1), n, n + 1, n + 2, ones.saturating_sub(1), ones, ones + 1, zeros.saturating_sub(1), zeros, zeros + 1];
    let mut cand: Vec<usize> = vec![];
    for b in BLOCKS {
        let mut k = b;
        while k <= n + 1 {
            cand.extend_from_slice(&[k - 1, k, k + 1]);
            k += b;
            if cand.len() > 4000 {
                break;
            }
        }
    }
    rng.shuffle(&mut cand);
    cand.truncate(want / 2);
    must.extend(cand);
    while must.len() < want {
        must.push(rng.below(n as u64 + 2) as usize);
    }
    must.sort();
    must.dedup();
    must
}

fn bv_case(rec: &mut Recorder, bits: Vec<bool>, kind: &str, q: Queries, mode: String) {
    let req = format!("bv {} {} {} {}", bits.len(), rle(&bits), IMPLS.join(","), mode);
    let exp = expected_bv(&bits, &q);
    let mut segs: Vec<String> = vec![];
    let mut fails: Vec<String> = vec![];
    for name in IMPLS {
        match g(|| run_impl(name, &bits, &q)) {
            Ok(Ok((o1, o2))) => {
                segs.push(format!("{}:{}", name, o1.render()));
                if o1 != o2 {
                    fails.push(format!("{}:reparse-differs", name));
                }
                let mut what = vec![];
                if o1.len != exp.len {
                    what.push("len".to_string());
                }
                for (nm, got, want, args) in [("access", &o1.a, &exp.a, &q.pa), ("rank", &o1.r, &exp.r, &q.pa), ("rank0", &o1.r0, &exp.r0, &q.pa), ("select", &o1.s, &exp.s, &q.ps), ("select0", &o1.s0, &exp.s0, &q.ps0)] {
                    if let Some(i) = (0..args.len()).find(|&i| got[i] != want[i]) {
                        what.push(format!("{}({})={}!={}", nm, args[i], got[i].show(), want[i].show()));
                    }
                }
                if let Some(x) = o1.ar_bad.first() {
                    what.push(format!("access_rank({})", x));
                }
                if !what.is_empty() {
                    fails.push(format!("{}:{}", name, what.join("/")));
                }
            }
            Ok(Err(m)) => {
                segs.push(format!("{}:{}", name, m.replace(' ', "_")));
                fails.push(format!("{}:{}", name, m));
            }
            Err(m) => {
                segs.push(format!("{}:panic", name));
                fails.push(format!("{}:panic:{}", name, m));
            }
        }
    }
    rec.count(&format!("bv.kind.{}", kind));
    rec.count(&format!("bv.len.{}", len_bucket(bits.len())));
    rec.add("bv.bits_total", bits.len() as u64);
    rec.add("bv.query_args_total", (q.pa.len() * 3 + q.ps.len() + q.ps0.len()) as u64 * IMPLS.len() as u64);
    let nt = if !bits.is_empty() { Some(fnv(req.as_bytes())) } else { None };
    let v = if fails.is_empty() {
        Verdict::Ok
    } else {
        // the cf_rrr defect: decidable on the input — a non-empty vector whose length is a multiple of the
        // cf_rrr block (23 words of 63 bits), and nothing but cf_rrr is off
        let class = if fails.iter().any(|f| f.contains("panic")) {
            "bv-panic"
        } else if !bits.is_empty() && bits.len() % CF_BLOCK == 0 && fails.iter().all(|f| f.starts_with("cfrrr:")) {
            "cfrrr-len-multiple-of-block"
        } else {
            "bv-answer"
        };
        Verdict::Fail { class: class.into(), detail: format!("len={} kind={} {}", bits.len(), kind, fails.join(" ")) }
    };
    rec.case(&req, &segs.join(" "), v, nt);
}

fn len_bucket(n: usize) -> &'static str {
    match n {
        0 => "0",
        1 => "1",
        2..=63 => "2-63",
        64..=504 => "64-504",
        505..=1449 => "505-1449",
        1450..=4096 => "1450-4096",
        4097..=20000 => "4097-20000",
        _ => ">20000",
    }
}

fn all_queries(bits: &[bool]) -> Queries {
    let n = bits.len();
    let ones = bits.iter().filter(|b| **b).count();
    Queries { pa: (0..n + 2).collect(), ps: (0..ones + 2).collect(), ps0: (0..n - ones + 2).collect() }
}

fn run_bv(args: &Args, rec: &mut Recorder) {
    // ---- stream 0: lengths that are exact multiples of a block, asked around the end ----------
    for (i, (n, kind)) in [63usize, 504, 1449, 2898, 4347, 4032, 4096].iter().flat_map(|n| [(*n, 0u64), (*n, 1), (*n, 2)]).enumerate() {
        if !rec.wants() {
            rec.skip();
            continue;
        }
        let mut rng = Rng::for_case(args.seed, 0, i as u64);
        let (bits, kind) = gen_bits(&mut rng, kind, n);
        let ones = bits.iter().filter(|b| **b).count();
        let mut ps = vec![0, 1, n - 1, n, n + 1, ones.saturating_sub(1), ones, ones + 1, n - ones, n - ones + 1];
        ps.sort();
        ps.dedup();
        let mode = format!("at {}", ps.iter().map(|x| x.to_string()).collect::<Vec<_>>().join(","));
        let q = Queries { pa: ps.clone(), ps: ps.clone(), ps0: ps };
        bv_case(rec, bits, kind, q, mode);
    }
    // ---- stream 1: every length 0..=70 x four deterministic patterns, every argument ----------
    for i in 0..(71 * 4) {
        if !rec.wants() {
            rec.skip();
            continue;
        }
        let mut rng = Rng::for_case(args.seed, 1, i);
        let (bits, kind) = gen_bits(&mut rng, i % 4, (i / 4) as usize);
        let q = all_queries(&bits);
        bv_case(rec, bits, kind, q, "all".into());
    }
    // ---- stream 2: small random patterns, every argument -------------------------------------
    let n2 = if args.thorough { 1800 } else { 300 };
    for i in 0..n2 {
        if !rec.wants() {
            rec.skip();
            continue;
        }
        let mut rng = Rng::for_case(args.seed, 2, i);
        let n = if rng.chance(1, 2) { rng.below(70) } else { rng.below(260) } as usize;
        let kind = rng.range(4, 9);
        let (bits, kind) = gen_bits(&mut rng, kind, n);
        let q = all_queries(&bits);
        bv_case(rec, bits, kind, q, "all".into());
    }
    // ---- stream 3: lengths around the block sizes, every argument ----------------------------
    let boundary: Vec<usize> = {
        let mut v = vec![];
        for b in [63usize, 64, 126, 128, 256, 504, 1008, 1449] {
            v.extend_from_slice(&[b - 1, b, b + 1]);
        }
        v
    };
    let n3 = if args.thorough { boundary.len() as u64 * 6 + 9 } else { 30 };
    for i in 0..n3 {
        if !rec.wants() {
            rec.skip();
            continue;
        }
        let mut rng = Rng::for_case(args.seed, 3, i);
        // thorough: every boundary length x six kinds, then two blocks of cf_rrr (2897..2899) x three kinds
        let j = (i / 6) as usize;
        let n = if !args.thorough {
            *rng.pick(&boundary)
        } else if j < boundary.len() {
            boundary[j]
        } else {
            2897 + ((i - boundary.len() as u64 * 6) / 3) as usize
        };
        let kind = if !args.thorough {
            *rng.pick(&[0u64, 1, 2, 4, 6, 7, 8])
        } else if j < boundary.len() {
            [0, 1, 2, 4, 6, 8][(i % 6) as usize]
        } else {
            [1, 6, 8][(i % 3) as usize]
        };
        let (bits, kind) = gen_bits(&mut rng, kind, n);
        let q = all_queries(&bits);
        bv_case(rec, bits, kind, q, "all".into());
    }
    // ---- stream 4: medium and large, sampled + boundary arguments ---------------------------
    let n4 = if args.thorough { 500 } else { 110 };
    for i in 0..n4 {
        if !rec.wants() {
            rec.skip();
            continue;
        }
        let mut rng = Rng::for_case(args.seed, 4, i);
        let n = match rng.below(10) {
            0..=3 => rng.range(200, 2000) as usize,
            4..=6 => {
                let b = *rng.pick(&BLOCKS);
                let m = b * rng.range(1, 5) as usize;
                (m as i64 + rng.range(0, 2) as i64 - 1) as usize
            }
            _ => rng.range(2000, 6000) as usize,
        };
        let kind = rng.below(10);
        let (bits, kind) = gen_bits(&mut rng, kind, n);
        let ps = sampled_positions(&mut rng, &bits, 40);
        let mode = format!("at {}", ps.iter().map(|x| x.to_string()).collect::<Vec<_>>().join(","));
        let q = Queries { pa: ps.clone(), ps: ps.clone(), ps0: ps };
        bv_case(rec, bits, kind, q, mode);
    }
    // ---- stream 5 (thorough): tens of thousands of bits ---------------------------------------
    let n5 = if args.thorough { 48 } else { 3 };
    for i in 0..n5 {
        if !rec.wants() {
            rec.skip();
            continue;
        }
        let mut rng = Rng::for_case(args.seed, 5, i);
        let n = if args.thorough {
            match rng.below(3) {
                0 => rng.range(10000, 70000) as usize,
                1 => {
                    let b = *rng.pick(&[504usize, 1449, 4096, 16384, 63 * 64]);
                    let m = b * rng.range(2, (70000 / b) as u64) as usize;
                    (m as i64 + rng.range(0, 2) as i64 - 1) as usize
                }
                _ => rng.range(20000, 40000) as usize,
            }
        } else {
            rng.range(8000, 12000) as usize
        };
        let kind = rng.below(10);
        let (bits, kind) = gen_bits(&mut rng, kind, n);
        let ps = sampled_positions(&mut rng, &bits, 36);
        let mode = format!("at {}", ps.iter().map(|x| x.to_string()).collect::<Vec<_>>().join(","));
        let q = Queries { pa: ps.clone(), ps: ps.clone(), ps0: ps };
        bv_case(rec, bits, kind, q, mode);
    }
}

// ================================================================================================
// documents
// ================================================================================================

type Cdoc<'a> = CompressedDocument<'a>;
type WtPsi<'a> = scrunch::psi::wavelet_tree::WaveletTreePsi<'a, scrunch::wavelet_tree::prefix::WaveletTree<'a, scrunch::encoder::HuffmanEncoder>>;

#[derive(Clone, PartialEq, Debug)]
struct DocObs {
    len: String,
    recs: String,
    cnt: Vec<String>,
    pos: Vec<String>,
    lk: Vec<String>,
    off: Vec<String>,
    ret: Vec<String>,
}

fn nums<T: ToString>(xs: impl IntoIterator<Item = T>) -> String {
    let v: Vec<String> = xs.into_iter().map(|x| x.to_string()).collect();
    if v.is_empty() {
        "-".into()
    } else {
        v.join(",")
    }
}

fn res<T, E>(r: Result<Result<T, E>, String>, show: impl FnOnce(T) -> String) -> String {
    match r {
        Ok(Ok(x)) => show(x),
        Ok(Err(_)) => "err".into(),
        Err(_) => "!".into(),
    }
}

/// everything the `Document` trait lets one see
fn observe_doc<D: Document>(d: &D, pats: &[Vec<u32>], lk: &[usize], recs_probe: &[usize]) -> DocObs {
    DocObs {
        len: res::<usize, ()>(g(|| Ok(d.len())), |x| x.to_string()),
        recs: res::<usize, ()>(g(|| Ok(d.records())), |x| x.to_string()),
        cnt: pats.iter().map(|p| res(g(|| d.count(p)), |c| c.to_string())).collect(),
        pos: pats.iter().map(|p| res(g(|| d.search(p).map(|it| it.map(|o| o.0).collect::<Vec<usize>>())), nums)).collect(),
        lk: lk.iter().map(|&o| res(g(|| d.lookup(TextOffset(o))), |r| r.0.to_string())).collect(),
        off: recs_probe.iter().map(|&r| res(g(|| d.offset_of(RecordOffset(r))), |o| o.0.to_string())).collect(),
        ret: recs_probe.iter().map(|&r| res(g(|| d.retrieve(RecordOffset(r))), nums)).collect(),
    }
}

/// the plain scan
fn naive_doc(text: &[u32], rb: &[usize], pats: &[Vec<u32>], lk: &[usize], recs_probe: &[usize]) -> DocObs {
    let n = text.len();
    let occ = |p: &Vec<u32>| -> Vec<usize> {
        if p.is_empty() {
            (0..n).collect()
        } else if p.len() > n {
            vec![]
        } else {
            (0..=n - p.len()).filter(|&k| text[k..k + p.len()] == p[..]).collect()
        }
    };
    DocObs {
        len: n.to_string(),
        recs: rb.len().to_string(),
        cnt: pats.iter().map(|p| occ(p).len().to_string()).collect(),
        pos: pats.iter().map(|p| nums(occ(p))).collect(),
        lk: lk.iter().map(|&o| if o < n { (rb.iter().filter(|b| **b <= o).count() - 1).to_string() } else { "oob".into() }).collect(),
        off: recs_probe.iter().map(|&r| if r < rb.len() { rb[r].to_string() } else { "err".into() }).collect(),
        ret: recs_probe
            .iter()
            .map(|&r| {
                if r < rb.len() {
                    let lim = if r + 1 < rb.len() { rb[r + 1] } else { n };
                    nums(text[rb[r]..lim].iter())
                } else {
                    "err".into()
                }
            })
            .collect(),
    }
}

/// compare two observations on the slots the property quantifies over (text offsets `< len`,
/// records `< records`); `what` collects the first difference of each kind
fn diff_docs(tag: &str, a: &DocObs, b: &DocObs, n: usize, lk: &[usize], what: &mut Vec<String>) {
    if a.len != b.len {
        what.push(format!("{}:len {}!={}", tag, a.len, b.len));
    }
    if a.recs != b.recs {
        what.push(format!("{}:records {}!={}", tag, a.recs, b.recs));
    }
    if let Some(i) = (0..a.cnt.len()).find(|&i| a.cnt[i] != b.cnt[i]) {
        what.push(format!("{}:count[pattern#{}] {}!={}", tag, i, a.cnt[i], b.cnt[i]));
    }
    if let Some(i) = (0..a.pos.len()).find(|&i| a.pos[i] != b.pos[i]) {
        what.push(format!("{}:search[pattern#{}] {}!={}", tag, i, clip(&a.pos[i]), clip(&b.pos[i])));
    }
    if let Some(i) = (0..lk.len()).find(|&i| lk[i] < n && a.lk[i] != b.lk[i]) {
        what.push(format!("{}:lookup({}) {}!={}", tag, lk[i], a.lk[i], b.lk[i]));
    }
    if let Some(i) = (0..a.off.len()).find(|&i| a.off[i] != b.off[i]) {
        what.push(format!("{}:offset_of(#{}) {}!={}", tag, i, a.off[i], b.off[i]));
    }
    if let Some(i) = (0..a.ret.len()).find(|&i| a.ret[i] != b.ret[i]) {
        what.push(format!("{}:retrieve(#{}) {}!={}", tag, i, clip(&a.ret[i]), clip(&b.ret[i])));
    }
}

fn clip(s: &str) -> String {
    if s.len() > 60 {
        format!("{}…", &s[..60])
    } else {
        s.to_string()
    }
}

fn build<D: Document>(text: &[u32], rb: &[usize]) -> Result<Result<Vec<u8>, scrunch::Error>, String> {
    g(|| {
        let mut buf = vec![];
        let mut b = Builder::new(&mut buf);
        let r = D::construct(text.to_vec(), rb.to_vec(), &mut b);
        drop(b);
        r.map(|_| buf)
    })
}

struct Internals {
    sa: Vec<usize>,
    psi: Vec<usize>,
    /// `isa.lookup(b)` for every record boundary `b`
    isa_at_boundaries: Vec<Result<usize, scrunch::Error>>,
}

/// Read the suffix array, psi and the sampled inverse suffix array of the *built* document out of
/// its serialised form (fields 2..5 of the document message) with the crate's public parsers.
/// `ranks`: which suffix-array ranks to read (all of them unless the text is huge).
fn dump_internals(buf: &[u8], ranks: &[usize], rb: &[usize]) -> Result<Internals, String> {
    let mut fields: [Option<&[u8]>; 6] = [None; 6];
    let mut rest = buf;
    while !rest.is_empty() {
        let (tag, val, r) = parse_one_field_bytes(rest).ok_or("document message does not parse")?;
        let k = tag.field_number.get() as usize;
        if k < 6 {
            fields[k] = Some(val);
        }
        rest = r;
    }
    let f = |k: usize| fields[k].ok_or(format!("field {} missing", k));
    let sigma = <scrunch::sigma::Sigma as Unpackable>::unpack(f(2)?).map_err(|e| format!("sigma:{:?}", e))?.0;
    let sa = <scrunch::sa::SampledSuffixArray as Unpackable>::unpack(f(3)?).map_err(|e| format!("sa:{:?}", e))?.0;
    let isa = <scrunch::isa::SampledInverseSuffixArray as Unpackable>::unpack(f(4)?).map_err(|e| format!("isa:{:?}", e))?.0;
    let psi = <WtPsi as Unpackable>::unpack(f(5)?).map_err(|e| format!("psi:{:?}", e))?.0;
    let mut out = Internals { sa: vec![], psi: vec![], isa_at_boundaries: vec![] };
    for &i in ranks {
        out.sa.push(sa.lookup(&sigma, &psi, i).map_err(|e| format!("sa.lookup({}):{:?}", i, e))?);
        out.psi.push(psi.lookup(&sigma, i).map_err(|e| format!("psi.lookup({}):{:?}", i, e))?);
    }
    for &b in rb {
        out.isa_at_boundaries.push(isa.lookup(b));
    }
    Ok(out)
}

/// is `sa` (over all ranks `0..=n`) the sorted permutation of the suffixes of `text` + end marker,
/// is psi its successor function, are the ISA samples its inverse?
fn check_internals(text: &[u32], rb: &[usize], it: &Internals, what: &mut Vec<String>) {
    let n = text.len();
    let mut inv = vec![usize::MAX; n + 1];
    let mut perm = it.sa.len() == n + 1;
    for (i, &p) in it.sa.iter().enumerate() {
        if p > n || inv[p] != usize::MAX {
            perm = false;
            break;
        }
        inv[p] = i;
    }
    if !perm {
        what.push("sa-not-a-permutation".into());
        return;
    }
    // a proper prefix sorts first, exactly as with a unique smallest end marker
    if let Some(i) = (0..n).find(|&i| text[it.sa[i]..] >= text[it.sa[i + 1]..]) {
        what.push(format!("sa-not-sorted at rank {}", i));
    }
    if let Some(i) = (0..=n).find(|&i| it.psi[i] != inv[(it.sa[i] + 1) % (n + 1)]) {
        what.push(format!("psi-not-successor at rank {}", i));
    }
    for (k, b) in rb.iter().enumerate() {
        if it.isa_at_boundaries[k] != Ok(inv[*b]) {
            what.push(format!("isa-sample-wrong at text position {}", b));
            break;
        }
    }
}

// ---- texts -----------------------------------------------------------------------------------

fn de_bruijn(k: usize, m: usize) -> Vec<usize> {
    fn db(t: usize, p: usize, k: usize, m: usize, a: &mut Vec<usize>, seq: &mut Vec<usize>) {
        if t > m {
            if m % p == 0 {
                seq.extend_from_slice(&a[1..=p]);
            }
        } else {
            a[t] = a[t - p];
            db(t + 1, p, k, m, a, seq);
            for j in a[t - p] + 1..k {
                a[t] = j;
                db(t + 1, t, k, m, a, seq);
            }
        }
    }
    let mut a = vec![0usize; k * m + 1];
    let mut seq = vec![];
    db(1, 1, k, m, &mut a, &mut seq);
    seq
}

const LARGE: [u32; 16] = [0, 1, 255, 256, 257, 65535, 65536, 65537, (1 << 20) - 1, 1 << 20, (1 << 20) + 1, 0x10FFFF, 0x110000, 0x7fff_ffff, u32::MAX - 1, u32::MAX];

/// `k` distinct code points; the abstract symbol `j` is mapped to `alphabet[j]`
fn gen_alphabet(rng: &mut Rng, k: usize) -> (Vec<u32>, &'static str) {
    let style = rng.below(5);
    let (mut v, name): (Vec<u32>, &'static str) = match style {
        0 | 1 => {
            let base = *rng.pick(&[0u32, 1, 97, 250, 65530, (1 << 20) - 3, 0x10FFF0]);
            ((0..k as u32).map(|j| base + j).collect(), "dense")
        }
        2 if k <= LARGE.len() => {
            let mut p = LARGE.to_vec();
            rng.shuffle(&mut p);
            p.truncate(k);
            (p, "large-code-points")
        }
        _ => {
            let mut s = std::collections::BTreeSet::new();
            while s.len() < k {
                s.insert(rng.next() as u32 >> rng.below(24));
            }
            (s.into_iter().collect(), "random-code-points")
        }
    };
    if rng.chance(1, 2) {
        v.sort();
    } else {
        rng.shuffle(&mut v);
    }
    (v, name)
}

/// abstract text over `0..k`
fn gen_shape(rng: &mut Rng, kind: u64, n: usize, k: usize) -> (Vec<usize>, &'static str) {
    let k = k.max(1);
    match kind {
        0 => (vec![rng.below(k as u64) as usize; n], "all-equal"),
        1 => {
            let p = rng.range(2, 6) as usize;
            let w: Vec<usize> = (0..p).map(|_| rng.below(k as u64) as usize).collect();
            ((0..n).map(|i| w[i % p]).collect(), "periodic")
        }
        2 => {
            let kk = k.clamp(2, 4);
            let m = match kk {
                2 => rng.range(2, 6),
                3 => rng.range(2, 4),
                _ => rng.range(2, 3),
            } as usize;
            let mut s = de_bruijn(kk, m);
            let head: Vec<usize> = s[..m - 1].to_vec();
            s.extend(head);
            while s.len() < n {
                let c = s.clone();
                s.extend(c);
            }
            s.truncate(n.max(1));
            (s, "de-bruijn")
        }
        3 => ((0..n).map(|_| rng.below(k as u64) as usize).collect(), "random"),
        4 => {
            // Fibonacci word / Thue-Morse
            if rng.chance(1, 2) {
                let (mut a, mut b) = (vec![0usize], vec![0usize, 1 % k]);
                while b.len() < n {
                    let mut c = b.clone();
                    c.extend(&a);
                    a = b;
                    b = c;
                }
                b.truncate(n.max(1));
                (b, "fibonacci")
            } else {
                ((0..n).map(|i| (i.count_ones() as usize % 2) % k).collect(), "thue-morse")
            }
        }
        5 => {
            // monotone runs: all suffixes of one type for the induced sort
            if rng.chance(1, 2) {
                ((0..n).map(|i| i * k / n.max(1)).collect(), "ascending")
            } else {
                ((0..n).map(|i| (n - 1 - i) * k / n.max(1)).collect(), "descending")
            }
        }
        6 => {
            // a^(n-1) b  /  b a^(n-1)  /  a^i b a^j
            let mut v = vec![0usize; n];
            if n > 0 {
                let p = match rng.below(3) {
                    0 => 0,
                    1 => n - 1,
                    _ => rng.below(n as u64) as usize,
                };
                v[p] = if rng.chance(1, 2) { k - 1 } else { 1 % k };
                if rng.chance(1, 2) {
                    for x in v.iter_mut() {
                        *x = k - 1 - *x;
                    }
                }
            }
            (v, "one-off")
        }
        _ => {
            // random with long repeats (copies of earlier substrings)
            let mut v: Vec<usize> = vec![];
            while v.len() < n {
                if v.len() > 2 && rng.chance(2, 3) {
                    let s = rng.below(v.len() as u64) as usize;
                    let l = rng.range(1, 40) as usize;
                    for j in 0..l {
                        if s + j < v.len() && v.len() < n {
                            let c = v[s + j];
                            v.push(c);
                        }
                    }
                } else {
                    v.push(rng.below(k as u64) as usize);
                }
            }
            (v, "repeats")
        }
    }
}

fn gen_boundaries(rng: &mut Rng, n: usize) -> (Vec<usize>, &'static str) {
    match rng.below(6) {
        0 => (vec![0], "one-record"),
        1 => ((0..n).collect(), "one-symbol-per-record"),
        2 => {
            // dense random
            let mut v = vec![0];
            v.extend((1..n).filter(|_| rng.chance(1, 3)));
            (v, "random-dense")
        }
        3 => {
            let mut v = vec![0];
            let den = (n as u64 / 4).max(2);
            v.extend((1..n).filter(|_| rng.chance(1, den)));
            (v, "random-sparse")
        }
        4 => {
            // around the multiples of the sampling / branching strides
            let mut v = vec![0];
            let b = *rng.pick(&[16usize, 64, 128]);
            let mut k = b;
            while k < n + 2 {
                for d in [k - 1, k, k + 1] {
                    if d > 0 && d < n && rng.chance(2, 3) {
                        v.push(d);
                    }
                }
                k += b;
            }
            v.sort();
            v.dedup();
            (v, "stride-aligned")
        }
        _ => {
            // last record of one symbol / first record of one symbol
            let mut v = vec![0];
            if n > 1 {
                if rng.chance(1, 2) {
                    v.push(1);
                }
                if n > 2 && rng.chance(1, 2) {
                    v.push(n - 1);
                }
            }
            v.dedup();
            (v, "edge-records")
        }
    }
}

fn sampled_patterns(rng: &mut Rng, text: &[u32], rb: &[usize], alphabet: &[u32], absent: u32, want: usize, maxlen: usize) -> Vec<Vec<u32>> {
    let n = text.len();
    let mut pats: Vec<Vec<u32>> = vec![vec![], text.to_vec(), vec![absent]];
    let mut longer = text.to_vec();
    longer.push(*rng.pick(alphabet));
    pats.push(longer);
    pats.push(vec![*rng.pick(alphabet)]);
    while pats.len() < want {
        let l = rng.range(1, maxlen.min(n).max(1) as u64) as usize;
        let mut p: Vec<u32> = match rng.below(4) {
            0 | 1 => {
                let s = rng.below((n - l) as u64 + 1) as usize;
                text[s..s + l].to_vec()
            }
            2 => {
                // crossing a record boundary
                let b = *rng.pick(rb);
                let s = b.saturating_sub(rng.below(l as u64) as usize).min(n - l);
                text[s..s + l].to_vec()
            }
            _ => (0..l).map(|_| *rng.pick(alphabet)).collect(),
        };
        if rng.chance(1, 4) {
            let j = rng.below(p.len() as u64) as usize;
            p[j] = if rng.chance(1, 3) { absent } else { *rng.pick(alphabet) };
        }
        pats.push(p);
    }
    pats
}

fn exhaustive_patterns(symbols: &[u32], maxlen: usize) -> Vec<Vec<u32>> {
    let mut out: Vec<Vec<u32>> = vec![vec![]];
    let mut level: Vec<Vec<u32>> = vec![vec![]];
    for _ in 0..maxlen {
        let mut next = vec![];
        for p in &level {
            for &s in symbols {
                let mut q = p.clone();
                q.push(s);
                next.push(q);
            }
        }
        out.extend(next.iter().cloned());
        level = next;
    }
    out
}

fn show_pats(pats: &[Vec<u32>]) -> String {
    if pats.is_empty() {
        return "-".into();
    }
    pats.iter().map(|p| if p.is_empty() { "e".to_string() } else { nums(p.iter()) }).collect::<Vec<_>>().join("/")
}

struct DocCase {
    text: Vec<u32>,
    rb: Vec<usize>,
    pats: Vec<Vec<u32>>,
    shape: &'static str,
    alpha: &'static str,
    bkind: &'static str,
    k: usize,
}

/// what the run of one admissible document yields
struct DocRun {
    comp: Option<DocObs>,
    internals: Option<Internals>,
    fails: Vec<String>,
    panicked: bool,
}

fn run_doc(c: &DocCase, lk: &[usize], recs_probe: &[usize], ranks: &[usize], full_internals: bool) -> DocRun {
    let mut fails = vec![];
    let mut panicked = false;
    let n = c.text.len();
    let naive = naive_doc(&c.text, &c.rb, &c.pats, lk, recs_probe);
    // reference
    let mut refobs = None;
    match build::<ReferenceDocument>(&c.text, &c.rb) {
        Ok(Ok(buf)) => {
            let o1 = g(|| ReferenceDocument::unpack(&buf).map(|d| observe_doc(&d.0, &c.pats, lk, recs_probe)));
            let copy = buf.clone();
            let o2 = g(|| ReferenceDocument::unpack(&copy).map(|d| observe_doc(&d.0, &c.pats, lk, recs_probe)));
            match (o1, o2) {
                (Ok(Ok(a)), Ok(Ok(b))) => {
                    if a != b {
                        fails.push("reference:reparse-differs".into());
                    }
                    refobs = Some(a);
                }
                (a, b) => {
                    panicked |= a.is_err() || b.is_err();
                    fails.push("reference:does-not-parse".into());
                }
            }
        }
        Ok(Err(e)) => fails.push(format!("reference:construct:{:?}", e)),
        Err(m) => {
            panicked = true;
            fails.push(format!("reference:construct-panic:{}", m));
        }
    }
    // compressed
    let mut comp = None;
    let mut internals = None;
    match build::<Cdoc>(&c.text, &c.rb) {
        Ok(Ok(buf)) => {
            let o1 = g(|| Cdoc::unpack(&buf).map(|d| observe_doc(&d.0, &c.pats, lk, recs_probe)));
            let copy = buf.clone();
            let o2 = g(|| Cdoc::unpack(&copy).map(|d| observe_doc(&d.0, &c.pats, lk, recs_probe)));
            match (o1, o2) {
                (Ok(Ok(a)), Ok(Ok(b))) => {
                    if a != b {
                        fails.push("compressed:reparse-differs".into());
                    }
                    comp = Some(a);
                }
                (a, b) => {
                    panicked |= a.is_err() || b.is_err();
                    fails.push("compressed:does-not-parse".into());
                }
            }
            match g(|| dump_internals(&buf, ranks, &c.rb)) {
                Ok(Ok(it)) => {
                    if full_internals {
                        check_internals(&c.text, &c.rb, &it, &mut fails);
                    } else {
                        // sampled ranks come in adjacent pairs
                        for w in it.sa.chunks(2) {
                            if w.len() == 2 && (w[0] > n || w[1] > n || c.text[w[0]..] >= c.text[w[1]..]) {
                                fails.push("sa-not-sorted (sampled ranks)".into());
                                break;
                            }
                        }
                    }
                    internals = Some(it);
                }
                Ok(Err(m)) => fails.push(format!("internals:{}", m)),
                Err(m) => {
                    panicked = true;
                    fails.push(format!("internals-panic:{}", m));
                }
            }
        }
        Ok(Err(e)) => fails.push(format!("compressed:construct:{:?}", e)),
        Err(m) => {
            panicked = true;
            fails.push(format!("compressed:construct-panic:{}", m));
        }
    }
    if let Some(cobs) = &comp {
        diff_docs("compressed-vs-scan", cobs, &naive, n, lk, &mut fails);
        if let Some(r) = &refobs {
            diff_docs("compressed-vs-reference", cobs, r, n, lk, &mut fails);
        }
        let any_panic = |o: &DocObs| o.len == "!" || o.recs == "!" || [&o.cnt, &o.pos, &o.lk, &o.off, &o.ret].iter().any(|v| v.iter().any(|s| s == "!"));
        if any_panic(cobs) {
            panicked = true;
            fails.push("compressed:panic-in-query".into());
        }
    }
    if let Some(r) = &refobs {
        diff_docs("reference-vs-scan", r, &naive, n, lk, &mut fails);
    }
    DocRun { comp, internals, fails, panicked }
}

fn doc_verdict(c: &DocCase, run: &DocRun) -> Verdict {
    if run.fails.is_empty() {
        Verdict::Ok
    } else {
        let class = if run.panicked { "doc-panic" } else { "doc-answer" };
        Verdict::Fail {
            class: class.into(),
            detail: format!("n={} k={} shape={} boundaries={} :: {}", c.text.len(), c.k, c.shape, c.bkind, run.fails.join(" ; ")),
        }
    }
}

fn doc_stats(rec: &mut Recorder, stream: &str, c: &DocCase) {
    rec.count(&format!("doc.{}", stream));
    rec.count(&format!("doc.shape.{}", c.shape));
    rec.count(&format!("doc.alphabet.{}", c.alpha));
    rec.count(&format!("doc.boundaries.{}", c.bkind));
    rec.count(&format!(
        "doc.K.{}",
        match c.k {
            1 => "1",
            2 => "2",
            3..=4 => "3-4",
            5..=16 => "5-16",
            17..=255 => "17-255",
            256..=65535 => "256-65535 (u16 symbols)",
            _ => ">=65536 (u32 symbols)",
        }
    ));
    rec.count(&format!(
        "doc.n.{}",
        match c.text.len() {
            1 => "1",
            2..=14 => "2-14",
            15..=64 => "15-64",
            65..=200 => "65-200",
            201..=3000 => "201-3000",
            3001..=30000 => "3001-30000",
            _ => ">30000",
        }
    ));
    rec.add("doc.patterns_total", c.pats.len() as u64);
    rec.add("doc.records_total", c.rb.len() as u64);
    rec.add("doc.symbols_total", c.text.len() as u64);
}

fn make_text(rng: &mut Rng, n: usize, kmax: usize, shape_kind: u64) -> (Vec<u32>, Vec<u32>, u32, &'static str, &'static str) {
    let k = kmax.max(1);
    let (alphabet, alpha) = gen_alphabet(rng, k);
    let (shape, shape_name) = gen_shape(rng, shape_kind, n, k);
    let text: Vec<u32> = shape.iter().map(|&j| alphabet[j.min(k - 1)]).collect();
    // a code point that is not in the alphabet
    let mut absent = *rng.pick(&[0u32, 1, 98, 65536, u32::MAX, 7]);
    while alphabet.contains(&absent) {
        absent = absent.wrapping_add(1);
    }
    (text, alphabet, absent, shape_name, alpha)
}

fn distinct(text: &[u32]) -> Vec<u32> {
    let mut v = text.to_vec();
    v.sort();
    v.dedup();
    v
}

/// full three-way cases: the Lean model answers everything
fn full_case(rec: &mut Recorder, c: DocCase, stream: &str) {
    let n = c.text.len();
    let recs = c.rb.len();
    let lk: Vec<usize> = (0..n + 2).collect();
    let probe: Vec<usize> = (0..recs + 1).collect();
    let ranks: Vec<usize> = (0..n + 1).collect();
    let run = run_doc(&c, &lk, &probe, &ranks, true);
    let req = format!("doc full {} {} {}", nums(c.text.iter()), nums(c.rb.iter()), show_pats(&c.pats));
    let line = match (&run.comp, &run.internals) {
        (Some(o), Some(it)) => format!(
            "len={} recs={} sa={} psi={} cnt={} pos={} lk={} off={} ret={}",
            o.len,
            o.recs,
            nums(it.sa.iter()),
            nums(it.psi[1..].iter()),
            if o.cnt.is_empty() { "-".into() } else { o.cnt.join(",") },
            if o.pos.is_empty() { "-".into() } else { o.pos.join("|") },
            o.lk.join(","),
            o.off.join(","),
            o.ret.join("|")
        ),
        _ => "construct-failed".to_string(),
    };
    doc_stats(rec, stream, &c);
    let nt = if n >= 2 && c.pats.iter().any(|p| !p.is_empty()) { Some(fnv(req.as_bytes())) } else { None };
    rec.case(&req, &line, doc_verdict(&c, &run), nt);
}

const LEAN_SA_MAX: usize = 2500;

/// big cases: the oracle checks the answers; the Lean driver checks the suffix array
fn big_case(rec: &mut Recorder, rng: &mut Rng, mut c: DocCase, stream: &str) {
    let n = c.text.len();
    // `search` costs one sampled-suffix-array walk per occurrence: bound the total number of
    // occurrences asked for (highly repetitive texts would otherwise dominate the run)
    {
        let mut budget: usize = 6_000 + 2 * n;
        let text = &c.text;
        c.pats.retain(|p| {
            let occ = if p.is_empty() { n } else if p.len() > n { 0 } else { (0..=n - p.len()).filter(|&k| text[k..k + p.len()] == p[..]).count() };
            if occ <= budget {
                budget -= occ;
                true
            } else {
                false
            }
        });
    }
    let recs = c.rb.len();
    let lk: Vec<usize> = if n <= 30000 { (0..n + 2).collect() } else { (0..3000).map(|_| rng.below(n as u64 + 2) as usize).collect() };
    let probe: Vec<usize> = if recs <= 4000 {
        (0..recs + 1).collect()
    } else {
        let mut p: Vec<usize> = (0..2000).map(|_| rng.below(recs as u64 + 1) as usize).collect();
        p.extend_from_slice(&[0, recs - 1, recs]);
        p
    };
    let full = n <= 30000;
    let ranks: Vec<usize> = if full {
        (0..n + 1).collect()
    } else {
        (0..1500).flat_map(|_| { let i = rng.below(n as u64) as usize; [i, i + 1] }).collect()
    };
    let run = run_doc(&c, &lk, &probe, &ranks, full);
    let (req, line) = match (&run.internals, full && n <= LEAN_SA_MAX) {
        (Some(it), true) => (format!("doc sa {} {}", nums(c.text.iter()), nums(it.sa.iter())), format!("sorted-permutation n={}", n)),
        _ => (format!("doc oracle-only n={} k={} shape={} fp={:016x}", n, c.k, c.shape, fnv(nums(c.text.iter()).as_bytes())), "oracle-only".to_string()),
    };
    doc_stats(rec, stream, &c);
    rec.case(&req, &line, doc_verdict(&c, &run), Some(fnv(req.as_bytes())));
}

fn run_docs(args: &Args, rec: &mut Recorder) {
    // ---- stream 10: tiny texts, exhaustive patterns ------------------------------------------
    let n10 = if args.thorough { 2500 } else { 320 };
    for i in 0..n10 {
        if !rec.wants() {
            rec.skip();
            continue;
        }
        let mut rng = Rng::for_case(args.seed, 10, i);
        let n = match i {
            0..=11 => 1 + (i as usize) / 4,
            _ => rng.range(1, 14) as usize,
        };
        let k = if i < 12 { 1 + (i as usize % 4).min(2) } else { *rng.pick(&[1usize, 2, 2, 2, 3, 3]) };
        let shape_kind = if i < 12 { 3 } else { rng.below(8) };
        let (text, _alphabet, absent, shape, alpha) = make_text(&mut rng, n, k, shape_kind);
        let (rb, bkind) = gen_boundaries(&mut rng, n);
        let mut syms = distinct(&text);
        let kk = syms.len();
        syms.push(absent);
        let mut pats = exhaustive_patterns(&syms, if kk <= 2 { 4 } else { 3 });
        pats.push(text.clone());
        let mut longer = text.clone();
        longer.push(text[0]);
        pats.push(longer);
        full_case(rec, DocCase { text, rb, pats, shape, alpha, bkind, k: kk }, "tiny-exhaustive");
    }
    // ---- stream 11: small texts, sampled patterns --------------------------------------------
    let n11 = if args.thorough { 1500 } else { 200 };
    for i in 0..n11 {
        if !rec.wants() {
            rec.skip();
            continue;
        }
        let mut rng = Rng::for_case(args.seed, 11, i);
        let n = if rng.chance(1, 6) { rng.range(65, 140) } else { rng.range(5, 64) } as usize;
        let k = *rng.pick(&[1usize, 2, 2, 3, 4, 5, 8, 16, 40]);
        let shape_kind = rng.below(8);
        let (text, alphabet, absent, shape, alpha) = make_text(&mut rng, n, k.min(n), shape_kind);
        let (rb, bkind) = gen_boundaries(&mut rng, n);
        let want = if n > 64 { 10 } else { 20 };
        let pats = sampled_patterns(&mut rng, &text, &rb, &alphabet, absent, want, 9);
        let kk = distinct(&text).len();
        full_case(rec, DocCase { text, rb, pats, shape, alpha, bkind, k: kk }, "small-sampled");
    }
    // ---- stream 12: inadmissible divisions into records / the empty text ---------------------
    let n12 = if args.thorough { 400 } else { 80 };
    for i in 0..n12 {
        if !rec.wants() {
            rec.skip();
            continue;
        }
        let mut rng = Rng::for_case(args.seed, 12, i);
        let n = if i < 4 { 0 } else { rng.range(0, 12) as usize };
        let (text, _, _, _, _) = if n == 0 { (vec![], vec![], 0, "", "") } else { make_text(&mut rng, n, 3, 3) };
        let (mut rb, _) = if n == 0 { (vec![0], "") } else { gen_boundaries(&mut rng, n) };
        let kind = if i < 4 { [0u64, 1, 7, 7][i as usize] } else { rng.below(8) };
        let what = match kind {
            0 => {
                rb.clear();
                "no-boundaries"
            }
            1 => "as-generated",
            2 => {
                rb[0] = 1;
                rb.dedup();
                "first-not-zero"
            }
            3 => {
                let j = rng.below(rb.len() as u64) as usize;
                let d = rb[j];
                rb.insert(j, d);
                "empty-record"
            }
            4 => {
                rb.push(n);
                "last-equals-len"
            }
            5 => {
                rb.push(n + 1 + rng.below(3) as usize);
                "last-beyond-len"
            }
            6 => {
                if rb.len() >= 2 {
                    let l = rb.len();
                    rb.swap(l - 1, l - 2);
                } else {
                    rb.push(0);
                }
                "not-increasing"
            }
            _ => "as-generated",
        };
        let req = format!("doc reject {} {}", nums(text.iter()), nums(rb.iter()));
        let r1 = build::<ReferenceDocument>(&text, &rb);
        let r2 = build::<Cdoc>(&text, &rb);
        let show = |r: &Result<Result<Vec<u8>, scrunch::Error>, String>| match r {
            Ok(Ok(_)) => "accepted",
            Ok(Err(_)) => "err",
            Err(_) => "panic",
        };
        rec.count(&format!("doc.reject.{}", what));
        if n == 0 {
            rec.count("doc.reject.empty-text");
        }
        let v = if show(&r1) == show(&r2) && show(&r2) != "panic" {
            Verdict::Ok
        } else {
            Verdict::Fail { class: "doc-admission".into(), detail: format!("reference={} compressed={}", show(&r1), show(&r2)) }
        };
        rec.case(&req, show(&r2), v, Some(fnv(req.as_bytes())));
    }
    // ---- stream 13: big texts ------------------------------------------------------------------
    let n13 = if args.thorough { 100 } else { 36 };
    for i in 0..n13 {
        if !rec.wants() {
            rec.skip();
            continue;
        }
        let mut rng = Rng::for_case(args.seed, 13, i);
        let n = match rng.below(6) {
            0 | 1 => rng.range(100, 700),
            2 | 3 => rng.range(700, 2400),
            _ => {
                if args.thorough {
                    rng.range(2400, 14000)
                } else {
                    rng.range(2400, 5000)
                }
            }
        } as usize;
        // alphabets of 1 .. thousands; K > 256 takes the u16 suffix sort
        let k = match rng.below(8) {
            0 => 1,
            1 => 2,
            2 => 4,
            3 => rng.range(5, 40) as usize,
            4 => rng.range(200, 300) as usize,
            5 => rng.range(255, 258) as usize,
            6 => rng.range(300, 3000) as usize,
            _ => rng.range(2, 20) as usize,
        }
        .min(n);
        let shape_kind = if k > 40 { *rng.pick(&[3u64, 3, 5, 7]) } else { rng.below(8) };
        let (text, alphabet, absent, shape, alpha) = make_text(&mut rng, n, k, shape_kind);
        let (rb, bkind) = gen_boundaries(&mut rng, n);
        let pats = sampled_patterns(&mut rng, &text, &rb, &alphabet, absent, 30, 24);
        let kk = distinct(&text).len();
        big_case(rec, &mut rng, DocCase { text, rb, pats, shape, alpha, bkind, k: kk }, "big");
    }
    // ---- stream 14 (thorough): more than 65536 distinct symbols: the u32 suffix sort -----------
    let n14 = if args.thorough { 2 } else { 0 };
    for i in 0..n14 {
        if !rec.wants() {
            rec.skip();
            continue;
        }
        let mut rng = Rng::for_case(args.seed, 14, i);
        let k = 65536 + rng.range(1, 3000) as usize;
        let n = k + rng.range(0, 9000) as usize;
        let (alphabet, alpha) = gen_alphabet(&mut rng, k);
        // every symbol at least once, the rest random, shuffled
        let mut shape: Vec<usize> = (0..k).collect();
        while shape.len() < n {
            shape.push(rng.below(k as u64) as usize);
        }
        rng.shuffle(&mut shape);
        let text: Vec<u32> = shape.iter().map(|&j| alphabet[j]).collect();
        let mut absent = 5u32;
        while alphabet.contains(&absent) {
            absent += 1;
        }
        let (rb, bkind) = gen_boundaries(&mut rng, n);
        let pats = sampled_patterns(&mut rng, &text, &rb, &alphabet, absent, 24, 6);
        big_case(rec, &mut rng, DocCase { text, rb, pats, shape: "random", alpha, bkind, k }, "huge-alphabet");
    }
    // ---- stream 15: one context with many predecessors of Fibonacci frequencies ---------------
    // The Huffman code of the symbols preceding a context is as deep as the skew of their
    // frequencies allows: with m predecessors whose counts follow the Fibonacci numbers the tree is a
    // chain m-1 levels deep.  Near-uniform texts never get past a dozen levels; these reach 16, 17
    // and 18-bit code words (records `s X Y`, s drawn from m symbols).
    let deep: &[usize] = if args.thorough { &[16, 17, 18, 19, 20] } else { &[17, 18, 19] };
    for (i, &m) in deep.iter().enumerate() {
        if !rec.wants() {
            rec.skip();
            continue;
        }
        let mut rng = Rng::for_case(args.seed, 15, i as u64);
        let (x, y) = (1u32, 2u32);
        let mut counts = vec![1usize, 1usize];
        while counts.len() < m {
            let n = counts.len();
            counts.push(counts[n - 1] + counts[n - 2]);
        }
        let mut text = vec![];
        let mut rb = vec![];
        for (j, c) in counts.iter().enumerate() {
            for _ in 0..*c {
                rb.push(text.len());
                text.push(100 + j as u32);
                text.push(x);
                text.push(y);
            }
        }
        let mut pats: Vec<Vec<u32>> = (0..m).map(|j| vec![100 + j as u32, x, y]).collect();
        pats.push(vec![x, y]);
        pats.push(vec![y, 100]);
        pats.push(vec![100 + m as u32, x]);
        rec.count(&format!("deep-context.predecessors{}", m));
        // The code book of the deep context is looked at first: with a malformed book (two words
        // equal, one a prefix of another) the index built over it need not terminate, and a run
        // that does not end names no defect.  On a well-formed book nothing is recorded here.
        {
            use scrunch::encoder::{Encoder, HuffmanEncoder};
            let row: Vec<u32> = counts.iter().enumerate().flat_map(|(j, c)| std::iter::repeat(100 + j as u32).take(*c)).collect();
            let book: Result<Vec<Option<(u32, u8)>>, String> = g(|| {
                let enc = HuffmanEncoder::construct(&row);
                (0..m).map(|j| enc.encode(100 + j as u32)).collect()
            });
            let mut what: Option<String> = None;
            match &book {
                Err(p) => what = Some(format!("HuffmanEncoder::construct panicked: {}", p)),
                Ok(book) => {
                    'pf: for a in 0..m {
                        for b in 0..m {
                            if a == b {
                                continue;
                            }
                            match (book[a], book[b]) {
                                (Some((ca, la)), Some((cb, lb))) => {
                                    if la >= 1 && la <= lb && lb < 32 && (cb & ((1u32 << la) - 1)) == ca {
                                        what = Some(format!("code of {} ({}:{}) is a prefix of the code of {} ({}:{})", 100 + a, ca, la, 100 + b, cb, lb));
                                        break 'pf;
                                    }
                                }
                                (None, _) => {
                                    what = Some(format!("symbol {} has no code", 100 + a));
                                    break 'pf;
                                }
                                _ => {}
                            }
                        }
                    }
                }
            }
            if let Some(w) = what {
                let tag = format!("# deep-context {} predecessors: code book of the context", m);
                rec.case(&tag, "#", Verdict::Fail { class: "huffman-book-malformed".into(), detail: format!("Fibonacci frequencies over {} symbols: {}", m, w) }, Some(fnv(tag.as_bytes())));
                continue;
            }
        }
        big_case(rec, &mut rng, DocCase { text, rb, pats, shape: "fibonacci-context", alpha: "small", bkind: "every-third", k: m + 2 }, "deep-context");
    }
}

// ================================================================================================
// the sampled containers and the bit array on their own
// ================================================================================================

fn pairs(xs: &[(usize, u64)]) -> String {
    if xs.is_empty() {
        "-".into()
    } else {
        xs.iter().map(|(a, b)| format!("{}:{}", a, b)).collect::<Vec<_>>().join(",")
    }
}

/// `bv ba`: `Builder::push_word` / `seal` / `BitArray::load` against the flat-bit-list model
fn ba_case(rec: &mut Recorder, pushes: Vec<(usize, u64)>, loads: Vec<(usize, usize)>) {
    use scrunch::bit_array::{BitArray, Builder as BaBuilder};
    let req = format!("bv ba {} {}", pairs(&pushes), pairs(&loads.iter().map(|(i, w)| (*i, *w as u64)).collect::<Vec<_>>()));
    let r = g(|| {
        let mut b = BaBuilder::with_capacity(8);
        let mut offs = vec![];
        for (w, v) in &pushes {
            offs.push(b.len());
            b.push_word(*v, *w);
        }
        let bytes = b.seal();
        let ba = BitArray::new(&bytes);
        let ld: Vec<Option<u64>> = loads.iter().map(|(i, w)| ba.load(*i, *w)).collect();
        let back: Vec<Option<u64>> = pushes.iter().zip(offs.iter()).map(|((w, _), o)| ba.load(*o, *w)).collect();
        (bytes.len(), ld, back)
    });
    rec.count("ba.cases");
    rec.add("ba.loads_total", loads.len() as u64);
    match r {
        Ok((nbytes, ld, back)) => {
            let line = format!("bytes={};ld={}", nbytes, if ld.is_empty() { "-".to_string() } else { ld.iter().map(|x| x.map(|v| v.to_string()).unwrap_or("-".into())).collect::<Vec<_>>().join(",") });
            let bad = pushes.iter().zip(back.iter()).position(|((_, v), b)| *b != Some(*v));
            let v = match bad {
                None => Verdict::Ok,
                Some(k) => Verdict::Fail { class: "bitarray-roundtrip".into(), detail: format!("field #{} {:?} read back as {:?}", k, pushes[k], back[k]) },
            };
            rec.case(&req, &line, v, Some(fnv(req.as_bytes())));
        }
        Err(m) => rec.case(&req, "panic", Verdict::Fail { class: "bv-panic".into(), detail: m }, Some(fnv(req.as_bytes()))),
    }
}

/// `doc sarr`: a `SampledArray` built from (offset, value) pairs, asked at every offset
fn sarr_case(rec: &mut Recorder, rng: &mut Rng, vals: Vec<(usize, usize)>, kind: &str) {
    use scrunch::sampled::SampledArray;
    let last = vals.last().map(|x| x.0).unwrap_or(0);
    // every offset when the array is short; otherwise the samples, their neighbours, the end, and
    // random offsets
    let probes: Vec<usize> = if last <= 1500 {
        (0..last + 3).collect()
    } else {
        let mut p: Vec<usize> = vec![0, 1, last, last + 1, last + 2];
        for (o, _) in &vals {
            p.extend_from_slice(&[o.saturating_sub(1), *o, *o + 1]);
        }
        for _ in 0..200 {
            p.push(rng.below(last as u64 + 3) as usize);
        }
        p.sort();
        p.dedup();
        p
    };
    let req = format!("doc sarr {} {}", pairs(&vals.iter().map(|(a, b)| (*a, *b as u64)).collect::<Vec<_>>()), if last <= 1500 { "all".to_string() } else { nums(probes.iter()) });
    let r = g(|| -> Result<(Vec<Option<usize>>, Vec<Option<usize>>), String> {
        let mut buf = vec![];
        {
            let mut b = Builder::new(&mut buf);
            SampledArray::construct(&vals, &mut b).map_err(|e| format!("construct:{:?}", e))?;
        }
        let (sa, _) = SampledArray::parse(&buf).map_err(|e| format!("parse:{:?}", e))?;
        let a: Vec<Option<usize>> = probes.iter().map(|&x| sa.lookup(x)).collect();
        // the u32 constructor, when the values fit
        let b = if vals.iter().all(|(_, v)| *v <= u32::MAX as usize) {
            let v32: Vec<(usize, u32)> = vals.iter().map(|(o, v)| (*o, *v as u32)).collect();
            let mut buf2 = vec![];
            {
                let mut b = Builder::new(&mut buf2);
                SampledArray::construct_u32(&v32, &mut b).map_err(|e| format!("construct_u32:{:?}", e))?;
            }
            let (sa2, _) = SampledArray::parse(&buf2).map_err(|e| format!("parse_u32:{:?}", e))?;
            probes.iter().map(|&x| sa2.lookup(x)).collect()
        } else {
            a.clone()
        };
        Ok((a, b))
    });
    rec.count(&format!("sarr.{}", kind));
    let nt = Some(fnv(req.as_bytes()));
    match r {
        Ok(Ok((a, b))) => {
            let line = format!("lk={}", a.iter().map(|x| x.map(|v| v.to_string()).unwrap_or("-".into())).collect::<Vec<_>>().join(","));
            let exp: Vec<Option<usize>> = probes.iter().map(|x| vals.iter().find(|(o, _)| o == x).map(|(_, v)| *v)).collect();
            let v = if a != exp {
                let x = (0..exp.len()).find(|&x| a[x] != exp[x]).unwrap();
                Verdict::Fail { class: "sampled-array-answer".into(), detail: format!("lookup({})={:?} expected {:?}", probes[x], a[x], exp[x]) }
            } else if a != b {
                Verdict::Fail { class: "sampled-array-answer".into(), detail: "construct_u32 differs from construct".into() }
            } else {
                Verdict::Ok
            };
            rec.case(&req, &line, v, nt);
        }
        Ok(Err(m)) => rec.case(&req, &m.replace(' ', "_"), Verdict::Fail { class: "sampled-array-answer".into(), detail: m }, nt),
        Err(m) => rec.case(&req, "panic", Verdict::Fail { class: "doc-panic".into(), detail: m }, nt),
    }
}

/// suffix array of `text` + end marker by plain sorting (a proper prefix sorts first, exactly as
/// with a unique smallest end marker), its inverse and psi
fn naive_sa(text: &[u32]) -> (Vec<usize>, Vec<usize>, Vec<usize>) {
    let n = text.len();
    let mut sa: Vec<usize> = (0..=n).collect();
    sa.sort_by(|&a, &b| text[a..].cmp(&text[b..]));
    let mut isa = vec![0usize; n + 1];
    for (i, &p) in sa.iter().enumerate() {
        isa[p] = i;
    }
    let psi: Vec<usize> = sa.iter().map(|&p| isa[(p + 1) % (n + 1)]).collect();
    (sa, isa, psi)
}

fn build_sigma(text: &[u32]) -> Result<Vec<u8>, String> {
    let mut buf = vec![];
    let mut b = Builder::new(&mut buf);
    scrunch::sigma::Sigma::construct(text.iter().copied(), &mut b).map_err(|e| format!("sigma:{:?}", e))?;
    drop(b);
    Ok(buf)
}

fn show_res(xs: &[Result<usize, ()>]) -> String {
    xs.iter().map(|x| x.map(|v| v.to_string()).unwrap_or("err".into())).collect::<Vec<_>>().join(",")
}

/// `doc ssa`: the real `SampledSuffixArray` of stride `2^sampling` over the exact suffix array,
/// walking the reference psi, asked at every rank and two beyond
fn ssa_case(rec: &mut Recorder, sampling: usize, text: Vec<u32>, shape: &str) {
    use scrunch::psi::ReferencePsi;
    use scrunch::sa::SampledSuffixArray;
    let n = text.len();
    let req = format!("doc ssa {} {}", sampling, nums(text.iter()));
    let (sa, _isa, psi) = naive_sa(&text);
    let r = g(|| -> Result<(Vec<Result<usize, ()>>, Vec<Result<usize, ()>>), String> {
        let sigma_buf = build_sigma(&text)?;
        let sigma = <scrunch::sigma::Sigma as Unpackable>::unpack(&sigma_buf).map_err(|e| format!("sigma:{:?}", e))?.0;
        let rpsi = ReferencePsi::new(&psi);
        let mut buf = vec![];
        {
            let mut b = Builder::new(&mut buf);
            SampledSuffixArray::construct(sampling, &sa, &mut b).map_err(|e| format!("construct:{:?}", e))?;
        }
        let ssa = SampledSuffixArray::unpack(&buf).map_err(|e| format!("unpack:{:?}", e))?.0;
        let a: Vec<Result<usize, ()>> = (0..n + 3).map(|i| ssa.lookup(&sigma, &rpsi, i).map_err(|_| ())).collect();
        let sa32: Vec<u32> = sa.iter().map(|x| *x as u32).collect();
        let mut buf2 = vec![];
        {
            let mut b = Builder::new(&mut buf2);
            SampledSuffixArray::construct_u32(sampling, &sa32, &mut b).map_err(|e| format!("construct_u32:{:?}", e))?;
        }
        let ssa2 = SampledSuffixArray::unpack(&buf2).map_err(|e| format!("unpack_u32:{:?}", e))?.0;
        let b: Vec<Result<usize, ()>> = (0..n + 3).map(|i| ssa2.lookup(&sigma, &rpsi, i).map_err(|_| ())).collect();
        Ok((a, b))
    });
    rec.count(&format!("ssa.sampling.{}", sampling));
    rec.count(&format!("ssa.shape.{}", shape));
    let stride = 1usize << sampling;
    rec.count(&format!("ssa.len_mod_stride.{}", match (n + 1) % stride { 0 => "0", 1 => "1", x if x == stride - 1 => "-1", _ => "other" }));
    let nt = if n >= 2 { Some(fnv(req.as_bytes())) } else { None };
    match r {
        Ok(Ok((a, b))) => {
            let line = format!("sa={}", show_res(&a));
            let exp: Vec<Result<usize, ()>> = (0..n + 3).map(|i| sa.get(i).copied().ok_or(())).collect();
            let v = if a != exp {
                let i = (0..exp.len()).find(|&i| a[i] != exp[i]).unwrap();
                Verdict::Fail { class: "sampled-sa-answer".into(), detail: format!("sampling={} n={} lookup({})={:?} expected {:?}", sampling, n, i, a[i], exp[i]) }
            } else if a != b {
                Verdict::Fail { class: "sampled-sa-answer".into(), detail: "construct_u32 differs from construct".into() }
            } else {
                Verdict::Ok
            };
            rec.case(&req, &line, v, nt);
        }
        Ok(Err(m)) => rec.case(&req, "construct-failed", Verdict::Fail { class: "sampled-sa-answer".into(), detail: m }, nt),
        Err(m) => rec.case(&req, "panic", Verdict::Fail { class: "doc-panic".into(), detail: m }, nt),
    }
}

/// `doc sisa`: the real `SampledInverseSuffixArray` over the given positions, asked at every text
/// position and two beyond; inadmissible position lists must be refused
fn sisa_case(rec: &mut Recorder, text: Vec<u32>, ps: Vec<usize>, kind: &str) {
    use scrunch::isa::SampledInverseSuffixArray;
    let n = text.len();
    let req = format!("doc sisa {} {}", nums(text.iter()), nums(ps.iter()));
    let (_sa, isa, _psi) = naive_sa(&text);
    let valid = ps.windows(2).all(|w| w[0] < w[1]) && ps.iter().all(|p| *p <= n);
    let r = g(|| -> Result<Option<(Vec<Result<usize, ()>>, Vec<Result<usize, ()>>)>, String> {
        let mut buf = vec![];
        let c1 = {
            let mut b = Builder::new(&mut buf);
            SampledInverseSuffixArray::construct(&isa, &ps, &mut b)
        };
        let isa32: Vec<u32> = isa.iter().map(|x| *x as u32).collect();
        let mut buf2 = vec![];
        let c2 = {
            let mut b = Builder::new(&mut buf2);
            SampledInverseSuffixArray::construct_u32(&isa32, &ps, &mut b)
        };
        match (c1, c2) {
            (Err(_), Err(_)) => Ok(None),
            (Ok(()), Ok(())) => {
                let s1 = SampledInverseSuffixArray::unpack(&buf).map_err(|e| format!("unpack:{:?}", e))?.0;
                let s2 = SampledInverseSuffixArray::unpack(&buf2).map_err(|e| format!("unpack_u32:{:?}", e))?.0;
                let a = (0..n + 3).map(|x| s1.lookup(x).map_err(|_| ())).collect();
                let b = (0..n + 3).map(|x| s2.lookup(x).map_err(|_| ())).collect();
                Ok(Some((a, b)))
            }
            _ => Err("construct and construct_u32 disagree on admission".into()),
        }
    });
    rec.count(&format!("sisa.{}", kind));
    let nt = Some(fnv(req.as_bytes()));
    match r {
        Ok(Ok(None)) => {
            let v = if valid { Verdict::Fail { class: "sampled-isa-answer".into(), detail: "admissible positions refused".into() } } else { Verdict::Ok };
            rec.case(&req, "err", v, nt);
        }
        Ok(Ok(Some((a, b)))) => {
            let line = format!("isa={}", show_res(&a));
            let exp: Vec<Result<usize, ()>> = (0..n + 3).map(|x| if ps.contains(&x) { Ok(isa[x]) } else { Err(()) }).collect();
            let v = if !valid {
                Verdict::Fail { class: "sampled-isa-answer".into(), detail: "inadmissible positions accepted".into() }
            } else if a != exp {
                let x = (0..exp.len()).find(|&x| a[x] != exp[x]).unwrap();
                Verdict::Fail { class: "sampled-isa-answer".into(), detail: format!("lookup({})={:?} expected {:?}", x, a[x], exp[x]) }
            } else if a != b {
                Verdict::Fail { class: "sampled-isa-answer".into(), detail: "construct_u32 differs from construct".into() }
            } else {
                Verdict::Ok
            };
            rec.case(&req, &line, v, nt);
        }
        Ok(Err(m)) => rec.case(&req, &m.replace(' ', "_"), Verdict::Fail { class: "sampled-isa-answer".into(), detail: m }, nt),
        Err(m) => rec.case(&req, "panic", Verdict::Fail { class: "doc-panic".into(), detail: m }, nt),
    }
}

/// `doc sigma`: the alphabet on its own — `Sigma::construct` / `unpack` and every query
fn sigma_case(rec: &mut Recorder, text: Vec<u32>, probes: Vec<u32>, alpha: &str) {
    use scrunch::sigma::Sigma;
    let n = text.len();
    let req = format!("doc sigma {} {}", nums(text.iter()), nums(probes.iter()));
    let opt = |o: Option<u32>| o.map(|v| v.to_string()).unwrap_or("-".into());
    let r = g(|| -> Result<String, String> {
        let buf = build_sigma(&text)?;
        let sg = <Sigma as Unpackable>::unpack(&buf).map_err(|e| format!("unpack:{:?}", e))?.0;
        let k = sg.K();
        let s2c: Vec<String> = (1..=k as u32 + 1).map(|i| opt(sg.sigma_to_char(i))).collect();
        let c2s: Vec<String> = probes.iter().map(|p| opt(sg.char_to_sigma(*p))).collect();
        let rng: Vec<String> = probes.iter().map(|p| sg.sa_range_for(*p).map(|(a, b)| format!("{}:{}", a, b)).unwrap_or("err".into())).collect();
        let i2s: Vec<String> = (0..n + 3).map(|i| opt(sg.sa_index_to_sigma(i))).collect();
        let i2t: Vec<String> = (0..n + 3).map(|i| opt(sg.sa_index_to_t(i))).collect();
        let mut bs = vec![];
        let bs_s = sg.bucket_starts(&mut bs).map(|_| nums(bs.iter())).unwrap_or("err".into());
        let mut bl = vec![];
        let bl_s = sg.bucket_limits(&mut bl).map(|_| nums(bl.iter())).unwrap_or("err".into());
        let tr: Option<Vec<u32>> = text.iter().map(|t| sg.char_to_sigma(*t)).collect();
        let tr_s = tr.map(|mut v| { v.push(0); nums(v.iter()) }).unwrap_or("err".into());
        Ok(format!("K={} s2c={} c2s={} rng={} i2s={} i2t={} bs={} bl={} tr={}", k, s2c.join(","), if c2s.is_empty() { "-".into() } else { c2s.join(",") }, if rng.is_empty() { "-".into() } else { rng.join(",") }, i2s.join(","), i2t.join(","), bs_s, bl_s, tr_s))
    });
    // the property on a plain sorted copy of the text
    let d = distinct(&text);
    let mut sorted = text.clone();
    sorted.sort();
    let exp = {
        let k = d.len() + 1;
        let s2c: Vec<String> = (1..=k + 1).map(|i| d.get(i - 1).map(|v| v.to_string()).unwrap_or("-".into())).collect();
        let pos = |p: &u32| d.iter().position(|x| x == p);
        let c2s: Vec<String> = probes.iter().map(|p| pos(p).map(|i| (i + 1).to_string()).unwrap_or("-".into())).collect();
        let rng: Vec<String> = probes
            .iter()
            .map(|p| match pos(p) {
                Some(_) => {
                    let lo = sorted.iter().filter(|x| *x < p).count();
                    let c = sorted.iter().filter(|x| *x == p).count();
                    format!("{}:{}", lo + 1, lo + c)
                }
                None => "1:0".into(),
            })
            .collect();
        let sym = |i: usize| -> Option<usize> {
            if i == 0 {
                Some(0)
            } else if i <= n {
                Some(d.iter().position(|x| *x == sorted[i - 1]).unwrap() + 1)
            } else {
                None
            }
        };
        let i2s: Vec<String> = (0..n + 3).map(|i| sym(i).map(|v| v.to_string()).unwrap_or("-".into())).collect();
        let i2t: Vec<String> = (0..n + 3).map(|i| if i >= 1 && i <= n { sorted[i - 1].to_string() } else { "-".into() }).collect();
        let mut starts = vec![0usize];
        let mut limits = vec![1usize];
        for c in &d {
            let lo = sorted.iter().filter(|x| *x < c).count();
            let cnt = sorted.iter().filter(|x| *x == c).count();
            starts.push(lo + 1);
            limits.push(lo + cnt + 1);
        }
        let tr: Vec<usize> = text.iter().map(|t| pos(t).unwrap() + 1).chain(std::iter::once(0)).collect();
        format!("K={} s2c={} c2s={} rng={} i2s={} i2t={} bs={} bl={} tr={}", k, s2c.join(","), if c2s.is_empty() { "-".into() } else { c2s.join(",") }, if rng.is_empty() { "-".into() } else { rng.join(",") }, i2s.join(","), i2t.join(","), nums(starts.iter()), nums(limits.iter()), nums(tr.iter()))
    };
    rec.count(&format!("sigma.alphabet.{}", alpha));
    rec.count(&format!("sigma.K.{}", match d.len() { 1 => "1", 2 => "2", 3..=16 => "3-16", 17..=255 => "17-255", _ => ">=256" }));
    let nt = Some(fnv(req.as_bytes()));
    match r {
        Ok(Ok(line)) => {
            let v = if line == exp { Verdict::Ok } else { Verdict::Fail { class: "sigma-answer".into(), detail: format!("got {} expected {}", clip(&line), clip(&exp)) } };
            rec.case(&req, &line, v, nt);
        }
        Ok(Err(m)) => rec.case(&req, &m.replace(' ', "_"), Verdict::Fail { class: "sigma-answer".into(), detail: m }, nt),
        Err(m) => rec.case(&req, "panic", Verdict::Fail { class: "doc-panic".into(), detail: m }, nt),
    }
}

/// `doc wt`: the real Huffman-shaped wavelet tree against the model over the real code book
fn wt_case(rec: &mut Recorder, text: Vec<u32>, qs: Vec<u32>, shape: &str) {
    use scrunch::encoder::{Encoder, HuffmanEncoder};
    use scrunch::wavelet_tree::prefix::WaveletTree as PrefixWt;
    use scrunch::wavelet_tree::WaveletTree;
    let n = text.len();
    let d = distinct(&text);
    let enc = g(|| HuffmanEncoder::construct(&text));
    let cb: Vec<String> = match &enc {
        Ok(e) => d.iter().map(|s| match e.encode(*s) { Some((c, l)) => format!("{}:{}:{}", s, c, l), None => format!("{}:0:0", s) }).collect(),
        Err(_) => vec![],
    };
    let req = format!("doc wt {} {} {}", if cb.is_empty() { "-".to_string() } else { cb.join(",") }, nums(text.iter()), nums(qs.iter()));
    let opt = |o: Option<usize>| o.map(|v| v.to_string()).unwrap_or("-".into());
    let r = g(|| -> Result<(Vec<Option<u32>>, Vec<Vec<Option<usize>>>, Vec<Vec<Option<usize>>>, usize), String> {
        let mut buf = vec![];
        {
            let mut b = Builder::new(&mut buf);
            <PrefixWt<HuffmanEncoder> as WaveletTree>::construct(&text, &mut b).map_err(|e| format!("construct:{:?}", e))?;
        }
        let wt = <PrefixWt<HuffmanEncoder> as Unpackable>::unpack(&buf).map_err(|e| format!("unpack:{:?}", e))?.0;
        let a = (0..n + 2).map(|x| wt.access(x)).collect();
        let r = qs.iter().map(|q| (0..n + 2).map(|x| wt.rank_q(*q, x)).collect()).collect();
        let s = qs.iter().map(|q| (0..n + 2).map(|x| wt.select_q(*q, x)).collect()).collect();
        Ok((a, r, s, wt.len()))
    });
    rec.count(&format!("wt.shape.{}", shape));
    rec.count(&format!("wt.K.{}", match d.len() { 0 => "0", 1 => "1", 2 => "2", 3..=8 => "3-8", 9..=64 => "9-64", _ => ">64" }));
    let nt = if n >= 1 { Some(fnv(req.as_bytes())) } else { None };
    match r {
        Ok(Ok((a, rk, sl, len))) => {
            let row = |v: &Vec<Option<usize>>| v.iter().map(|x| opt(*x)).collect::<Vec<_>>().join(",");
            let line = format!(
                // hb=1: the encoder of this row IS `HuffmanEncoder::construct(row)`, so the model's
                // `bookOfText row` must be the book of the request
                "pf=1 hb=1 len={} a={} r={} s={}",
                len,
                a.iter().map(|x| x.map(|v| v.to_string()).unwrap_or("-".into())).collect::<Vec<_>>().join(","),
                if qs.is_empty() { "-".to_string() } else { rk.iter().map(row).collect::<Vec<_>>().join("|") },
                if qs.is_empty() { "-".to_string() } else { sl.iter().map(row).collect::<Vec<_>>().join("|") }
            );
            // the property on the plain symbol list, for the symbols that occur
            let mut what: Vec<String> = vec![];
            if len != n {
                what.push(format!("len {}!={}", len, n));
            }
            for x in 0..n + 2 {
                if a[x] != text.get(x).copied() {
                    what.push(format!("access({})", x));
                    break;
                }
            }
            for (k, q) in qs.iter().enumerate() {
                if !text.contains(q) {
                    continue;
                }
                let pos: Vec<usize> = (0..n).filter(|&i| text[i] == *q).collect();
                for x in 0..n + 2 {
                    let er = if x <= n { Some(text[..x].iter().filter(|t| *t == q).count()) } else { None };
                    let es = if x == 0 { Some(0) } else { pos.get(x - 1).map(|p| p + 1) };
                    if rk[k][x] != er {
                        what.push(format!("rank_q({},{})={:?}!={:?}", q, x, rk[k][x], er));
                        break;
                    }
                    if sl[k][x] != es {
                        what.push(format!("select_q({},{})={:?}!={:?}", q, x, sl[k][x], es));
                        break;
                    }
                }
            }
            let v = if what.is_empty() { Verdict::Ok } else { Verdict::Fail { class: "wavelet-answer".into(), detail: what.join(" ; ") } };
            rec.case(&req, &line, v, nt);
        }
        Ok(Err(m)) => rec.case(&req, &m.replace(' ', "_"), Verdict::Fail { class: "wavelet-answer".into(), detail: m }, nt),
        Err(m) => rec.case(&req, "panic", Verdict::Fail { class: "doc-panic".into(), detail: m }, nt),
    }
}

/// `doc huff <s:f,…> :: <sym:code:len,…>`: the real `HuffmanEncoder::construct` over a text with
/// exactly the given `(symbol, frequency)` table (ascending symbols); the model must build the
/// same book (`eq=1`).  Oracle, independent of the model: the book is a well-formed complete prefix
/// code over exactly the input symbols (`huffman-book-malformed`) and `decode(encode(t)) == t` for
/// every symbol of the row (`huffman-roundtrip`).
fn huff_case(rec: &mut Recorder, freqs: Vec<(u32, u64)>, family: &str) {
    use scrunch::encoder::{Encoder, HuffmanEncoder};
    let k = freqs.len();
    let mut text: Vec<u32> = Vec::with_capacity(freqs.iter().map(|f| f.1 as usize).sum());
    for (s, f) in freqs.iter() {
        for _ in 0..*f {
            text.push(*s);
        }
    }
    let absent = freqs.iter().map(|f| f.0).max().unwrap_or(0) + 2;
    type Obs = (Vec<Option<(u32, u8)>>, usize, Option<(u32, u8)>, Option<u32>);
    let r: Result<Obs, String> = g(|| {
        let enc = HuffmanEncoder::construct(&text);
        let book: Vec<Option<(u32, u8)>> = freqs.iter().map(|(s, _)| enc.encode(*s)).collect();
        // the first symbol of the row that does not come back through decode(encode(.))
        let mut bad = None;
        for t in text.iter() {
            let back = enc.encode(*t).and_then(|(c, l)| enc.decode(c, l));
            if back != Some(*t) {
                bad = Some(*t);
                break;
            }
        }
        (book, enc.symbols(), enc.encode(absent), bad)
    });
    // weights only (the multiset of weights at every merge does not depend on the tie-breaking):
    // is there a merge at which the choice or the order of the two lightest nodes is not forced?
    let mut ws: Vec<u64> = freqs.iter().map(|f| f.1).collect();
    let mut tie = false;
    while ws.len() >= 2 {
        ws.sort();
        if ws[0] == ws[1] || (ws.len() >= 3 && ws[1] == ws[2]) {
            tie = true;
        }
        let m = ws[0] + ws[1];
        ws.drain(0..2);
        ws.push(m);
    }
    let fq = if freqs.is_empty() { "-".to_string() } else { freqs.iter().map(|(s, f)| format!("{}:{}", s, f)).collect::<Vec<_>>().join(",") };
    rec.count(&format!("huff.family.{}", family));
    rec.count(&format!("huff.K.{}", match k { 0 => "0", 1 => "1", 2 => "2", 3..=8 => "3-8", 9..=16 => "9-16", 17..=24 => "17-24", _ => "25-40" }));
    rec.add("huff.row_symbols_total", text.len() as u64);
    match r {
        Ok((book, nsyms, absent_code, bad)) => {
            let cb: Vec<String> = freqs.iter().zip(book.iter()).map(|((s, _), e)| match e { Some((c, l)) => format!("{}:{}:{}", s, c, l), None => format!("{}:0:0", s) }).collect();
            let req = format!("doc huff {} :: {}", fq, if cb.is_empty() { "-".to_string() } else { cb.join(",") });
            let depth = book.iter().map(|e| e.map(|x| x.1).unwrap_or(0)).max().unwrap_or(0);
            let mut what: Vec<String> = vec![];
            if nsyms != k {
                what.push(format!("symbols()={} for {} input symbols", nsyms, k));
            }
            if absent_code.is_some() {
                what.push(format!("absent symbol {} has a code", absent));
            }
            let mut kraft: u64 = 0;
            for ((s, _), e) in freqs.iter().zip(book.iter()) {
                match e {
                    None => what.push(format!("symbol {} has no code", s)),
                    Some((c, l)) => {
                        if *l == 0 || *l >= 32 {
                            what.push(format!("symbol {} length {}", s, l));
                        } else {
                            if (*c as u64) >= (1u64 << *l) {
                                what.push(format!("symbol {} code {} >= 2^{}", s, c, l));
                            }
                            kraft += 1u64 << (32 - *l as u32);
                        }
                    }
                }
            }
            'pf: for i in 0..k {
                for j in 0..k {
                    if i == j {
                        continue;
                    }
                    if let (Some((ci, li)), Some((cj, lj))) = (book[i], book[j]) {
                        if li >= 1 && li <= lj && lj < 32 && (cj & ((1u32 << li) - 1)) == ci {
                            what.push(format!("code of {} ({}:{}) is a prefix of the code of {} ({}:{})", freqs[i].0, ci, li, freqs[j].0, cj, lj));
                            break 'pf;
                        }
                    }
                }
            }
            if k >= 2 && kraft != 1u64 << 32 {
                what.push(format!("kraft sum {}/2^32 != 1", kraft));
            }
            if k == 1 && book[0] != Some((0, 1)) {
                what.push(format!("single symbol coded {:?}", book[0]));
            }
            let v = if !what.is_empty() {
                Verdict::Fail { class: "huffman-book-malformed".into(), detail: what.join(" ; ") }
            } else if let Some(t) = bad {
                Verdict::Fail { class: "huffman-roundtrip".into(), detail: format!("decode(encode({})) != {}", t, t) }
            } else {
                Verdict::Ok
            };
            if tie {
                rec.count("huff.with-tie");
            }
            if depth >= 8 {
                rec.count("huff.depth>=8");
            }
            if depth >= 17 {
                rec.count("huff.depth>=17");
            }
            let nt = if (k >= 3 && tie) || depth >= 8 { Some(fnv(req.as_bytes())) } else { None };
            if nt.is_some() {
                rec.count("huff.nontrivial");
            }
            rec.case(&req, "eq=1", v, nt);
        }
        Err(m) => {
            let req = format!("doc huff {} :: -", fq);
            rec.case(&req, "panic", Verdict::Fail { class: "doc-panic".into(), detail: m }, Some(fnv(req.as_bytes())));
        }
    }
}

/// `doc wtpsi`: the real `WaveletTreePsi` on its own: `lookup` at every rank (and two beyond) and
/// `constrain(column of sigma, (a, b))` for every symbol and every closed `(a, b)`, `a <= b <= n`
fn wtpsi_case(rec: &mut Recorder, text: Vec<u32>, shape: &str) {
    use scrunch::sigma::Sigma;
    let n = text.len();
    let req = format!("doc wtpsi {}", nums(text.iter()));
    let (_sa, _isa, psi) = naive_sa(&text);
    let r = g(|| -> Result<(usize, Vec<String>, Vec<String>, Vec<String>), String> {
        let sigma_buf = build_sigma(&text)?;
        let sigma = <Sigma as Unpackable>::unpack(&sigma_buf).map_err(|e| format!("sigma:{:?}", e))?.0;
        let mut buf = vec![];
        {
            let mut b = Builder::new(&mut buf);
            <WtPsi as Psi>::construct(&sigma, &psi, &mut b).map_err(|e| format!("construct:{:?}", e))?;
        }
        let wp = <WtPsi as Unpackable>::unpack(&buf).map_err(|e| format!("unpack:{:?}", e))?.0;
        // the u32 constructor must build the same thing
        let psi32: Vec<u32> = psi.iter().map(|x| *x as u32).collect();
        let mut buf2 = vec![];
        {
            let mut b = Builder::new(&mut buf2);
            <WtPsi as Psi>::construct_u32(&sigma, &psi32, &mut b).map_err(|e| format!("construct_u32:{:?}", e))?;
        }
        let same = buf == buf2;
        let lk: Vec<String> = (0..n + 3)
            .map(|i| match g(|| wp.lookup(&sigma, i)) {
                Ok(Ok(v)) => v.to_string(),
                Ok(Err(_)) => "err".into(),
                Err(_) => "!".into(),
            })
            .collect();
        let mut cons = vec![];
        let mut bad = vec![];
        for sym in 1..sigma.K() as u32 {
            let range = match sigma.sa_range_for_sigma(sym) {
                Ok(r) => r,
                Err(_) => {
                    cons.push("err".to_string());
                    continue;
                }
            };
            let mut row = vec![];
            for a in 0..=n {
                for b in a..=n {
                    let got = g(|| wp.constrain(&sigma, range, (a, b)));
                    // the property: ReferencePsi's two binary searches over psi[range]
                    let lo = range.0 + (range.0..=range.1).filter(|&i| psi[i] < a).count();
                    let hi1 = range.0 + (range.0..=range.1).filter(|&i| psi[i] <= b).count();
                    match got {
                        Ok(Ok((x, y))) => {
                            row.push(format!("{}:{}", x, y));
                            if (x, y + 1) != (lo, hi1) {
                                bad.push(format!("constrain(sym {}, {:?}, ({},{}))=({},{}) expected ({},{})", sym, range, a, b, x, y, lo, hi1 as i64 - 1));
                            }
                        }
                        Ok(Err(_)) => {
                            row.push("err".into());
                            bad.push(format!("constrain(sym {}, ({},{})) is an error", sym, a, b));
                        }
                        Err(_) => {
                            row.push("!".into());
                            bad.push(format!("constrain(sym {}, ({},{})) panics", sym, a, b));
                        }
                    }
                }
            }
            cons.push(row.join(","));
        }
        if !same {
            bad.push("construct_u32 differs from construct".into());
        }
        Ok((wp.len(), lk, cons, bad))
    });
    rec.count(&format!("wtpsi.shape.{}", shape));
    rec.count(&format!("wtpsi.n.{}", match n { 1 => "1", 2..=4 => "2-4", 5..=8 => "5-8", _ => "9-14" }));
    let nt = if n >= 2 { Some(fnv(req.as_bytes())) } else { None };
    match r {
        Ok(Ok((len, lk, cons, mut bad))) => {
            let line = format!("len={} lk={} con={}", len, lk.join(","), if cons.is_empty() { "-".to_string() } else { cons.join("|") });
            for i in 0..=n {
                if lk[i] != psi[i].to_string() {
                    bad.push(format!("lookup({})={} expected {}", i, lk[i], psi[i]));
                    break;
                }
            }
            // lookup(len) panics in the code (y_value[#cells]); no caller asks for it: outside the property
            let v = if bad.is_empty() { Verdict::Ok } else { Verdict::Fail { class: "wtpsi-answer".into(), detail: bad[..bad.len().min(3)].join(" ; ") } };
            rec.case(&req, &line, v, nt);
        }
        Ok(Err(m)) => rec.case(&req, &m.replace(' ', "_"), Verdict::Fail { class: "wtpsi-answer".into(), detail: m }, nt),
        Err(m) => rec.case(&req, "panic", Verdict::Fail { class: "doc-panic".into(), detail: m }, nt),
    }
}

fn run_sampled(args: &Args, rec: &mut Recorder) {
    // ---- stream 20: the bit array ---------------------------------------------------------------
    let n20 = if args.thorough { 600 } else { 120 };
    for i in 0..n20 {
        if !rec.wants() {
            rec.skip();
            continue;
        }
        let mut rng = Rng::for_case(args.seed, 20, i);
        let k = if i < 4 { i as usize } else { rng.range(1, 40) as usize };
        let style = rng.below(4);
        let mut pushes: Vec<(usize, u64)> = vec![];
        for _ in 0..k {
            let w = match style {
                0 => *rng.pick(&[0usize, 1, 6, 7, 8, 9, 16, 31, 32, 33, 61, 63]),
                1 => 6,
                2 => rng.range(8, 20) as usize,
                _ => rng.below(64) as usize,
            };
            let v = if w == 0 {
                0
            } else {
                match rng.below(4) {
                    0 => 0,
                    1 => (1u64 << w) - 1,
                    2 => 1u64 << (w - 1),
                    _ => rng.next() & ((1u64 << w) - 1),
                }
            };
            pushes.push((w, v));
        }
        let total: usize = pushes.iter().map(|p| p.0).sum();
        let padded = (total + 7) / 8 * 8;
        let mut loads: Vec<(usize, usize)> = vec![(0, 0), (padded, 0), (padded + 9, 0), (total, 1), (padded, 1), (padded.saturating_sub(1), 1), (padded.saturating_sub(1), 2), (padded.saturating_sub(8), 8), (padded.saturating_sub(8), 9)];
        let mut off = 0;
        for (w, _) in &pushes {
            loads.push((off, *w));
            off += w;
        }
        for _ in 0..12 {
            let w = *rng.pick(&[1usize, 5, 6, 8, 13, 32, 33, 57, 63, 64]);
            loads.push((rng.below(padded as u64 + 4) as usize, w));
        }
        ba_case(rec, pushes, loads);
    }
    // ---- stream 21: SampledArray -----------------------------------------------------------------
    let n21 = if args.thorough { 500 } else { 100 };
    for i in 0..n21 {
        if !rec.wants() {
            rec.skip();
            continue;
        }
        let mut rng = Rng::for_case(args.seed, 21, i);
        let k = match rng.below(5) {
            0 => 1,
            1 => *rng.pick(&[127usize, 128, 129, 256, 257]),
            _ => rng.range(1, 60) as usize,
        };
        let (gap_kind, kind): (u64, &str) = match rng.below(4) {
            0 => (0, "dense"),
            1 => (1, "stride-64"),
            2 => (2, "around-128"),
            _ => (3, "random-gaps"),
        };
        let vmax: u64 = *rng.pick(&[1u64, 2, 255, 256, 65535, 1 << 20, (1 << 32) - 1, 1 << 32, 1 << 45]);
        let mut off = match rng.below(3) {
            0 => 0usize,
            1 => rng.below(5) as usize,
            _ => rng.below(300) as usize,
        };
        let mut vals: Vec<(usize, usize)> = vec![];
        for j in 0..k {
            let v = match rng.below(5) {
                0 => 0,
                1 => vmax,
                2 => vmax / 2,
                _ => rng.below(vmax + 1),
            } as usize;
            vals.push((off, v));
            off += match gap_kind {
                0 => 1,
                1 => 64,
                2 => *rng.pick(&[1usize, 127, 128, 129]),
                _ => rng.range(1, 40) as usize,
            };
            let _ = j;
        }
        sarr_case(rec, &mut rng, vals, kind);
    }
    // ---- stream 22: sampled suffix array, every stride 2^0 .. 2^6 ---------------------------------
    let n22 = if args.thorough { 700 } else { 140 };
    for i in 0..n22 {
        if !rec.wants() {
            rec.skip();
            continue;
        }
        let mut rng = Rng::for_case(args.seed, 22, i);
        let sampling = if i < 14 { (i % 7) as usize } else { *rng.pick(&[0usize, 1, 2, 3, 4, 5, 6, 6]) };
        let stride = 1usize << sampling;
        // text lengths: n + 1 suffixes; the last suffix sits at position n: make n and n + 1 hit the
        // multiples of the stride, and the tiny cases
        let n = if i < 14 {
            1 + (i / 7) as usize
        } else {
            match rng.below(6) {
                0 => (stride * rng.range(1, 3) as usize).max(1),
                1 => (stride * rng.range(1, 3) as usize + 1).max(1),
                2 => (stride * rng.range(1, 3) as usize).saturating_sub(1).max(1),
                3 => rng.range(1, 12) as usize,
                _ => rng.range(2, 150) as usize,
            }
        };
        let k = *rng.pick(&[1usize, 2, 2, 3, 4, 7]);
        let shape_kind = rng.below(8);
        let (text, _alphabet, _absent, shape, _alpha) = make_text(&mut rng, n, k.min(n), shape_kind);
        ssa_case(rec, sampling, text, shape);
    }
    // ---- stream 23: sampled inverse suffix array ---------------------------------------------------
    let n23 = if args.thorough { 500 } else { 100 };
    for i in 0..n23 {
        if !rec.wants() {
            rec.skip();
            continue;
        }
        let mut rng = Rng::for_case(args.seed, 23, i);
        let n = if rng.chance(1, 4) { rng.range(120, 140) } else { rng.range(1, 70) } as usize;
        let k = *rng.pick(&[1usize, 2, 3, 5]);
        let shape_kind = rng.below(8);
        let (text, _alphabet, _absent, _shape, _alpha) = make_text(&mut rng, n, k.min(n), shape_kind);
        let (mut ps, _) = gen_boundaries(&mut rng, n);
        let kind = match rng.below(8) {
            0 => {
                // the end marker's own position is a legal sample
                ps.push(n);
                "with-end-marker"
            }
            1 => {
                ps.push(n + 1 + rng.below(2) as usize);
                "beyond-text"
            }
            2 => {
                let j = rng.below(ps.len() as u64) as usize;
                let d = ps[j];
                ps.insert(j, d);
                "duplicate"
            }
            3 if ps.len() >= 2 => {
                let l = ps.len();
                ps.swap(l - 1, l - 2);
                "not-increasing"
            }
            4 => {
                ps = vec![rng.below(n as u64 + 1) as usize];
                "single"
            }
            5 => {
                ps.remove(0);
                if ps.is_empty() {
                    ps.push(n / 2);
                }
                "not-from-zero"
            }
            _ => "record-boundaries",
        };
        sisa_case(rec, text, ps, kind);
    }
    // ---- stream 24: the alphabet ---------------------------------------------------------------------
    let n24 = if args.thorough { 600 } else { 120 };
    for i in 0..n24 {
        if !rec.wants() {
            rec.skip();
            continue;
        }
        let mut rng = Rng::for_case(args.seed, 24, i);
        // directed: code points at the powers of two the dense count table is resized at, alone and
        // after a smaller one; then generated alphabets
        let directed: [&[u32]; 12] = [&[256], &[255], &[257], &[0], &[512, 3], &[3, 512], &[1 << 20], &[(1 << 20) + 1], &[(1 << 20) - 1, 1 << 20, (1 << 20) + 1], &[65536, 65535], &[1024, 2048, 4096], &[u32::MAX, 0]];
        let (text, alpha): (Vec<u32>, &str) = if (i as usize) < directed.len() {
            let a = directed[i as usize];
            let n = a.len() + rng.below(4) as usize;
            ((0..n).map(|j| a[j % a.len()]).collect(), "directed-power-of-two")
        } else {
            let n = if rng.chance(1, 5) { rng.range(60, 300) } else { rng.range(1, 40) } as usize;
            let k = match rng.below(5) {
                0 => 1,
                1 => 2,
                2 => rng.range(3, 16) as usize,
                3 => rng.range(17, 300) as usize,
                _ => rng.range(2, 8) as usize,
            }
            .min(n);
            let (alphabet, alpha) = if rng.chance(1, 4) {
                // powers of two and their neighbours
                let mut p: Vec<u32> = (0..=31u32).flat_map(|e| [(1u32 << e).wrapping_sub(1), 1u32 << e, (1u32 << e) + 1]).collect();
                p.sort();
                p.dedup();
                rng.shuffle(&mut p);
                p.truncate(k);
                (p, "powers-of-two")
            } else {
                gen_alphabet(&mut rng, k)
            };
            let kk = alphabet.len();
            let sk = rng.below(8);
            let (shape, _) = gen_shape(&mut rng, sk, n, kk);
            (shape.iter().map(|&j| alphabet[j.min(kk - 1)]).collect(), alpha)
        };
        let mut probes = distinct(&text);
        let base = probes.clone();
        for t in base {
            probes.push(t.wrapping_add(1));
            probes.push(t.wrapping_sub(1));
        }
        probes.extend_from_slice(&[0, 1, 255, 256, 1 << 20, (1 << 20) + 1, u32::MAX]);
        probes.sort();
        probes.dedup();
        if probes.len() > 60 {
            rng.shuffle(&mut probes);
            probes.truncate(60);
        }
        sigma_case(rec, text, probes, alpha);
    }
    // ---- stream 25: the Huffman-shaped wavelet tree ---------------------------------------------------
    let n25 = if args.thorough { 600 } else { 120 };
    for i in 0..n25 {
        if !rec.wants() {
            rec.skip();
            continue;
        }
        let mut rng = Rng::for_case(args.seed, 25, i);
        let n = match i {
            0 => 0,
            1 => 1,
            2 => 2,
            _ => match rng.below(6) {
                0 => *rng.pick(&[62usize, 63, 64, 126, 127, 504, 505]),
                1 => rng.range(100, 300) as usize,
                _ => rng.range(1, 60) as usize,
            },
        };
        let k = match rng.below(6) {
            0 => 1,
            1 => 2,
            2 => 3,
            3 => rng.range(4, 9) as usize,
            4 => rng.range(9, 40) as usize,
            _ => rng.range(2, 5) as usize,
        }
        .min(n.max(1));
        // dense small symbols (as the psi rows have), sometimes skewed so that the code lengths differ
        let shape_kind = rng.below(9);
        let (shape, sname): (Vec<usize>, &str) = if n == 0 {
            (vec![], "empty")
        } else if shape_kind == 8 {
            // geometric: symbol j with weight 2^-j
            ((0..n).map(|_| { let mut j = 0; while j + 1 < k && rng.chance(1, 2) { j += 1; } j }).collect(), "geometric")
        } else {
            gen_shape(&mut rng, shape_kind, n, k)
        };
        let base = *rng.pick(&[0u32, 0, 1, 7, 1000, 1 << 20, 5_000_000]);
        let step = *rng.pick(&[1u32, 1, 3]);
        let text: Vec<u32> = shape.iter().map(|&j| base + step * j as u32).collect();
        let mut qs = distinct(&text);
        if qs.len() > 8 {
            rng.shuffle(&mut qs);
            qs.truncate(8);
        }
        // a symbol of the alphabet range that does not occur, and one outside
        qs.push(base + step * k as u32 + 1);
        if step > 1 {
            qs.push(base + 1);
        }
        qs.sort();
        qs.dedup();
        wt_case(rec, text, qs, sname);
    }
    // ---- stream 26: the wavelet-tree psi, every column x every closed interval --------------------------
    let n26 = if args.thorough { 500 } else { 90 };
    for i in 0..n26 {
        if !rec.wants() {
            rec.skip();
            continue;
        }
        let mut rng = Rng::for_case(args.seed, 26, i);
        let n = match i {
            0..=5 => 1 + (i as usize) / 2,
            _ => rng.range(2, 14) as usize,
        };
        let k = if i < 6 { 1 + (i as usize % 2) } else { *rng.pick(&[1usize, 2, 2, 3, 3, 4, 6]) };
        let shape_kind = if i < 6 { 3 } else { rng.below(8) };
        let (text, _alphabet, _absent, shape, _alpha) = make_text(&mut rng, n, k.min(n), shape_kind);
        wtpsi_case(rec, text, shape);
    }
    // ---- stream 27: the Huffman construction on tie-heavy and deep frequency tables ---------------------
    // directed tables first (fixed, the seed only picks symbol names and the order of the weights),
    // then random small weights
    let mut tables: Vec<(Vec<u64>, &'static str)> = vec![];
    for w in [1u64, 5, 1000] {
        tables.push((vec![w], "single"));
    }
    for (a, b) in [(1u64, 1u64), (1, 7), (7, 1), (1000, 1), (3, 3)] {
        tables.push((vec![a, b], "two"));
    }
    for k in 2..=40usize {
        tables.push((vec![1 + (k as u64 % 3); k], "all-equal"));
    }
    let fib = |k: usize| -> Vec<u64> {
        let mut v = vec![1u64, 1];
        while v.len() < k {
            let n = v.len();
            v.push(v[n - 1] + v[n - 2]);
        }
        v
    };
    for k in 2..=24usize {
        tables.push((fib(k), "fibonacci"));
    }
    for k in 3..=20usize {
        let mut v = fib(k);
        v.reverse();
        tables.push((v, "fibonacci-descending"));
        tables.push((fib(k), "fibonacci-shuffled"));
    }
    for k in 2..=16usize {
        tables.push(((0..k).map(|j| 1u64 << j).collect(), "powers-of-two"));
        // 1,1,2,4,…: every merge ties with the next weight
        tables.push((std::iter::once(1u64).chain((0..k - 1).map(|j| 1u64 << j)).collect(), "powers-of-two-complete"));
    }
    for k in 3..=12usize {
        tables.push(((0..k).map(|j| 1u64 << j).collect(), "powers-of-two-shuffled"));
        tables.push((std::iter::once(1u64).chain((0..k - 1).map(|j| 1u64 << j)).collect(), "powers-of-two-complete-shuffled"));
    }
    for a in 2..=9usize {
        for b in [1usize, 2, 3, 5, 8] {
            // `a` symbols of weight w and `b` of weight 2w: the merged pairs tie with the second level
            tables.push((vec![], if (a + b) % 2 == 0 { "two-level" } else { "two-level-shuffled" }));
            let w = 1 + ((a + b) % 3) as u64;
            let mut v = vec![w; a];
            v.extend(vec![2 * w; b]);
            tables.last_mut().unwrap().0 = v;
        }
    }
    let ndirected = tables.len() as u64;
    let n27 = ndirected + if args.thorough { 1500 } else { 300 };
    for i in 0..n27 {
        if !rec.wants() {
            rec.skip();
            continue;
        }
        let mut rng = Rng::for_case(args.seed, 27, i);
        let (mut ws, family): (Vec<u64>, &str) = if i < ndirected {
            tables[i as usize].clone()
        } else {
            let k = rng.range(3, 30) as usize;
            let top = *rng.pick(&[2u64, 3, 4, 4]);
            ((0..k).map(|_| rng.range(1, top)).collect(), "random-small")
        };
        if family.ends_with("-shuffled") {
            rng.shuffle(&mut ws);
        }
        // symbol names: dense from 0 (the dense frequency table), offset / strided, or far apart (the
        // hash-map frequency table)
        let base = *rng.pick(&[0u32, 0, 1, 7, 1000, 1 << 20, 5_000_000]);
        let step = *rng.pick(&[1u32, 1, 3, 100_000]);
        let freqs: Vec<(u32, u64)> = ws.iter().enumerate().map(|(j, w)| (base + step * j as u32, *w)).collect();
        huff_case(rec, freqs, family);
    }
}

pub fn run(args: &Args) {
    let mut rec = Recorder::new(&args.out, args.only_case);
    let t0 = std::time::Instant::now();
    run_bv(args, &mut rec);
    let t1 = std::time::Instant::now();
    run_docs(args, &mut rec);
    let t2 = std::time::Instant::now();
    run_sampled(args, &mut rec);
    eprintln!("C19 harness: bv {:.1}s, doc {:.1}s, sampled {:.1}s", (t1 - t0).as_secs_f64(), (t2 - t1).as_secs_f64(), t2.elapsed().as_secs_f64());
    rec.finish(
        "bv: seeded bit patterns (all-zeros, all-ones, alternating, runs of length B-1/B/B+1 for the block sizes B of the implementations, single bits at block boundaries, stripes, random densities 1/2..1/1000, random runs) of length 0..70 exhaustively, around every block size, and up to 6000 (quick) / 70000 (thorough) bits, asked at every argument (small) or at 36-40 boundary+random arguments (large), through seven implementations each parsed twice; doc: texts (single symbol, all-equal, periodic, de Bruijn, Fibonacci/Thue-Morse, monotone, one-off, repeats, random) over alphabets of 1..3000 (thorough: >65536) code points incl. 0, 2^20+-1, 0x10FFFF, 0x110000, 2^32-1, with records at every admissible kind of division; patterns exhaustive up to length 3-4 over alphabet+absent symbol for n<=14, sampled (substrings, boundary-crossing, perturbed, absent, whole text, longer than text, empty) otherwise; plus inadmissible divisions and the empty text; non-trivial = a non-empty bit vector; a document of >= 2 symbols with >= 1 non-empty pattern; every big/rejected case; huff: frequency tables (single symbol, two symbols, all weights equal over 2..40 symbols, Fibonacci weights over 2..24 symbols ascending / descending / shuffled, powers of two with and without the doubled unit, two-level ties, random weights 1..4 over 3..30 symbols) under dense, strided and far-apart symbol names, the real HuffmanEncoder built over a row with exactly those multiplicities; non-trivial = at least 3 symbols with a merge at which the two lightest weights are equal or the second lightest is not unique, or a code word of 8 or more bits; distinct by request text",
        &[],
    );
}
