//! C09 — damage to persistent files is detected or harmless, never silent, never a panic, never an
//! unbounded allocation.
//!
//! Pristine files are built with the REAL code (SstBuilder, LogBuilder, Manifest::apply); every
//! damaged variant (every single-bit flip at every offset, every truncation length, byte
//! overwrites, appended suffixes, short sequences of those) is read back with the REAL code
//!   sst  : `Sst::new`, cursor walk forward and backward, `load` of every key at several timestamps,
//!          `metadata()`
//!   log  : `LogIterator` drain, `log_to_builder` into a real `SstBuilder`, `log_to_setsum`
//!   mani : `ManifestIterator` drain, `Manifest::open` of a directory holding the damaged MANIFEST
//! inside a CHILD process (`blueharness C09child …`) that runs under `RLIMIT_AS` = 2 GiB, reports one
//! result line per job as it goes and records the largest single allocation request of every job.
//! A child that dies is restarted after the job it died in, which is recorded as `abort-or-oom`
//! (self-test of that path: `BLUE_C09_ABORT_AT=<job index>` makes the child abort at that job).
//! A store-level stream without model instance (`#` request lines, oracle only) writes and closes a
//! real `KeyValueStore`, damages its write-ahead log and runs `KeyValueStore::open` on a copy of the
//! directory (the call site of D-3: open -> recover_one -> log_to_builder).
//!
//! Model instance token `dmg`:
//!   `dmg file <kind> <id> <hex> <probes|->`   the pristine file (answer: what is read from it, in full)
//!   `dmg d <id> <damage>`                     the most recent file, damaged (answer hashed)
//!   `dmg one <kind> <hex> <probes|-> <f|h> <damage|->`   self-contained form (replay of one case)
//! damage ::= op{+op};  op ::= f<off>.<bit> | o<off>.<byte hex> | t<len> | a<hex>
use crate::common::*;
use arrrg::CommandLine;
use mani::{Edit, Manifest, ManifestIterator, ManifestOptions};
use sst::log::{log_to_builder, log_to_setsum, LogBuilder, LogIterator, LogOptions, WriteBatch};
use sst::{Builder, Cursor, Setsum, Sst, SstBuilder, SstOptions};
use std::alloc::{GlobalAlloc, Layout, System};
use std::collections::{BTreeMap, BTreeSet};
use std::io::{BufRead, Write as _};
use std::panic::AssertUnwindSafe as Aus;
use std::path::{Path, PathBuf};
use std::sync::atomic::{AtomicBool, AtomicUsize, Ordering};

type Handle = sst::file_manager::FileHandle;

// ---------------------------------------------------------------------------------------------
// allocation observer: armed in the C09 child only; records the largest single request

pub struct Watch;
static ARMED: AtomicBool = AtomicBool::new(false);
static MAXREQ: AtomicUsize = AtomicUsize::new(0);

unsafe impl GlobalAlloc for Watch {
    unsafe fn alloc(&self, l: Layout) -> *mut u8 {
        if ARMED.load(Ordering::Relaxed) {
            MAXREQ.fetch_max(l.size(), Ordering::Relaxed);
        }
        System.alloc(l)
    }
    unsafe fn dealloc(&self, p: *mut u8, l: Layout) {
        System.dealloc(p, l)
    }
    unsafe fn alloc_zeroed(&self, l: Layout) -> *mut u8 {
        if ARMED.load(Ordering::Relaxed) {
            MAXREQ.fetch_max(l.size(), Ordering::Relaxed);
        }
        System.alloc_zeroed(l)
    }
    unsafe fn realloc(&self, p: *mut u8, l: Layout, n: usize) -> *mut u8 {
        if ARMED.load(Ordering::Relaxed) {
            MAXREQ.fetch_max(n, Ordering::Relaxed);
        }
        System.realloc(p, l, n)
    }
}

#[global_allocator]
static GLOBAL: Watch = Watch;

/// allocations a reader may make whatever the file holds (buffers sized by options) plus a
/// multiple of the file's own length
fn alloc_bound(file_len: usize) -> usize {
    (1 << 20) + 8 * file_len
}

// ---------------------------------------------------------------------------------------------
// damage

#[derive(Clone, Debug, PartialEq, Eq)]
enum Dmg {
    Flip(usize, u8),
    Over(usize, u8),
    Trunc(usize),
    App(Vec<u8>),
}

fn apply(bytes: &mut Vec<u8>, d: &Dmg) {
    match d {
        Dmg::Flip(o, b) => {
            if *o < bytes.len() {
                bytes[*o] ^= 1 << b;
            }
        }
        Dmg::Over(o, v) => {
            if *o < bytes.len() {
                bytes[*o] = *v;
            }
        }
        Dmg::Trunc(n) => {
            if *n < bytes.len() {
                bytes.truncate(*n);
            }
        }
        Dmg::App(s) => bytes.extend_from_slice(s),
    }
}

fn damaged(bytes: &[u8], ds: &[Dmg]) -> Vec<u8> {
    let mut b = bytes.to_vec();
    for d in ds {
        apply(&mut b, d);
    }
    b
}

fn dmg_tok(d: &Dmg) -> String {
    match d {
        Dmg::Flip(o, b) => format!("f{}.{}", o, b),
        Dmg::Over(o, v) => format!("o{}.{:02x}", o, v),
        Dmg::Trunc(n) => format!("t{}", n),
        Dmg::App(s) => format!("a{}", hex(s)),
    }
}

fn seq_tok(ds: &[Dmg]) -> String {
    if ds.is_empty() {
        "-".into()
    } else {
        ds.iter().map(dmg_tok).collect::<Vec<_>>().join("+")
    }
}

fn parse_dmg(t: &str) -> Option<Dmg> {
    let (h, r) = t.split_at(1);
    match h {
        "f" => {
            let (a, b) = r.split_once('.')?;
            Some(Dmg::Flip(a.parse().ok()?, b.parse().ok()?))
        }
        "o" => {
            let (a, b) = r.split_once('.')?;
            Some(Dmg::Over(a.parse().ok()?, u8::from_str_radix(b, 16).ok()?))
        }
        "t" => Some(Dmg::Trunc(r.parse().ok()?)),
        "a" => Some(Dmg::App(unhex(r)?)),
        _ => None,
    }
}

fn parse_seq(t: &str) -> Option<Vec<Dmg>> {
    if t == "-" {
        return Some(vec![]);
    }
    t.split('+').map(parse_dmg).collect()
}

// ---------------------------------------------------------------------------------------------
// entries and rendering

#[derive(Clone, Debug, PartialEq, Eq, PartialOrd, Ord)]
struct Ent {
    key: Vec<u8>,
    ts: u64,
    val: Option<Vec<u8>>,
}

fn ent_str(e: &Ent) -> String {
    match &e.val {
        Some(v) => format!("{}@{}={}", hex(&e.key), e.ts, hex(v)),
        None => format!("{}@{}!", hex(&e.key), e.ts),
    }
}

#[derive(Clone, Debug, PartialEq, Eq)]
enum End {
    End,
    Err(String),
    Panic(String),
}

impl End {
    fn tok(&self, with_code: bool) -> String {
        match self {
            End::End => "end".into(),
            End::Err(c) => {
                if with_code {
                    format!("E:{}", c)
                } else {
                    "E".into()
                }
            }
            End::Panic(_) => "panic".into(),
        }
    }
}

/// a list of rendered items and how the reading ended: in full, or as count + FNV-1a of the list
fn sect(items: &[String], end: &str, full: bool) -> String {
    let joined = items.join(",");
    if full {
        format!("[{}]:{}", joined, end)
    } else {
        format!("{}:{:016x}:{}", items.len(), fnv(joined.as_bytes()), end)
    }
}

fn ents_sect(es: &[Ent], end: &str, full: bool) -> String {
    let items: Vec<String> = es.iter().map(ent_str).collect();
    sect(&items, end, full)
}

fn scode(e: &sst::SError) -> String {
    sst::error_code(e).unwrap_or("unknown").to_string()
}

fn mcode(e: &sst::SError) -> String {
    mani::error_code(e).unwrap_or("other").to_string()
}

// ---------------------------------------------------------------------------------------------
// SST: observation of one (possibly damaged) file through the real code

#[derive(Clone, Debug, PartialEq, Eq)]
struct Meta {
    setsum: [u8; 32],
    first: Vec<u8>,
    last: Vec<u8>,
    smallest: u64,
    biggest: u64,
    file_size: u64,
}

#[derive(Clone, Debug, PartialEq, Eq)]
enum LoadRes {
    Val(Vec<u8>),
    Tomb,
    Absent,
    Err(String),
    Panic(String),
}

impl LoadRes {
    fn tok(&self) -> String {
        match self {
            LoadRes::Val(v) => format!("v{}", hex(v)),
            LoadRes::Tomb => "T".into(),
            LoadRes::Absent => "N".into(),
            LoadRes::Err(c) => format!("E:{}", c),
            LoadRes::Panic(_) => "panic".into(),
        }
    }
}

#[derive(Clone, Debug)]
struct SstObs {
    open: End,
    fwd: (Vec<Ent>, End),
    bwd: (Vec<Ent>, End),
    loads: Vec<LoadRes>,
    meta: Result<Meta, End>,
}

fn cur_ent<C: Cursor>(c: &C) -> Option<Ent> {
    c.key_value().map(|kvr| Ent { key: kvr.key.to_vec(), ts: kvr.timestamp, val: kvr.value.map(|v| v.to_vec()) })
}

/// one guarded cursor call
fn step<C: Cursor>(c: &mut C, f: impl FnOnce(&mut C) -> Result<(), sst::SError>) -> End {
    match guarded(Aus(|| f(c))) {
        Ok(Ok(())) => End::End,
        Ok(Err(e)) => End::Err(scode(&e)),
        Err(m) => End::Panic(m),
    }
}

const WALK_CAP: usize = 200_000;

fn observe_sst(path: &Path, probes: &[(Vec<u8>, u64)]) -> SstObs {
    let mut obs = SstObs { open: End::End, fwd: (vec![], End::End), bwd: (vec![], End::End), loads: vec![], meta: Err(End::End) };
    let table = match guarded(Aus(|| Sst::<Handle>::new(SstOptions::default(), path))) {
        Ok(Ok(t)) => t,
        Ok(Err(e)) => {
            obs.open = End::Err(scode(&e));
            return obs;
        }
        Err(m) => {
            obs.open = End::Panic(m);
            return obs;
        }
    };
    // forward
    {
        let mut c = table.cursor();
        let mut end = step(&mut c, |c| c.seek_to_first());
        while end == End::End && obs.fwd.0.len() < WALK_CAP {
            end = step(&mut c, |c| c.next());
            if end != End::End {
                break;
            }
            match guarded(Aus(|| cur_ent(&c))) {
                Ok(Some(e)) => obs.fwd.0.push(e),
                Ok(None) => break,
                Err(m) => end = End::Panic(m),
            }
        }
        obs.fwd.1 = end;
    }
    // backward
    {
        let mut c = table.cursor();
        let mut end = step(&mut c, |c| c.seek_to_last());
        while end == End::End && obs.bwd.0.len() < WALK_CAP {
            end = step(&mut c, |c| c.prev());
            if end != End::End {
                break;
            }
            match guarded(Aus(|| cur_ent(&c))) {
                Ok(Some(e)) => obs.bwd.0.push(e),
                Ok(None) => break,
                Err(m) => end = End::Panic(m),
            }
        }
        obs.bwd.1 = end;
    }
    // point reads
    for (k, ts) in probes {
        let r = guarded(Aus(|| {
            let mut tomb = false;
            table.load(k, *ts, &mut tomb).map(|v| (v, tomb))
        }));
        obs.loads.push(match r {
            Ok(Ok((Some(v), _))) => LoadRes::Val(v),
            Ok(Ok((None, true))) => LoadRes::Tomb,
            Ok(Ok((None, false))) => LoadRes::Absent,
            Ok(Err(e)) => LoadRes::Err(scode(&e)),
            Err(m) => LoadRes::Panic(m),
        });
    }
    // metadata
    obs.meta = match guarded(Aus(|| table.metadata())) {
        Ok(Ok(m)) => Ok(Meta { setsum: m.setsum, first: m.first_key, last: m.last_key, smallest: m.smallest_timestamp, biggest: m.biggest_timestamp, file_size: m.file_size }),
        Ok(Err(e)) => Err(End::Err(scode(&e))),
        Err(m) => Err(End::Panic(m)),
    };
    obs
}

fn meta_str(m: &Meta) -> String {
    format!("{}/{}/{}/{}/{}/{}", hex(&m.setsum), hex(&m.first), hex(&m.last), m.smallest, m.biggest, m.file_size)
}

fn render_sst(o: &SstObs, full: bool) -> String {
    if o.open != End::End {
        return format!("open={}", o.open.tok(true));
    }
    let loads: Vec<String> = o.loads.iter().map(|l| l.tok()).collect();
    format!(
        "open=ok fwd={} bwd={} loads={} meta={}",
        ents_sect(&o.fwd.0, &o.fwd.1.tok(true), full),
        ents_sect(&o.bwd.0, &o.bwd.1.tok(true), full),
        sect(&loads, "end", full),
        match &o.meta {
            Ok(m) => meta_str(m),
            Err(e) => e.tok(true),
        }
    )
}

fn is_prefix<T: PartialEq>(a: &[T], b: &[T]) -> bool {
    a.len() <= b.len() && a == &b[..a.len()]
}

/// (class, detail) of a damaged SST's observation against the pristine one
fn classify_sst(o: &SstObs, p: &SstObs) -> (String, String) {
    let mut panics = vec![];
    if let End::Panic(m) = &o.open {
        panics.push(format!("Sst::new: {}", m));
    }
    if let End::Panic(m) = &o.fwd.1 {
        panics.push(format!("next: {}", m));
    }
    if let End::Panic(m) = &o.bwd.1 {
        panics.push(format!("prev: {}", m));
    }
    for l in &o.loads {
        if let LoadRes::Panic(m) = l {
            panics.push(format!("load: {}", m));
        }
    }
    if let Err(End::Panic(m)) = &o.meta {
        panics.push(format!("metadata: {}", m));
    }
    if !panics.is_empty() {
        return ("panic".into(), panics[0].clone());
    }
    if let End::Err(c) = &o.open {
        return ("err".into(), c.clone());
    }
    let mut errs = 0;
    let mut diffs: Vec<String> = vec![];
    match &o.fwd.1 {
        End::End => {
            if o.fwd.0 != p.fwd.0 {
                diffs.push("forward-walk".into());
            }
        }
        _ => {
            errs += 1;
            if !is_prefix(&o.fwd.0, &p.fwd.0) {
                diffs.push("forward-walk-before-error".into());
            }
        }
    }
    match &o.bwd.1 {
        End::End => {
            if o.bwd.0 != p.bwd.0 {
                diffs.push("backward-walk".into());
            }
        }
        _ => {
            errs += 1;
            if !is_prefix(&o.bwd.0, &p.bwd.0) {
                diffs.push("backward-walk-before-error".into());
            }
        }
    }
    for (i, l) in o.loads.iter().enumerate() {
        match l {
            LoadRes::Err(_) => errs += 1,
            l => {
                if Some(l) != p.loads.get(i) {
                    diffs.push(format!("load#{}", i));
                }
            }
        }
    }
    let mut metaf: Vec<&str> = vec![];
    let mut resized = false;
    match (&o.meta, &p.meta) {
        (Ok(m), Ok(q)) => {
            if m.first != q.first {
                diffs.push("metadata.first_key".into());
            }
            if m.last != q.last {
                diffs.push("metadata.last_key".into());
            }
            if m.setsum != q.setsum {
                metaf.push("setsum");
            }
            if m.smallest != q.smallest {
                metaf.push("smallest_timestamp");
            }
            if m.biggest != q.biggest {
                metaf.push("biggest_timestamp");
            }
            if m.file_size != q.file_size {
                resized = true;
            }
        }
        (Err(_), _) => errs += 1,
        (Ok(_), Err(_)) => diffs.push("metadata-where-pristine-had-none".into()),
    }
    if !diffs.is_empty() {
        diffs.truncate(4);
        return ("different".into(), diffs.join(","));
    }
    if !metaf.is_empty() {
        return ("meta-different".into(), metaf.join(","));
    }
    if errs > 0 {
        return ("err-partial".into(), format!("{} reads failed", errs));
    }
    if resized {
        return ("same-resized".into(), String::new());
    }
    ("same".into(), String::new())
}

// ---------------------------------------------------------------------------------------------
// log

#[derive(Clone, Debug)]
struct LogObs {
    drain: (Vec<Ent>, End),
    /// `log_to_builder` into a real SstBuilder: the entries of the table it sealed
    builder: Result<Option<Vec<Ent>>, End>,
    setsum: Result<[u8; 32], End>,
}

fn log_opts() -> LogOptions {
    LogOptions::from_arguments_relaxed("c09", &["--read-buffer", "4096"]).0
}

fn small_sst_opts() -> SstOptions {
    SstOptions::from_arguments_relaxed("c09", &["--write-buffer-size", "4096"]).0
}

fn observe_log(path: &Path, scratch: &Path) -> LogObs {
    let mut obs = LogObs { drain: (vec![], End::End), builder: Ok(None), setsum: Err(End::End) };
    // drain
    let r = guarded(Aus(|| -> (Vec<Ent>, End) {
        let mut out = vec![];
        let mut it = match LogIterator::new(log_opts(), path) {
            Ok(it) => it,
            Err(e) => return (out, End::Err(scode(&e))),
        };
        loop {
            match it.next() {
                Ok(Some(kvr)) => out.push(Ent { key: kvr.key.to_vec(), ts: kvr.timestamp, val: kvr.value.map(|v| v.to_vec()) }),
                Ok(None) => return (out, End::End),
                Err(e) => return (out, End::Err(scode(&e))),
            }
            if out.len() > WALK_CAP {
                return (out, End::Err("harness-cap".into()));
            }
        }
    }));
    obs.drain = match r {
        Ok(x) => x,
        Err(m) => (vec![], End::Panic(m)),
    };
    // replay into a builder, as KeyValueStore::open does
    let out = scratch.join("replay.sst");
    let _ = std::fs::remove_file(&out);
    let r = guarded(Aus(|| -> Result<Option<Vec<Ent>>, End> {
        let b = SstBuilder::new(small_sst_opts(), &out).map_err(|e| End::Err(format!("builder-new:{}", scode(&e))))?;
        match log_to_builder(log_opts(), path, b) {
            Ok(None) => Ok(None),
            Ok(Some(t)) => {
                let mut es = vec![];
                let mut c = t.cursor();
                c.seek_to_first().map_err(|e| End::Err(scode(&e)))?;
                loop {
                    c.next().map_err(|e| End::Err(scode(&e)))?;
                    match cur_ent(&c) {
                        Some(e) => es.push(e),
                        None => break,
                    }
                }
                Ok(Some(es))
            }
            Err(e) => Err(End::Err(scode(&e))),
        }
    }));
    obs.builder = match r {
        Ok(x) => x,
        Err(m) => Err(End::Panic(m)),
    };
    let _ = std::fs::remove_file(&out);
    obs.setsum = match guarded(Aus(|| log_to_setsum(log_opts(), path))) {
        Ok(Ok(s)) => Ok(s.digest()),
        Ok(Err(e)) => Err(End::Err(scode(&e))),
        Err(m) => Err(End::Panic(m)),
    };
    obs
}

fn render_log(o: &LogObs, full: bool) -> String {
    format!(
        "drain={} builder={} setsum={}",
        ents_sect(&o.drain.0, &o.drain.1.tok(false), full),
        match &o.builder {
            Ok(None) => "none".to_string(),
            Ok(Some(es)) => ents_sect(es, "end", full),
            Err(e) => e.tok(false),
        },
        match &o.setsum {
            Ok(_) => "ok".to_string(),
            Err(e) => e.tok(false),
        }
    )
}

fn sort_replay(es: &[Ent]) -> Vec<Ent> {
    let mut v = es.to_vec();
    v.sort_by(|a, b| a.key.cmp(&b.key).then(b.ts.cmp(&a.ts)));
    v
}

fn setsum_of(es: &[Ent]) -> [u8; 32] {
    let mut s = Setsum::default();
    for e in es {
        match &e.val {
            Some(v) => s.put(&e.key, e.ts, v),
            None => s.del(&e.key, e.ts),
        }
    }
    s.digest()
}

/// `batch_ends[i]` = number of entries in the first `i + 1` batches of the pristine log
fn classify_log(o: &LogObs, p: &LogObs, batch_ends: &[usize], truncated: bool) -> (String, String) {
    if let End::Panic(m) = &o.drain.1 {
        return ("panic".into(), format!("LogIterator: {}", m));
    }
    let drain_err = o.drain.1 != End::End;
    let mut later_panics = vec![];
    if let Err(End::Panic(m)) = &o.builder {
        later_panics.push(format!("log_to_builder: {}", m));
    }
    if let Err(End::Panic(m)) = &o.setsum {
        later_panics.push(format!("log_to_setsum: {}", m));
    }
    if !later_panics.is_empty() {
        let cls = if drain_err { "panic-replay-after-reader-error" } else { "panic" };
        return (cls.into(), later_panics.join("; "));
    }
    let n = o.drain.0.len();
    let at_batch_end = n == 0 || batch_ends.contains(&n);
    let mut diffs: Vec<String> = vec![];
    let mut proper_prefix = false;
    if !is_prefix(&o.drain.0, &p.drain.0) {
        diffs.push("drain".into());
    } else if !drain_err && n < p.drain.0.len() {
        if at_batch_end && truncated {
            proper_prefix = true;
        } else {
            diffs.push(format!("drain-delivers-{}-of-{}-without-error", n, p.drain.0.len()));
        }
    }
    let want: Vec<Ent> = sort_replay(&o.drain.0);
    match &o.builder {
        Ok(None) => {
            if drain_err || n != 0 {
                diffs.push("builder-none".into());
            }
        }
        Ok(Some(es)) => {
            if drain_err {
                diffs.push("builder-sealed-after-reader-error".into());
            } else if *es != want {
                diffs.push("builder-contents".into());
            }
        }
        Err(_) => {
            if !drain_err {
                diffs.push("builder-error-without-reader-error".into());
            }
        }
    }
    match &o.setsum {
        Ok(s) => {
            if drain_err {
                diffs.push("setsum-after-reader-error".into());
            } else if *s != setsum_of(&o.drain.0) {
                diffs.push("setsum-value".into());
            }
        }
        Err(_) => {
            if !drain_err {
                diffs.push("setsum-error-without-reader-error".into());
            }
        }
    }
    if !diffs.is_empty() {
        return ("different".into(), diffs.join(","));
    }
    if drain_err {
        return ("err".into(), o.drain.1.tok(true));
    }
    if proper_prefix {
        return ("prefix".into(), format!("{} of {} entries", n, p.drain.0.len()));
    }
    ("same".into(), String::new())
}

// ---------------------------------------------------------------------------------------------
// manifest

#[derive(Clone, Debug, PartialEq, Eq, Default)]
struct MEdit {
    rm: Vec<Vec<u8>>,
    add: Vec<Vec<u8>>,
    info: Vec<(Vec<u8>, Vec<u8>)>,
}

#[derive(Clone, Debug, PartialEq, Eq, Default)]
struct MState {
    strs: BTreeSet<Vec<u8>>,
    info: BTreeMap<Vec<u8>, Vec<u8>>,
}

impl MState {
    fn apply(&mut self, e: &MEdit) {
        for s in &e.rm {
            self.strs.remove(s);
        }
        for s in &e.add {
            self.strs.insert(s.clone());
        }
        for (k, v) in &e.info {
            self.info.insert(k.clone(), v.clone());
        }
    }
    fn render(&self) -> String {
        format!(
            "s[{}]i[{}]",
            self.strs.iter().map(|s| hex(s)).collect::<Vec<_>>().join(","),
            self.info.iter().map(|(k, v)| format!("{}={}", hex(k), hex(v))).collect::<Vec<_>>().join(",")
        )
    }
}

fn medit_str(e: &MEdit) -> String {
    format!(
        "e(r:{};a:{};i:{})",
        e.rm.iter().map(|s| hex(s)).collect::<Vec<_>>().join("."),
        e.add.iter().map(|s| hex(s)).collect::<Vec<_>>().join("."),
        e.info.iter().map(|(k, v)| format!("{}={}", hex(k), hex(v))).collect::<Vec<_>>().join(".")
    )
}

fn medit_of(e: &Edit) -> MEdit {
    let mut m = MEdit::default();
    for s in e.rmed() {
        m.rm.push(s.as_bytes().to_vec());
    }
    for s in e.added() {
        m.add.push(s.as_bytes().to_vec());
    }
    for b in 0u8..128 {
        if let Some(v) = e.get_info(b as char) {
            m.info.push((vec![b], v.as_bytes().to_vec()));
        }
    }
    m
}

#[derive(Clone, Debug)]
enum MItem {
    Edit(MEdit),
    Err(String),
}

#[derive(Clone, Debug)]
struct ManiObs {
    iter: Result<Vec<MItem>, End>,
    open: Result<MState, End>,
}

fn mani_opts() -> ManifestOptions {
    ManifestOptions::from_arguments_relaxed("c09", &["--log-rollover-ratio", "1000000"]).0
}

fn observe_mstate(m: &Manifest) -> MState {
    let mut r = MState::default();
    for s in m.strs() {
        r.strs.insert(s.as_bytes().to_vec());
    }
    for b in 0u8..128 {
        if let Some(v) = m.info(b as char) {
            r.info.insert(vec![b], v.as_bytes().to_vec());
        }
    }
    r
}

const ITER_CAP: usize = 100_000;

fn observe_mani(dir: &Path) -> ManiObs {
    let path = dir.join("MANIFEST");
    let iter = guarded(Aus(|| -> Result<Vec<MItem>, End> {
        let it = ManifestIterator::open(&path).map_err(|e| End::Err(mcode(&e)))?;
        let mut items = vec![];
        for x in it {
            match x {
                Ok(e) => items.push(MItem::Edit(medit_of(&e))),
                Err(e) => items.push(MItem::Err(mcode(&e))),
            }
            if items.len() > ITER_CAP {
                return Err(End::Err("harness-cap".into()));
            }
        }
        Ok(items)
    }));
    let iter = match iter {
        Ok(x) => x,
        Err(m) => Err(End::Panic(m)),
    };
    let open = match guarded(Aus(|| Manifest::open(mani_opts(), dir).map(|m| observe_mstate(&m)))) {
        Ok(Ok(s)) => Ok(s),
        Ok(Err(e)) => Err(End::Err(mcode(&e))),
        Err(m) => Err(End::Panic(m)),
    };
    ManiObs { iter, open }
}

fn render_mani(o: &ManiObs, full: bool) -> String {
    let it = match &o.iter {
        Ok(items) => {
            let v: Vec<String> = items
                .iter()
                .map(|i| match i {
                    MItem::Edit(e) => medit_str(e),
                    MItem::Err(c) => format!("E:{}", c),
                })
                .collect();
            sect(&v, "end", full)
        }
        Err(e) => e.tok(true),
    };
    let op = match &o.open {
        Ok(s) => {
            if full {
                s.render()
            } else {
                format!("{:016x}", fnv(s.render().as_bytes()))
            }
        }
        Err(e) => e.tok(true),
    };
    format!("iter={} open={}", it, op)
}

fn classify_mani(o: &ManiObs, pristine_edits: &[MEdit], truncated: bool) -> (String, String) {
    if let Err(End::Panic(m)) = &o.iter {
        return ("panic".into(), format!("ManifestIterator: {}", m));
    }
    if let Err(End::Panic(m)) = &o.open {
        return ("panic".into(), format!("Manifest::open: {}", m));
    }
    let mut diffs: Vec<String> = vec![];
    // the iterator: edits before the first error are a prefix of the pristine edits
    let mut before: Vec<MEdit> = vec![];
    let mut iter_err = false;
    match &o.iter {
        Ok(items) => {
            for i in items {
                match i {
                    MItem::Edit(e) => before.push(e.clone()),
                    MItem::Err(_) => {
                        iter_err = true;
                        break;
                    }
                }
            }
        }
        Err(_) => iter_err = true,
    }
    let mut proper_prefix = false;
    // an appended bare separator is one more, empty, edit: nothing is added, removed or set
    let mut extra_empty = 0;
    while before.len() > pristine_edits.len() && before.last() == Some(&MEdit::default()) {
        before.pop();
        extra_empty += 1;
    }
    if !is_prefix(&before, pristine_edits) {
        diffs.push("iterator-edits".into());
    } else if !iter_err && before.len() < pristine_edits.len() {
        if truncated {
            proper_prefix = true;
        } else {
            diffs.push(format!("iterator-delivers-{}-of-{}-edits-without-error", before.len(), pristine_edits.len()));
        }
    }
    // Manifest::open: an error, or the state the edits read by the iterator give
    match &o.open {
        Ok(s) => {
            if iter_err {
                diffs.push("open-succeeds-where-iterator-fails".into());
            } else {
                let mut want = MState::default();
                for e in &before {
                    want.apply(e);
                }
                if *s != want {
                    diffs.push("open-state".into());
                }
            }
        }
        Err(_) => {
            if !iter_err {
                diffs.push("open-fails-where-iterator-succeeds".into());
            }
        }
    }
    if !diffs.is_empty() {
        return ("different".into(), diffs.join(","));
    }
    if iter_err {
        // the non-ASCII check returns its error without poisoning the iterator: a caller that goes
        // on after the error is handed the rest of the damaged transaction as an edit of its own
        let mut seen_err = false;
        let mut after = false;
        if let Ok(items) = &o.iter {
            for i in items {
                match i {
                    MItem::Err(_) => seen_err = true,
                    MItem::Edit(_) => after |= seen_err,
                }
            }
        }
        return ("err".into(), if after { "edit-after-error".into() } else { String::new() });
    }
    if proper_prefix {
        return ("prefix".into(), format!("{} of {} edits", before.len(), pristine_edits.len()));
    }
    if extra_empty > 0 {
        return ("same-plus-empty-edit".into(), format!("{} empty edits after the pristine ones", extra_empty));
    }
    ("same".into(), String::new())
}

// ---------------------------------------------------------------------------------------------
// the child: runs the jobs of a job file from a start index on, one result line per job

#[derive(Clone)]
struct FileSpec {
    id: usize,
    kind: String,
    bytes: Vec<u8>,
    probes: Vec<(Vec<u8>, u64)>,
    /// log: entries delivered after each batch
    batch_ends: Vec<usize>,
}

fn probes_tok(p: &[(Vec<u8>, u64)]) -> String {
    if p.is_empty() {
        "-".into()
    } else {
        p.iter().map(|(k, t)| format!("{}@{}", hex(k), t)).collect::<Vec<_>>().join(",")
    }
}

fn parse_probes(t: &str) -> Option<Vec<(Vec<u8>, u64)>> {
    if t == "-" {
        return Some(vec![]);
    }
    t.split(',')
        .map(|x| {
            let (k, ts) = x.split_once('@')?;
            Some((unhex(k)?, ts.parse().ok()?))
        })
        .collect()
}

enum Pristine {
    Sst(SstObs),
    Log(LogObs),
    Mani(Vec<MEdit>),
}

struct ChildCtx {
    dir: PathBuf,
    files: BTreeMap<usize, FileSpec>,
    pristine: BTreeMap<usize, Pristine>,
}

impl ChildCtx {
    fn place(&self, kind: &str, bytes: &[u8]) -> PathBuf {
        match kind {
            "mani" => {
                let d = self.dir.join("m");
                let _ = std::fs::remove_dir_all(&d);
                std::fs::create_dir_all(&d).unwrap();
                std::fs::write(d.join("MANIFEST"), bytes).unwrap();
                d
            }
            _ => {
                let p = self.dir.join(format!("x.{}", kind));
                std::fs::write(&p, bytes).unwrap();
                p
            }
        }
    }

    fn pristine_of(&mut self, id: usize) {
        if self.pristine.contains_key(&id) {
            return;
        }
        let f = self.files[&id].clone();
        let p = self.place(&f.kind, &f.bytes);
        let v = match f.kind.as_str() {
            "sst" => Pristine::Sst(observe_sst(&p, &f.probes)),
            "log" => Pristine::Log(observe_log(&p, &self.dir)),
            _ => {
                let o = observe_mani(&p);
                let mut es = vec![];
                if let Ok(items) = &o.iter {
                    for i in items {
                        if let MItem::Edit(e) = i {
                            es.push(e.clone());
                        }
                    }
                }
                Pristine::Mani(es)
            }
        };
        self.pristine.insert(id, v);
    }

    /// -> (rendered observation, class, detail, largest allocation request)
    fn run_job(&mut self, id: usize, full: bool, ds: &[Dmg]) -> (String, String, String, usize) {
        self.pristine_of(id);
        let f = self.files[&id].clone();
        let bytes = damaged(&f.bytes, ds);
        let truncated = ds.iter().any(|d| matches!(d, Dmg::Trunc(_)));
        let p = self.place(&f.kind, &bytes);
        MAXREQ.store(0, Ordering::Relaxed);
        ARMED.store(true, Ordering::Relaxed);
        let (obs, class, detail) = match f.kind.as_str() {
            "sst" => {
                let o = observe_sst(&p, &f.probes);
                ARMED.store(false, Ordering::Relaxed);
                let (c, d) = match &self.pristine[&id] {
                    Pristine::Sst(q) => classify_sst(&o, q),
                    _ => unreachable!(),
                };
                (render_sst(&o, full), c, d)
            }
            "log" => {
                let o = observe_log(&p, &self.dir);
                ARMED.store(false, Ordering::Relaxed);
                let (c, d) = match &self.pristine[&id] {
                    Pristine::Log(q) => classify_log(&o, q, &f.batch_ends, truncated),
                    _ => unreachable!(),
                };
                (render_log(&o, full), c, d)
            }
            _ => {
                let o = observe_mani(&p);
                ARMED.store(false, Ordering::Relaxed);
                let (c, d) = match &self.pristine[&id] {
                    Pristine::Mani(es) => classify_mani(&o, es, truncated),
                    _ => unreachable!(),
                };
                (render_mani(&o, full), c, d)
            }
        };
        ARMED.store(false, Ordering::Relaxed);
        (obs, class, detail, MAXREQ.load(Ordering::Relaxed))
    }
}

// ---------------------------------------------------------------------------------------------
// store level: `KeyValueStore::open` over a directory whose write-ahead log is damaged (D-3's call
// site: open -> recover_one -> log_to_builder)

fn copy_tree(from: &Path, to: &Path) {
    std::fs::create_dir_all(to).unwrap();
    for e in std::fs::read_dir(from).unwrap().flatten() {
        let p = e.path();
        let q = to.join(e.file_name());
        if p.is_dir() {
            copy_tree(&p, &q);
        } else {
            std::fs::copy(&p, &q).unwrap();
        }
    }
}

fn store_cfg() -> crate::store::Cfg {
    crate::store::Cfg { memtable_bytes: 1 << 20, target_file: 1 << 22, min_file: 1 << 12, target_block: 4096, l0_mandatory_files: 4, l0_stall_files: 12, max_compaction_files: 16, gc_versions: 1, mani_ratio: 10 }
}

/// the writes of the store stream: (key, Some(value) | None = delete)
fn store_writes(seed: u64) -> Vec<(Vec<u8>, Option<Vec<u8>>)> {
    let mut rng = Rng::for_case(seed, 20, 0);
    let n = 6 + rng.below(5) as usize;
    (0..n)
        .map(|i| {
            let k = vec![b'k', b'0' + (rng.below(5) as u8)];
            if i > 2 && rng.chance(1, 4) {
                (k, None)
            } else {
                let vl = 1 + rng.below(12) as usize;
                (k, Some(rng.bytes(vl)))
            }
        })
        .collect()
}

fn scan_str(m: &BTreeMap<Vec<u8>, Vec<u8>>) -> String {
    m.iter().map(|(k, v)| format!("{}={}", hex(k), hex(v))).collect::<Vec<_>>().join(",")
}

struct StoreCtx {
    pristine: PathBuf,
    log_name: String,
    log_bytes: Vec<u8>,
    /// live contents after the first `j` writes
    states: Vec<BTreeMap<Vec<u8>, Vec<u8>>>,
}

/// the parent builds the store once with the real code and closes it
fn build_store(dir: &Path, seed: u64) -> Result<PathBuf, String> {
    let root = dir.join("store.pristine");
    let _ = std::fs::remove_dir_all(&root);
    let cfg = store_cfg();
    let writes = store_writes(seed);
    let r = guarded(Aus(|| -> Result<(), String> {
        let mut sim = crate::store::Sim::open(root.to_str().unwrap(), &cfg)?;
        for (k, v) in &writes {
            let op = match v {
                Some(v) => crate::store::Op::Put(k.clone(), v.clone()),
                None => crate::store::Op::Del(k.clone()),
            };
            sim.apply(&op)?;
        }
        sim.kvs = None;
        Ok(())
    }));
    match r {
        Ok(Ok(())) => Ok(root),
        Ok(Err(e)) => Err(e),
        Err(m) => Err(format!("panic {}", m)),
    }
}

fn load_store(root: &Path, seed: u64) -> Result<StoreCtx, String> {
    let writes = store_writes(seed);
    let mut states = vec![BTreeMap::new()];
    for (k, v) in &writes {
        let mut m: BTreeMap<Vec<u8>, Vec<u8>> = states.last().unwrap().clone();
        match v {
            Some(v) => {
                m.insert(k.clone(), v.clone());
            }
            None => {
                m.remove(k);
            }
        }
        states.push(m);
    }
    let mut logs: Vec<String> = std::fs::read_dir(root).map_err(|e| e.to_string())?.flatten().map(|e| e.file_name().to_string_lossy().to_string()).filter(|n| n.starts_with("log.")).collect();
    logs.sort();
    if logs.len() != 1 {
        return Err(format!("expected one log file, found {:?}", logs));
    }
    let log_bytes = std::fs::read(root.join(&logs[0])).map_err(|e| e.to_string())?;
    Ok(StoreCtx { pristine: root.to_path_buf(), log_name: logs[0].clone(), log_bytes, states })
}

/// -> (observation, class, detail)
fn run_store_job(dir: &Path, sc: &StoreCtx, ds: &[Dmg]) -> (String, String, String) {
    let root = dir.join("store.case");
    let _ = std::fs::remove_dir_all(&root);
    copy_tree(&sc.pristine, &root);
    let bytes = damaged(&sc.log_bytes, ds);
    let logp = root.join(&sc.log_name);
    std::fs::write(&logp, &bytes).unwrap();
    // what the log reader alone says about these bytes (decides the oracle class of a panic)
    let reader = observe_log(&logp, dir);
    let reader_err = reader.drain.1 != End::End;
    let cfg = store_cfg();
    let r = guarded(Aus(|| -> Result<BTreeMap<Vec<u8>, Vec<u8>>, String> {
        let sim = crate::store::Sim::open(root.to_str().unwrap(), &cfg)?;
        let scan = sim.scan_all()?;
        Ok(scan.into_iter().collect())
    }));
    let truncated = ds.iter().any(|d| matches!(d, Dmg::Trunc(_)));
    let full = sc.states.last().unwrap();
    match r {
        Ok(Ok(m)) => {
            let obs = format!("open=ok scan=[{}]", scan_str(&m));
            if m == *full {
                (obs, "same".into(), String::new())
            } else if truncated && sc.states.contains(&m) {
                (obs, "prefix".into(), String::new())
            } else {
                (obs, "different".into(), "contents after reopen".into())
            }
        }
        Ok(Err(e)) => {
            let short: String = e.chars().take(60).collect();
            ("open=E".into(), "err".into(), short)
        }
        Err(m) => ("open=panic".into(), if reader_err { "panic-replay-after-reader-error".into() } else { "panic".into() }, format!("KeyValueStore::open: {}", m)),
    }
}

pub fn child_run(rest: &[String]) {
    // address-space limit: an allocation sized by damaged bytes fails (and aborts) instead of
    // taking the machine down
    unsafe {
        let lim = libc::rlimit { rlim_cur: 2 << 30, rlim_max: 2 << 30 };
        libc::setrlimit(libc::RLIMIT_AS, &lim);
    }
    let jobs_path = &rest[0];
    let start: usize = rest[1].parse().unwrap();
    let dir = PathBuf::from(&rest[2]);
    std::fs::create_dir_all(&dir).unwrap();
    let mut ctx = ChildCtx { dir, files: BTreeMap::new(), pristine: BTreeMap::new() };
    let rd = std::io::BufReader::new(std::fs::File::open(jobs_path).unwrap());
    let out = std::io::stdout();
    let mut idx = 0usize;
    let mut store: Option<Result<StoreCtx, String>> = None;
    for line in rd.lines() {
        let line = line.unwrap();
        let t: Vec<&str> = line.split(' ').collect();
        match t[0] {
            "F" => {
                let id: usize = t[1].parse().unwrap();
                let batch_ends: Vec<usize> = if t[5] == "-" { vec![] } else { t[5].split(',').map(|x| x.parse().unwrap()).collect() };
                ctx.files.insert(id, FileSpec { id, kind: t[2].to_string(), bytes: unhex(t[3]).unwrap(), probes: parse_probes(t[4]).unwrap(), batch_ends });
            }
            "S" => {
                // store job: `S <seed> <pristine directory> <damage>`
                if idx >= start {
                    let seed: u64 = t[1].parse().unwrap();
                    let ds = parse_seq(t[3]).unwrap();
                    if store.is_none() {
                        store = Some(load_store(Path::new(t[2]), seed));
                    }
                    let (obs, class, detail) = match store.as_ref().unwrap() {
                        Ok(sc) => run_store_job(&ctx.dir, sc, &ds),
                        Err(e) => ("store-not-built".to_string(), "harness-trouble".to_string(), e.clone()),
                    };
                    let mut o = out.lock();
                    writeln!(o, "{}\t{}\t{}\t{}\t0", idx, obs, class, detail.replace(['\t', '\n'], " ")).unwrap();
                    o.flush().unwrap();
                }
                idx += 1;
            }
            "J" => {
                // self-test of the restart path: BLUE_C09_ABORT_AT=<job index> makes the child abort there
                if std::env::var("BLUE_C09_ABORT_AT").ok().and_then(|x| x.parse::<usize>().ok()) == Some(idx) && idx >= start {
                    std::process::abort();
                }
                if idx >= start {
                    let id: usize = t[1].parse().unwrap();
                    let full = t[2] == "1";
                    let ds = parse_seq(t[3]).unwrap();
                    let (obs, class, detail, maxreq) = ctx.run_job(id, full, &ds);
                    let mut o = out.lock();
                    writeln!(o, "{}\t{}\t{}\t{}\t{}", idx, obs, class, detail.replace(['\t', '\n'], " "), maxreq).unwrap();
                    o.flush().unwrap();
                }
                idx += 1;
            }
            _ => {}
        }
    }
}

// ---------------------------------------------------------------------------------------------
// the parent: pristine files

const ALPHA: [u8; 8] = [0x00, 0x01, b'a', b'b', 0x7f, 0x80, 0xfe, 0xff];

fn gen_key(rng: &mut Rng) -> Vec<u8> {
    let n = rng.below(5) as usize;
    (0..n).map(|_| *rng.pick(&ALPHA)).collect()
}

fn gen_ts(rng: &mut Rng) -> u64 {
    match rng.below(5) {
        0 => rng.below(4),
        1 => rng.below(300),
        2 => u64::MAX - rng.below(3),
        3 => (1u64 << 32) + rng.below(1000),
        _ => rng.next(),
    }
}

fn gen_val(rng: &mut Rng) -> Vec<u8> {
    match rng.below(10) {
        0..=1 => vec![],
        2..=7 => {
            let n = 1 + rng.below(10) as usize;
            rng.bytes(n)
        }
        _ => {
            let n = rng.range(20, 60) as usize;
            rng.bytes(n)
        }
    }
}

/// strictly ordered entries (key ascending, newest version first)
fn gen_sst_entries(rng: &mut Rng, target: usize) -> Vec<Ent> {
    let mut keys: Vec<Vec<u8>> = (0..target).map(|_| gen_key(rng)).collect();
    if rng.chance(1, 2) {
        // a run of neighbours differing in the last byte
        let p = gen_key(rng);
        for i in 0..4u8 {
            let mut k = p.clone();
            k.push(0xfc + i);
            keys.push(k);
        }
    }
    keys.sort();
    keys.dedup();
    let mut es = vec![];
    for k in keys {
        let nv = if rng.chance(1, 4) { 2 + rng.below(2) } else { 1 };
        let mut tss: Vec<u64> = (0..nv).map(|_| gen_ts(rng)).collect();
        tss.sort();
        tss.dedup();
        tss.reverse();
        for ts in tss {
            if k.is_empty() && ts == u64::MAX {
                continue;
            }
            let val = if rng.chance(1, 5) { None } else { Some(gen_val(rng)) };
            es.push(Ent { key: k.clone(), ts, val });
        }
        if es.len() >= target {
            break;
        }
    }
    es
}

fn sst_options(bri: u64, pri: u64, tbs: u64, bloom: u64) -> SstOptions {
    let v = [
        "--block-bytes-restart-interval".to_string(),
        bri.to_string(),
        "--block-key-value-pairs-restart-interval".to_string(),
        pri.to_string(),
        "--target-block-size".to_string(),
        tbs.to_string(),
        "--bloom-filter-bits".to_string(),
        bloom.to_string(),
    ];
    let r: Vec<&str> = v.iter().map(|s| s.as_str()).collect();
    SstOptions::from_arguments_relaxed("c09", &r).0
}

fn build_sst(dir: &Path, es: &[Ent], opts: SstOptions) -> Result<Vec<u8>, String> {
    let p = dir.join("build.sst");
    let _ = std::fs::remove_file(&p);
    let r = guarded(Aus(|| -> Result<(), sst::SError> {
        let mut b = SstBuilder::new(opts, &p)?;
        for e in es {
            match &e.val {
                Some(v) => b.put(&e.key, e.ts, v)?,
                None => b.del(&e.key, e.ts)?,
            }
        }
        b.seal().map(|_| ())
    }));
    match r {
        Ok(Ok(())) => Ok(std::fs::read(&p).map_err(|e| e.to_string())?),
        Ok(Err(e)) => Err(scode(&e)),
        Err(m) => Err(format!("panic {}", m)),
    }
}

fn varint(b: &[u8], i: &mut usize) -> Option<u64> {
    let mut v: u64 = 0;
    let mut sh = 0;
    loop {
        let x = *b.get(*i)?;
        *i += 1;
        v |= ((x & 0x7f) as u64) << sh;
        if x < 128 {
            return Some(v);
        }
        sh += 7;
        if sh > 63 {
            return None;
        }
    }
}

/// byte ranges `[a, b)` with a region name, covering the file
type Regions = Vec<(usize, usize, String)>;

fn region_of(rs: &Regions, off: usize) -> String {
    for (a, b, n) in rs {
        if *a <= off && off < *b {
            return n.clone();
        }
    }
    "outside".into()
}

/// the layout of a pristine SST, read off its own bytes (independently of the model)
fn sst_regions(file: &[u8]) -> Option<(Regions, usize)> {
    let n = file.len();
    if n < 8 {
        return None;
    }
    let mut t = [0u8; 8];
    t.copy_from_slice(&file[n - 8..]);
    let fbo = u64::from_le_bytes(t) as usize;
    if fbo > n - 8 {
        return None;
    }
    let mut frames: Vec<(usize, usize, usize, u8)> = vec![]; // start, body start, limit, tag
    let mut i = 0;
    while i < fbo {
        let start = i;
        let tag = file[i];
        i += 1;
        let len = varint(file, &mut i)? as usize;
        if i + len > fbo {
            return None;
        }
        frames.push((start, i, i + len, tag));
        i += len;
    }
    if frames.len() < 2 || frames[frames.len() - 1].3 != 106 || frames[..frames.len() - 1].iter().any(|f| f.3 != 82) {
        return None;
    }
    let nd = frames.len() - 2;
    let mut rs: Regions = vec![];
    for (k, f) in frames.iter().enumerate() {
        let name = if k < nd { "data".to_string() } else if k == nd { "index".to_string() } else { "filter".to_string() };
        rs.push((f.0, f.1, format!("{}.frame", name)));
        rs.push((f.1, f.2, format!("{}.body", name)));
    }
    // final block: top-level fields
    let mut i = fbo;
    while i < n - 8 {
        let start = i;
        let tag = varint(file, &mut i)?;
        let (num, wt) = (tag >> 3, tag & 7);
        match wt {
            0 => {
                varint(file, &mut i)?;
            }
            2 => {
                let l = varint(file, &mut i)? as usize;
                i += l;
            }
            1 => {
                if num == 18 {
                    rs.push((start, i, "final.offset-tag".into()));
                    break;
                }
                i += 8;
            }
            5 => i += 4,
            _ => return None,
        }
        let name = match num {
            16 => "final.index-meta",
            17 => "final.filter-meta",
            19 | 20 | 21 => "final.meta",
            _ => "final.other",
        };
        rs.push((start, i.min(n - 8), name.into()));
    }
    rs.push((n - 8, n, "trailer".into()));
    Some((rs, nd))
}

/// frames of a pristine log: (offset of the length byte, header length, payload length)
fn log_regions(file: &[u8]) -> Option<(Regions, Vec<(usize, usize, usize)>)> {
    let mut rs: Regions = vec![];
    let mut frames = vec![];
    let mut i = 0;
    while i < file.len() {
        let h = file[i] as usize;
        if h == 0 {
            let nb = ((i >> 20) + 1) << 20;
            let end = nb.min(file.len());
            rs.push((i, end, "padding".into()));
            i = end;
            continue;
        }
        let hs = i + 1;
        if hs + h > file.len() {
            return None;
        }
        // size = field 10 varint, first field of the header
        let mut j = hs;
        if file[j] != 80 {
            return None;
        }
        j += 1;
        let size = varint(file, &mut j)? as usize;
        rs.push((i, i + 1, "header-length".into()));
        rs.push((hs, hs + h, "header".into()));
        rs.push((hs + h, hs + h + size, "payload".into()));
        frames.push((i, h, size));
        i = hs + h + size;
        if i > file.len() {
            return None;
        }
    }
    Some((rs, frames))
}

fn mani_regions(file: &[u8]) -> Regions {
    let mut rs: Regions = vec![];
    let mut i = 0;
    while i < file.len() {
        let e = file[i..].iter().position(|b| *b == b'\n').map(|p| i + p).unwrap_or(file.len());
        let line = &file[i..e];
        if line == b"--------" {
            rs.push((i, e, "separator".into()));
        } else if line.len() > 9 {
            rs.push((i, i + 8, "crc-digits".into()));
            rs.push((i + 8, i + 9, "action".into()));
            rs.push((i + 9, e, "body".into()));
        } else {
            rs.push((i, e, "short-line".into()));
        }
        if e < file.len() {
            rs.push((e, e + 1, "newline".into()));
        }
        i = e + 1;
    }
    rs
}

// ---------------------------------------------------------------------------------------------
// hypothesis classes: which region of the pristine file a damage sequence lies in.  The regions are
// those of the theorems of Blue.Props.C09 (the frame of one SST block, the unchecksummed tail; the
// header or the payload of one log frame, a padding run; one manifest line, a separator, a
// newline).  Computed here from the harness's own parse of the bytes and by the Lean driver from the
// model's reading of them (`Blue.DamageClass.classOf`); both print it as `cls=<class>`.

/// `[lo, hi)`, theorem region (kind, instance), part
type CRegs = Vec<(usize, usize, &'static str, usize, String)>;

fn sst_cregs(file: &[u8]) -> Option<(CRegs, usize)> {
    let n = file.len();
    if n < 8 {
        return None;
    }
    let mut t = [0u8; 8];
    t.copy_from_slice(&file[n - 8..]);
    let fbo = u64::from_le_bytes(t) as usize;
    if fbo > n - 8 {
        return None;
    }
    let mut frames: Vec<(usize, usize, usize)> = vec![];
    let mut i = 0;
    while i < fbo {
        let start = i;
        i += 1;
        let len = varint(file, &mut i)? as usize;
        if i + len > fbo {
            return None;
        }
        frames.push((start, i, i + len));
        i += len;
    }
    if frames.len() < 2 {
        return None;
    }
    let nd = frames.len() - 2;
    let mut rs: CRegs = vec![];
    for (k, f) in frames.iter().enumerate() {
        let (g, inst): (&'static str, usize) = if k < nd { ("data", k) } else if k == nd { ("index", 0) } else { ("filter", 0) };
        rs.push((f.0, f.1, g, inst, "header".into()));
        rs.push((f.1, f.2, g, inst, "payload".into()));
    }
    let filter_limit = frames[frames.len() - 1].2;
    let mut i = fbo;
    while i < n {
        let start = i;
        let tag = varint(file, &mut i)?;
        let (num, wt) = (tag >> 3, tag & 7);
        if num == 18 && wt == 1 {
            rs.push((start, i, "tail", 0, "offset-tag".into()));
            rs.push((i, (i + 8).min(n), "tail", 0, "trailer".into()));
            i += 8;
            continue;
        }
        match wt {
            0 => {
                varint(file, &mut i)?;
            }
            2 => {
                let l = varint(file, &mut i)? as usize;
                i += l;
            }
            1 => i += 8,
            5 => i += 4,
            _ => return None,
        }
        let name = match num {
            16 => "index-meta",
            17 => "filter-meta",
            19 | 20 | 21 => "meta",
            _ => "other",
        };
        rs.push((start, i.min(n), "tail", 0, name.into()));
    }
    Some((rs, filter_limit))
}

fn log_cregs(file: &[u8]) -> CRegs {
    let mut rs: CRegs = vec![];
    let mut i = 0;
    while i < file.len() {
        let h = file[i] as usize;
        if h == 0 {
            let end = (((i >> 20) + 1) << 20).min(file.len());
            rs.push((i, end, "padding", i, "padding".into()));
            i = end;
            continue;
        }
        let hs = i + 1;
        if hs + h > file.len() || file[hs] != 80 {
            break;
        }
        let mut j = hs + 1;
        let Some(size) = varint(file, &mut j) else { break };
        let size_end = j;
        if file.get(j) != Some(&88) {
            break;
        }
        j += 1;
        let disc_start = j;
        let Some(disc) = varint(file, &mut j) else { break };
        let disc_end = j;
        if file.get(j) != Some(&101) {
            break;
        }
        let kind = match disc {
            1 => "whole",
            2 => "first",
            3 => "second",
            _ => "other",
        };
        rs.push((i, i + 1, "header", i, "length".into()));
        rs.push((hs, hs + 1, "header", i, "tag".into()));
        rs.push((hs + 1, size_end, "header", i, "size".into()));
        rs.push((size_end, size_end + 1, "header", i, "tag".into()));
        rs.push((disc_start, disc_end, "header", i, "disc".into()));
        rs.push((disc_end, disc_end + 1, "header", i, "tag".into()));
        rs.push((disc_end + 1, hs + h, "header", i, "crc".into()));
        rs.push((hs + h, hs + h + size as usize, "payload", i, kind.into()));
        i = hs + h + size as usize;
    }
    rs
}

fn mani_cregs(file: &[u8]) -> CRegs {
    let mut rs: CRegs = vec![];
    let mut i = 0;
    while i < file.len() {
        let e = file[i..].iter().position(|b| *b == b'\n').map(|p| i + p).unwrap_or(file.len());
        let line = &file[i..e];
        if line == b"--------" {
            rs.push((i, e, "separator", i, "separator".into()));
        } else if line.len() > 9 {
            rs.push((i, i + 8, "line", i, "crc".into()));
            rs.push((i + 8, i + 9, "line", i, "action".into()));
            rs.push((i + 9, e, "line", i, "body".into()));
        } else {
            rs.push((i, e, "line", i, "short".into()));
        }
        if e < file.len() {
            rs.push((e, e + 1, "newline", e, "newline".into()));
        }
        i = e + 1;
    }
    rs
}

fn creg_of(rs: &CRegs, off: usize) -> Option<&(usize, usize, &'static str, usize, String)> {
    rs.iter().find(|r| r.0 <= off && off < r.1)
}

/// `damage.<kind>.<region>[.<part>]` for one step, `damage.<kind>.<region>.multi` for several steps
/// inside one and the same region, `damage.<kind>.several` otherwise
fn class_of(kind: &str, rs: &CRegs, filter_limit: usize, ds: &[Dmg]) -> String {
    let step_tok = |d: &Dmg| -> String {
        match d {
            Dmg::Flip(o, _) | Dmg::Over(o, _) => match creg_of(rs, *o) {
                Some(r) => {
                    if r.4 == r.2 {
                        r.2.to_string()
                    } else {
                        format!("{}.{}", r.2, r.4)
                    }
                }
                None => "outside".into(),
            },
            Dmg::Trunc(n) => {
                if kind == "sst" {
                    if *n < filter_limit { "truncate.below-filter".into() } else { "truncate.tail".into() }
                } else {
                    "truncate".into()
                }
            }
            Dmg::App(_) => "append".into(),
        }
    };
    let group = |d: &Dmg| -> Option<(&'static str, usize)> {
        match d {
            Dmg::Flip(o, _) | Dmg::Over(o, _) => creg_of(rs, *o).map(|r| (r.2, r.3)),
            _ => None,
        }
    };
    match ds.len() {
        0 => "pristine".into(),
        1 => format!("damage.{}.{}", kind, step_tok(&ds[0])),
        _ => match group(&ds[0]) {
            Some(g) if ds[1..].iter().all(|x| group(x) == Some(g)) => format!("damage.{}.{}.multi", kind, g.0),
            _ => format!("damage.{}.several", kind),
        },
    }
}

fn build_log(batches: &[Vec<Ent>]) -> Result<Vec<u8>, String> {
    let r = guarded(Aus(|| -> Result<Vec<u8>, sst::SError> {
        let mut out: Vec<u8> = Vec::new();
        {
            let mut lb = LogBuilder::from_write(LogOptions::default(), &mut out)?;
            for b in batches {
                let mut wb = WriteBatch::default();
                for e in b {
                    match &e.val {
                        Some(v) => wb.put(&e.key, e.ts, v)?,
                        None => wb.del(&e.key, e.ts)?,
                    }
                }
                lb.append(&wb)?;
            }
            lb.seal()?;
        }
        Ok(out)
    }));
    match r {
        Ok(Ok(b)) => Ok(b),
        Ok(Err(e)) => Err(scode(&e)),
        Err(m) => Err(format!("panic {}", m)),
    }
}

fn gen_log_batches(rng: &mut Rng, nb: usize) -> Vec<Vec<Ent>> {
    let mut ts = 1 + rng.below(1000);
    let mut out = vec![];
    for _ in 0..nb {
        let n = 1 + rng.below(3) as usize;
        let mut b = vec![];
        for _ in 0..n {
            ts += 1 + rng.below(3);
            let val = if rng.chance(1, 4) { None } else { Some(gen_val(rng)) };
            b.push(Ent { key: gen_key(rng), ts, val });
        }
        out.push(b);
    }
    out
}

/// a log of many appends in which a tiny frame (one tombstone, 18 bytes) starts exactly
/// `HEADER_MAX_SIZE + 1` = 20 bytes before the first block boundary and the next frame starts on the
/// boundary, after two bytes of padding.  (One entry per append: the big entries only fill space.)
fn boundary_batches(rng: &mut Rng) -> Option<Vec<Vec<Ent>>> {
    const BLOCK: usize = 1 << 20;
    let target = BLOCK - 20;
    let fill = (rng.next() & 0xff) as u8;
    let batch_frame_sz = |b: &[Ent]| {
        let mut wb = WriteBatch::default();
        for e in b {
            wb.put(&e.key, e.ts, e.val.as_ref().unwrap()).unwrap();
        }
        let p = wb.approximate_size();
        let sv = if p < 128 { 1 } else if p < 16384 { 2 } else { 3 };
        // length byte, header (size, discriminant, crc32c), payload
        1 + (1 + sv + 2 + 5) + p
    };
    let frame_sz = |e: &Ent| batch_frame_sz(std::slice::from_ref(e));
    let mut batches: Vec<Vec<Ent>> = vec![];
    let mut ts = 10;
    let mut written = 0usize;
    // a few big appends of seven entries each (the model reader's cost grows with the number of
    // frames and with the size of a batch; this keeps both moderate)
    loop {
        let mut b = vec![];
        for _ in 0..7 {
            ts += 1;
            b.push(Ent { key: vec![b'k', (ts % 251) as u8], ts, val: Some(vec![fill; 32768]) });
        }
        let s = batch_frame_sz(&b);
        if written + s + 200 > target {
            break;
        }
        written += s;
        batches.push(b);
    }
    loop {
        ts += 1;
        let e = Ent { key: vec![b'k', (ts % 251) as u8], ts, val: Some(vec![fill; 32768]) };
        let s = frame_sz(&e);
        if written + s + 200 > target {
            break;
        }
        written += s;
        batches.push(vec![e]);
    }
    // two more frames make up the difference exactly
    let rest = target - written;
    let half = rest / 2;
    ts += 1;
    let e1 = Ent { key: vec![b'y'], ts, val: Some(vec![fill ^ 0x33; half]) };
    written += frame_sz(&e1);
    batches.push(vec![e1]);
    let rest = target - written;
    let mut done = false;
    for vl in rest.saturating_sub(40)..rest {
        let e = Ent { key: vec![b'z'], ts: ts + 1, val: Some(vec![fill ^ 0x55; vl]) };
        if frame_sz(&e) == rest {
            batches.push(vec![e]);
            done = true;
            break;
        }
    }
    if !done {
        return None;
    }
    ts += 2;
    batches.push(vec![Ent { key: vec![], ts: 5, val: None }]);
    batches.push(vec![Ent { key: b"after".to_vec(), ts: ts + 7, val: Some(b"boundary".to_vec()) }, Ent { key: b"b".to_vec(), ts: ts + 8, val: None }]);
    Some(batches)
}

/// a log in which one append straddles the first block boundary with about 300 bytes of the block
/// left: the writer splits it into a FIRST frame, padding up to the boundary and a SECOND frame
fn split_batches(rng: &mut Rng) -> Option<Vec<Vec<Ent>>> {
    const BLOCK: usize = 1 << 20;
    let target = BLOCK - 300;
    let fill = (rng.next() & 0xff) as u8;
    let batch_frame_sz = |b: &[Ent]| {
        let mut wb = WriteBatch::default();
        for e in b {
            wb.put(&e.key, e.ts, e.val.as_ref().unwrap()).unwrap();
        }
        let p = wb.approximate_size();
        let sv = if p < 128 { 1 } else if p < 16384 { 2 } else { 3 };
        1 + (1 + sv + 2 + 5) + p
    };
    let mut batches: Vec<Vec<Ent>> = vec![];
    let mut ts = 10;
    let mut written = 0usize;
    loop {
        let mut b = vec![];
        for _ in 0..7 {
            ts += 1;
            b.push(Ent { key: vec![b's', (ts % 251) as u8], ts, val: Some(vec![fill; 32768]) });
        }
        let s = batch_frame_sz(&b);
        if written + s + 400 > target {
            break;
        }
        written += s;
        batches.push(b);
    }
    // single entries of 16000 bytes until less than 30000 bytes are missing …
    while target - written > 30000 {
        ts += 1;
        let e = Ent { key: vec![b's', (ts % 251) as u8], ts, val: Some(vec![fill; 16000]) };
        written += batch_frame_sz(std::slice::from_ref(&e));
        batches.push(vec![e]);
    }
    // … and one more append brings the position to within a few bytes of `target`
    let gap = target - written;
    if gap < 100 {
        return None;
    }
    let mut done = false;
    for vl in gap.saturating_sub(60)..gap {
        ts += 1;
        let e = Ent { key: vec![b'y'], ts, val: Some(vec![fill ^ 0x33; vl]) };
        let s = batch_frame_sz(std::slice::from_ref(&e));
        if written + s <= target && written + s + 8 > target {
            batches.push(vec![e]);
            done = true;
            break;
        }
    }
    if !done {
        return None;
    }
    // the append that is split: three entries, about 650 bytes
    let mut b = vec![];
    for i in 0..3u8 {
        ts += 1;
        b.push(Ent { key: vec![b'p', i], ts, val: Some((0..200u32).map(|x| (x as u8) ^ fill ^ i).collect()) });
    }
    batches.push(b);
    ts += 1;
    batches.push(vec![Ent { key: b"after".to_vec(), ts, val: Some(b"split".to_vec()) }]);
    Some(batches)
}

/// damage for the split log: every part of the FIRST and the SECOND frame and the padding between
/// them (every model evaluation of a file of this size costs about a third of a second)
fn split_damage(bytes: &[u8], cregs: &CRegs, thorough: bool) -> Vec<Vec<Dmg>> {
    let mut out: Vec<Vec<Dmg>> = vec![];
    let Some(first) = cregs.iter().find(|r| r.2 == "payload" && r.4 == "first").map(|r| r.3) else { return out };
    let Some(second) = cregs.iter().find(|r| r.2 == "payload" && r.4 == "second").map(|r| r.3) else { return out };
    for frame in [first, second] {
        for r in cregs.iter().filter(|r| r.3 == frame && (r.2 == "header" || r.2 == "payload")) {
            if r.2 == "header" {
                let offs: Vec<usize> = if thorough { (r.0..r.1).collect() } else { vec![r.0, r.1 - 1] };
                for o in offs {
                    let bits: Vec<u8> = if thorough { vec![0, 2, 4, 6, 7] } else { vec![0, 6] };
                    for b in bits {
                        out.push(vec![Dmg::Flip(o, b)]);
                    }
                    if r.4 == "length" {
                        out.push(vec![Dmg::Over(o, 0)]);
                        out.push(vec![Dmg::Over(o, bytes[o] + 1)]);
                    }
                    if r.4 == "disc" {
                        // the discriminant is outside the checksum: turn FIRST into WHOLE / SECOND
                        // and SECOND into WHOLE / FIRST
                        for v in [1u8, 2, 3] {
                            if v != bytes[o] {
                                out.push(vec![Dmg::Over(o, v)]);
                            }
                        }
                    }
                }
            } else {
                let mut offs = vec![r.0, r.0 + (r.1 - r.0) / 2, r.1 - 1];
                if thorough {
                    offs.extend((r.0..r.1).step_by(37));
                }
                offs.sort();
                offs.dedup();
                for o in offs {
                    out.push(vec![Dmg::Flip(o, 3)]);
                    out.push(vec![Dmg::Over(o, !bytes[o])]);
                }
                out.push(vec![Dmg::Over(r.0, !bytes[r.0]), Dmg::Flip(r.1 - 1, 0)]);
            }
        }
    }
    // the padding between the two frames
    if let Some(p) = cregs.iter().find(|r| r.2 == "padding") {
        let offs: Vec<usize> = if thorough { (p.0..p.1).collect() } else { vec![p.0, p.1 - 1] };
        for o in offs {
            out.push(vec![Dmg::Over(o, 1)]);
            out.push(vec![Dmg::Flip(o, 7)]);
        }
        out.push(vec![Dmg::Trunc(p.0)]);
        out.push(vec![Dmg::Trunc(p.1)]);
    }
    let sp = cregs.iter().find(|r| r.2 == "payload" && r.4 == "second").unwrap();
    out.push(vec![Dmg::Trunc(sp.0)]);
    out.push(vec![Dmg::Trunc(sp.0 + (sp.1 - sp.0) / 2)]);
    out.push(vec![Dmg::Trunc(sp.1)]);
    out
}

const MANI_CHARS: &[u8] = b"abcxyz019_./+- ";

fn gen_mani_str(rng: &mut Rng) -> String {
    let n = 1 + rng.below(7) as usize;
    let s: Vec<u8> = (0..n).map(|_| *rng.pick(MANI_CHARS)).collect();
    String::from_utf8(s).unwrap()
}

/// a MANIFEST holding several edits, written by the real `Manifest::apply`
fn build_mani(dir: &Path, rng: &mut Rng, nedits: usize) -> Result<Vec<u8>, String> {
    let d = dir.join("build.mani");
    let _ = std::fs::remove_dir_all(&d);
    let r = guarded(Aus(|| -> Result<Vec<u8>, sst::SError> {
        let mut m = Manifest::open(mani_opts(), &d)?;
        let mut live: Vec<String> = vec![];
        for _ in 0..nedits {
            let mut e = Edit::default();
            let na = 1 + rng.below(2);
            for _ in 0..na {
                let s = gen_mani_str(rng);
                if e.add(&s).is_ok() {
                    live.push(s);
                }
            }
            if !live.is_empty() && rng.chance(1, 3) {
                let s = live.remove(rng.below(live.len() as u64) as usize);
                let _ = e.rm(&s);
            }
            if rng.chance(1, 2) {
                let k = *rng.pick(&['I', 'O', 'D', 'k', '=', ' ']);
                let _ = e.info(k, &gen_mani_str(rng));
            }
            m.apply(e)?;
        }
        drop(m);
        Ok(std::fs::read(d.join("MANIFEST"))?)
    }));
    match r {
        Ok(Ok(b)) => Ok(b),
        Ok(Err(e)) => Err(mcode(&e)),
        Err(m) => Err(format!("panic {}", m)),
    }
}

// ---------------------------------------------------------------------------------------------
// the parent: damage lists

struct Job {
    file: usize,
    ds: Vec<Dmg>,
}

fn other_byte(rng: &mut Rng, orig: u8) -> u8 {
    loop {
        let v = rng.next() as u8;
        if v != orig {
            return v;
        }
    }
}

/// every single-bit flip, every truncation length, overwrites, suffixes and short sequences
fn damage_list(rng: &mut Rng, bytes: &[u8], kind: &str, rs: &Regions, thorough: bool) -> Vec<Vec<Dmg>> {
    let n = bytes.len();
    // offsets at which a record (log frame, manifest line) starts
    let record_starts: BTreeSet<usize> = rs.iter().filter(|r| r.2 == "header-length" || r.2 == "crc-digits" || r.2 == "separator").map(|r| r.0).collect();
    let mut out: Vec<Vec<Dmg>> = vec![];
    for o in 0..n {
        for b in 0..8 {
            out.push(vec![Dmg::Flip(o, b)]);
        }
    }
    for l in 0..n {
        out.push(vec![Dmg::Trunc(l)]);
    }
    for o in 0..n {
        let reg = region_of(rs, o);
        let dense = reg.starts_with("final") || reg == "trailer" || reg == "header-length" || reg == "header" || reg == "crc-digits" || reg == "action" || reg == "separator" || reg == "newline";
        let mut vals: Vec<u8> = vec![0x00, 0xff, other_byte(rng, bytes[o])];
        if dense {
            vals.extend_from_slice(&[0x01, 0x80, 0x7f, b'\n', b'\r', b'-', b'+', bytes[o].wrapping_add(1), bytes[o].wrapping_sub(1)]);
            if thorough {
                for _ in 0..8 {
                    vals.push(rng.next() as u8);
                }
            }
        }
        vals.sort();
        vals.dedup();
        for v in vals {
            if v != bytes[o] {
                out.push(vec![Dmg::Over(o, v)]);
            }
        }
    }
    // appended suffixes: random, zeros, newlines, a copy of the file's own tail
    let nsuf = if thorough { 64 } else { 20 };
    for i in 0..nsuf {
        let l = 1 + rng.below(if i % 4 == 0 { 40 } else { 12 }) as usize;
        let s = match i % 5 {
            0 => vec![0u8; l],
            1 => {
                // the file's own tail again — but not starting on a record boundary: a replayed whole
                // record (a frame with its CRC, a manifest line or edit) is a valid record, which no
                // unauthenticated append-only format can refuse
                let mut t = l.min(n);
                while t > 1 && record_starts.contains(&(n - t)) {
                    t -= 1;
                }
                bytes[n - t..].to_vec()
            }
            2 if kind == "mani" => {
                let mut v = b"\n".to_vec();
                v.extend(rng.bytes(l - 1).iter().map(|b| b & 0x7f));
                v
            }
            _ => rng.bytes(l),
        };
        out.push(vec![Dmg::App(s)]);
    }
    if kind == "sst" && n >= 8 {
        // the trailer again: the final block is read with eight more bytes at its end
        out.push(vec![Dmg::App(bytes[n - 8..].to_vec())]);
        if let Some(fb) = rs.iter().find(|r| r.2.starts_with("final")).map(|r| r.0) {
            // the whole final block again
            out.push(vec![Dmg::App(bytes[fb..].to_vec())]);
            // … and a final block of its own after the old trailer: the old final block with one
            // byte of the setsum changed, and a trailer that points at it (no checksum is needed
            // to make it: the final block carries none)
            if let Some(m) = rs.iter().find(|r| r.2 == "final.meta") {
                let mut fbk = bytes[fb..n - 8].to_vec();
                let at = m.0 - fb + 5;
                if at < fbk.len() {
                    fbk[at] ^= 0x40;
                    fbk.extend_from_slice(&(n as u64).to_le_bytes());
                    out.push(vec![Dmg::App(fbk)]);
                }
            }
        }
    }
    if kind == "log" {
        // whole frames overwritten with zeros (a lost sector reads as zeros): the last frame, the
        // first frame, and everything from the last frame's payload to the end of the file
        let starts: Vec<usize> = rs.iter().filter(|r| r.2 == "header-length").map(|r| r.0).collect();
        let zero = |a: usize, b: usize| -> Vec<Dmg> { (a..b).filter(|o| bytes[*o] != 0).map(|o| Dmg::Over(o, 0)).collect() };
        if let Some(last) = starts.last() {
            out.push(zero(*last, n));
            if let Some(p) = rs.iter().filter(|r| r.2 == "payload").last() {
                out.push(zero(p.0, n));
            }
        }
        if starts.len() >= 2 {
            out.push(zero(starts[0], starts[1]));
        }
        out.retain(|ds| !ds.is_empty());
        // a frame header that claims a payload far larger than anything the file holds
        let mut sizes: Vec<u64> = vec![1 << 26, sst::TABLE_FULL_SIZE as u64 + 1];
        if thorough {
            sizes.push(sst::TABLE_FULL_SIZE as u64);
        }
        for size in sizes {
            let mut h: Vec<u8> = vec![80];
            let mut v = size;
            loop {
                if v < 128 {
                    h.push(v as u8);
                    break;
                }
                h.push((v & 0x7f) as u8 | 0x80);
                v >>= 7;
            }
            h.extend_from_slice(&[88, 1, 101]);
            h.extend_from_slice(&rng.bytes(4));
            let mut sfx = vec![h.len() as u8];
            sfx.extend(h);
            sfx.extend(rng.bytes(6));
            out.push(vec![Dmg::App(sfx)]);
        }
    }
    if kind == "mani" {
        // two adjacent bytes of an item line's payload become one two-byte UTF-8 character: the line
        // is a string but not ASCII (the one error of ManifestIterator that does not poison it)
        for r in rs.iter().filter(|r| r.2 == "body" && r.1 - r.0 >= 2).take(3) {
            out.push(vec![Dmg::Over(r.0, 0xc3), Dmg::Over(r.0 + 1, 0xa9)]);
        }
        out.push(vec![Dmg::App(b"--------\n".to_vec())]);
        out.push(vec![Dmg::App(b"--------".to_vec())]);
        out.push(vec![Dmg::App(b"\n".to_vec())]);
    }
    // short sequences
    let nseq = if thorough { 1500 } else { 250 };
    let pick_one = |rng: &mut Rng, len: usize| -> Dmg {
        let o = rng.below(len.max(1) as u64) as usize;
        match rng.below(10) {
            0..=4 => Dmg::Flip(o, rng.below(8) as u8),
            5..=7 => Dmg::Over(o, rng.next() as u8),
            8 => Dmg::Trunc(o),
            _ => {
                let l = 1 + rng.below(10) as usize;
                Dmg::App(rng.bytes(l))
            }
        }
    };
    for i in 0..nseq {
        let k = 2 + rng.below(2) as usize;
        let mut ds = vec![];
        if i % 3 == 0 && n > 16 {
            // clustered: all within sixteen bytes of one spot
            let base = rng.below(n as u64 - 16) as usize;
            for _ in 0..k {
                let o = base + rng.below(16) as usize;
                ds.push(if rng.chance(1, 2) { Dmg::Flip(o, rng.below(8) as u8) } else { Dmg::Over(o, rng.next() as u8) });
            }
        } else {
            for _ in 0..k {
                ds.push(pick_one(rng, n));
            }
        }
        // a sequence that leaves the file as it was tells nothing
        if damaged(bytes, &ds) != bytes {
            out.push(ds);
        }
    }
    out
}

/// the big log: damage near the block boundary and on header-length bytes only
fn boundary_damage(bytes: &[u8], frames: &[(usize, usize, usize)], thorough: bool) -> Vec<Vec<Dmg>> {
    const BLOCK: usize = 1 << 20;
    let mut out: Vec<Vec<Dmg>> = vec![];
    // (every case on this file costs the model about a third of a second: the quick tier keeps to
    // the bytes that decide whether the boundary is crossed correctly)
    if thorough {
        for o in BLOCK - 40..(BLOCK + 40).min(bytes.len()) {
            if bytes[o] != 0 {
                out.push(vec![Dmg::Over(o, 0)]);
            }
            for b in 0..8 {
                out.push(vec![Dmg::Flip(o, b)]);
            }
        }
    } else {
        for o in [BLOCK - 20, BLOCK - 2, BLOCK - 1] {
            for b in 0..8 {
                out.push(vec![Dmg::Flip(o, b)]);
            }
        }
    }
    let nf = frames.len();
    for (k, (o, h, _)) in frames.iter().enumerate() {
        if thorough || k + 3 >= nf {
            out.push(vec![Dmg::Over(*o, 0)]);
            out.push(vec![Dmg::Over(*o, (*h as u8) + 1)]);
        }
        if thorough && (k < 2 || k + 3 >= nf) {
            for b in 0..8 {
                out.push(vec![Dmg::Flip(*o, b)]);
            }
        }
    }
    for l in [BLOCK - 21, BLOCK - 20, BLOCK - 2, BLOCK - 1, BLOCK, bytes.len() - 1] {
        out.push(vec![Dmg::Trunc(l)]);
    }
    // the tiny frame before the boundary overwritten with zeros byte for byte: to the reader this
    // is padding (the trigger of the format limit `CLASS_ZEROED_FRAME`); and all but its last byte
    if nf >= 2 {
        let (o, h, sz) = frames[nf - 2];
        let end = o + 1 + h + sz;
        out.push((o..end).filter(|x| bytes[*x] != 0).map(|x| Dmg::Over(x, 0)).collect());
        out.push((o..end - 1).filter(|x| bytes[*x] != 0).map(|x| Dmg::Over(x, 0)).collect());
    }
    out
}

// ---------------------------------------------------------------------------------------------
// the parent: running children

struct JobResult {
    obs: String,
    class: String,
    detail: String,
    maxreq: usize,
}

fn run_children(jobs_path: &Path, njobs: usize, dir: &Path, rec: &mut Recorder) -> Vec<JobResult> {
    use std::process::{Command, Stdio};
    let exe = std::env::current_exe().unwrap();
    let mut results: Vec<JobResult> = Vec::with_capacity(njobs);
    let mut start = 0usize;
    let mut restarts = 0;
    while start < njobs {
        let mut child = Command::new(&exe)
            .arg("C09child")
            .arg(jobs_path)
            .arg(start.to_string())
            .arg(dir.join(format!("child{}", restarts)))
            .stdout(Stdio::piped())
            .stderr(Stdio::null())
            .spawn()
            .expect("cannot start the C09 child");
        let stdout = child.stdout.take().unwrap();
        let (tx, rx) = std::sync::mpsc::channel::<String>();
        let reader = std::thread::spawn(move || {
            let rd = std::io::BufReader::new(stdout);
            for l in rd.lines() {
                match l {
                    Ok(l) => {
                        if tx.send(l).is_err() {
                            break;
                        }
                    }
                    Err(_) => break,
                }
            }
        });
        let mut hung = false;
        loop {
            match rx.recv_timeout(std::time::Duration::from_secs(120)) {
                Ok(l) => {
                    let p: Vec<&str> = l.split('\t').collect();
                    if p.len() == 5 && p[0].parse::<usize>().ok() == Some(results.len()) {
                        results.push(JobResult { obs: p[1].to_string(), class: p[2].to_string(), detail: p[3].to_string(), maxreq: p[4].parse().unwrap_or(0) });
                    }
                }
                Err(std::sync::mpsc::RecvTimeoutError::Timeout) => {
                    hung = true;
                    let _ = child.kill();
                    break;
                }
                Err(std::sync::mpsc::RecvTimeoutError::Disconnected) => break,
            }
        }
        let status = child.wait();
        let _ = reader.join();
        if results.len() < njobs {
            // the child died (or hung) inside job number results.len()
            let how = match (&status, hung) {
                (_, true) => "no result within 120 s, child killed".to_string(),
                (Ok(s), _) => format!("child ended with {}", s),
                (Err(e), _) => format!("child wait failed: {}", e),
            };
            results.push(JobResult { obs: if hung { "hang".into() } else { "abort-or-oom".into() }, class: if hung { "hang".into() } else { "abort-or-oom".into() }, detail: how, maxreq: 0 });
            rec.count("child.restarts");
            restarts += 1;
            if restarts > 200 {
                panic!("C09: the child died more than 200 times");
            }
        }
        start = results.len();
    }
    results
}

// ---------------------------------------------------------------------------------------------
// the parent: the run

struct PFile {
    spec: FileSpec,
    regions: Regions,
    /// the regions of the hypothesis classes, and (SST) the end of the filter block
    cregs: CRegs,
    filter_limit: usize,
    /// log: frames (offset of the length byte, header length, payload length)
    frames: Vec<(usize, usize, usize)>,
    what: String,
}

const CLASS_D10: &str = "sst-final-block-unchecksummed-metadata";
const CLASS_D3: &str = "log-replay-unwraps-reader-error";
/// ManifestIterator returned an edit after an error (as found, its non-ASCII check did not poison
/// it; repaired by /repo commit ef4f524): the edit is the rest of the damaged transaction
const CLASS_NONASCII: &str = "mani-iterator-not-poisoned-after-non-ascii-line";

/// the trigger of `CLASS_NONASCII`, a predicate on the input: some line of the damaged file (as
/// `BufRead::lines` splits it) is valid UTF-8 and not ASCII, and a later line exists
fn has_utf8_non_ascii_line(bytes: &[u8]) -> bool {
    let mut lines: Vec<&[u8]> = bytes.split(|b| *b == b'\n').collect();
    if lines.last().map(|l| l.is_empty()).unwrap_or(false) {
        lines.pop();
    }
    let n = lines.len();
    lines.iter().enumerate().any(|(i, l)| i + 1 < n && !l.is_ascii() && std::str::from_utf8(l).is_ok())
}

/// a whole log frame that lies within HEADER_MAX_SIZE + 1 bytes of the next block boundary is
/// overwritten with zeros: the reader takes the zeros for padding (frames carry no sequence numbers)
const CLASS_ZEROED_FRAME: &str = "log-frame-zeroed-inside-padding-window";

/// the trigger of `CLASS_ZEROED_FRAME`, a predicate on the input: after the damage every byte of
/// some frame that starts at most HEADER_MAX_SIZE + 1 bytes before a block boundary and ends at or
/// before it is zero
fn zeroed_frame_in_padding_window(f: &PFile, ds: &[Dmg]) -> bool {
    let b = damaged(&f.spec.bytes, ds);
    f.frames.iter().any(|(o, h, sz)| {
        let end = o + 1 + h + sz;
        let nb = ((o >> 20) + 1) << 20;
        end <= nb && nb - (o + 1) <= 19 && end <= b.len() && b[*o..end].iter().all(|x| *x == 0)
    })
}

fn dmg_kind(d: &Dmg) -> &'static str {
    match d {
        Dmg::Flip(..) => "flip",
        Dmg::Over(..) => "overwrite",
        Dmg::Trunc(_) => "truncate",
        Dmg::App(_) => "append",
    }
}

fn job_regions(f: &PFile, ds: &[Dmg]) -> Vec<String> {
    ds.iter()
        .map(|d| match d {
            Dmg::Flip(o, _) | Dmg::Over(o, _) => region_of(&f.regions, *o),
            Dmg::Trunc(_) => "truncate".into(),
            Dmg::App(_) => "append".into(),
        })
        .collect()
}

fn verdict(f: &PFile, ds: &[Dmg], r: &JobResult) -> Verdict {
    let regs = job_regions(f, ds);
    let detail = |r: &JobResult| format!("{} kind={} regions={} damage={} file={} bytes ({})", r.detail, f.spec.kind, regs.join("+"), seq_tok(ds), f.spec.bytes.len(), f.what);
    let damaged_len = damaged(&f.spec.bytes, ds).len();
    match r.class.as_str() {
        "err" if f.spec.kind == "mani" && r.detail.contains("edit-after-error") => {
            if has_utf8_non_ascii_line(&damaged(&f.spec.bytes, ds)) {
                Verdict::Fail { class: CLASS_NONASCII.into(), detail: detail(r) }
            } else {
                Verdict::Fail { class: "unclassified-different".into(), detail: format!("an edit after an error: {}", detail(r)) }
            }
        }
        "same" | "err" | "err-partial" | "same-resized" | "same-plus-empty-edit" | "prefix" | "pristine" => {
            if r.maxreq > alloc_bound(damaged_len.max(f.spec.bytes.len())) {
                Verdict::Fail { class: "large-allocation".into(), detail: format!("largest single allocation request {} bytes; {}", r.maxreq, detail(r)) }
            } else {
                Verdict::Ok
            }
        }
        "meta-different" => {
            // D-10's trigger, a predicate on the input: bits or bytes of the final block's setsum /
            // smallest_timestamp / biggest_timestamp fields are changed, nothing else of the
            // unchecksummed tail (rest of the final block, trailer) is touched, the length is kept
            // (or any other byte of the unchecksummed tail such that the final block still parses:
            // a changed tag can turn another field into one of the three, or one of them into an
            // unknown field).  The result class `meta-different` already says that the open, both
            // walks and every load are unchanged; the trigger is that the damage reaches the
            // unchecksummed tail at all.
            // (bytes appended to an SST are the new trailer and the end of the new final block: the
            // code reads both from the end of the file)
            let confined = regs.iter().any(|x| x.starts_with("final.") || x == "trailer" || (f.spec.kind == "sst" && x == "append"));
            if confined {
                Verdict::Fail { class: CLASS_D10.into(), detail: detail(r) }
            } else {
                Verdict::Fail { class: "unclassified-different".into(), detail: format!("metadata fields differ: {}", detail(r)) }
            }
        }
        "panic-replay-after-reader-error" => Verdict::Fail { class: CLASS_D3.into(), detail: detail(r) },
        // (a log whose reader steps over a frame with a zeroed header-length byte close to a block
        // boundary lands here: D-11, repaired in `LogIterator::true_up`)
        "different" if f.spec.kind == "log" && r.detail.starts_with("drain") && zeroed_frame_in_padding_window(f, ds) => Verdict::Fail { class: CLASS_ZEROED_FRAME.into(), detail: detail(r) },
        "different" => Verdict::Fail { class: "unclassified-different".into(), detail: detail(r) },
        "panic" => Verdict::Fail { class: "unclassified-panic".into(), detail: detail(r) },
        c => Verdict::Fail { class: c.to_string(), detail: detail(r) },
    }
}

pub fn run(args: &Args) {
    let mut rec = Recorder::new(&args.out, args.only_case);
    let thorough = args.thorough;
    let base = if Path::new("/dev/shm").is_dir() { PathBuf::from("/dev/shm") } else { std::env::temp_dir() };
    let dir = base.join(format!("blue-c09-{}-{}", std::process::id(), args.seed));
    let _ = std::fs::remove_dir_all(&dir);
    std::fs::create_dir_all(&dir).unwrap();

    // ---- pristine files ----------------------------------------------------------------------
    let mut files: Vec<PFile> = vec![];
    let (n_sst, n_log, n_mani) = if thorough { (6, 5, 5) } else { (2, 2, 2) };
    for i in 0..n_sst {
        let mut rng = Rng::for_case(args.seed, 1, i);
        let mut made = None;
        for _try in 0..40 {
            let target = if thorough { rng.range(12, 70) } else { rng.range(10, 28) } as usize;
            let es = gen_sst_entries(&mut rng, target);
            if es.is_empty() {
                continue;
            }
            let bri = *rng.pick(&[1u64, 16, 64, 1024]);
            let pri = *rng.pick(&[1u64, 2, 3, 16]);
            let tbs = *rng.pick(&[1u64, 40, 100, 200, 400]);
            let bloom = *rng.pick(&[1u64, 4, 10, 17]);
            let bytes = match build_sst(&dir, &es, sst_options(bri, pri, tbs, bloom)) {
                Ok(b) => b,
                Err(_) => continue,
            };
            let maxlen = if thorough { 2600 } else { 1000 };
            if let Some((rs, nd)) = sst_regions(&bytes) {
                if nd >= 2 && bytes.len() <= maxlen {
                    made = Some((es, bytes, rs, nd, format!("{} entries, {} data blocks, restart intervals {}/{}, target block size {}, bloom bits {}", 0, nd, bri, pri, tbs, bloom)));
                    break;
                }
            }
        }
        let Some((es, bytes, rs, _nd, what)) = made else {
            rec.count("sst.generation-gave-up");
            continue;
        };
        // probes: every key at the newest possible timestamp, at each of its versions' timestamps
        // (capped), just below its oldest version and at zero
        let mut probes: Vec<(Vec<u8>, u64)> = vec![];
        let keys: BTreeSet<Vec<u8>> = es.iter().map(|e| e.key.clone()).collect();
        for k in &keys {
            let tss: Vec<u64> = es.iter().filter(|e| &e.key == k).map(|e| e.ts).collect();
            let mut want: Vec<u64> = vec![u64::MAX, tss[0], *tss.last().unwrap(), tss.last().unwrap().saturating_sub(1), 0];
            want.dedup();
            for t in want {
                if !probes.contains(&(k.clone(), t)) {
                    probes.push((k.clone(), t));
                }
            }
        }
        let what = what.replacen("0 entries", &format!("{} entries", es.len()), 1);
        rec.add("sst.file_bytes", bytes.len() as u64);
        let Some((cregs, filter_limit)) = sst_cregs(&bytes) else {
            rec.count("sst.layout-not-understood");
            continue;
        };
        files.push(PFile { spec: FileSpec { id: files.len(), kind: "sst".into(), bytes, probes, batch_ends: vec![] }, regions: rs, cregs, filter_limit, frames: vec![], what });
    }
    for i in 0..n_log {
        let mut rng = Rng::for_case(args.seed, 2, i);
        let nb = rng.range(3, if thorough { 9 } else { 6 }) as usize;
        let batches = gen_log_batches(&mut rng, nb);
        let Ok(bytes) = build_log(&batches) else {
            rec.count("log.generation-gave-up");
            continue;
        };
        let Some((rs, frames)) = log_regions(&bytes) else {
            rec.count("log.layout-not-understood");
            continue;
        };
        let mut ends = vec![];
        let mut c = 0;
        for b in &batches {
            c += b.len();
            ends.push(c);
        }
        rec.add("log.file_bytes", bytes.len() as u64);
        let cregs = log_cregs(&bytes);
        files.push(PFile { spec: FileSpec { id: files.len(), kind: "log".into(), bytes, probes: vec![], batch_ends: ends }, regions: rs, cregs, filter_limit: 0, frames, what: format!("{} batches", batches.len()) });
    }
    // the log that crosses a block boundary
    let boundary_id = {
        let mut rng = Rng::for_case(args.seed, 3, 0);
        match boundary_batches(&mut rng).and_then(|b| build_log(&b).ok().map(|x| (b, x))) {
            Some((batches, bytes)) => match log_regions(&bytes) {
                Some((rs, frames)) if frames.len() >= 3 && frames[frames.len() - 2].0 == (1 << 20) - 20 && frames[frames.len() - 1].0 == 1 << 20 => {
                    let mut ends = vec![];
                    let mut c = 0;
                    for b in &batches {
                        c += b.len();
                        ends.push(c);
                    }
                    rec.count("log.boundary-file");
                    let nb_frames = frames.len();
                    let cregs = log_cregs(&bytes);
                    files.push(PFile {
                        spec: FileSpec { id: files.len(), kind: "log".into(), bytes, probes: vec![], batch_ends: ends },
                        regions: rs,
                        cregs,
                        filter_limit: 0,
                        frames,
                        what: format!("{} appends; the last but one frame (18 bytes) starts 20 bytes before the 1 MiB block boundary, the last on it", nb_frames),
                    });
                    Some(files.len() - 1)
                }
                _ => {
                    rec.count("log.boundary-layout-not-as-planned");
                    None
                }
            },
            None => {
                rec.count("log.boundary-generation-gave-up");
                None
            }
        }
    };
    // the log in which one append is split across the block boundary (FIRST / SECOND frames)
    let split_id = {
        let mut rng = Rng::for_case(args.seed, 5, 0);
        match split_batches(&mut rng).and_then(|b| build_log(&b).ok().map(|x| (b, x))) {
            Some((batches, bytes)) => match log_regions(&bytes) {
                Some((rs, frames)) => {
                    let cregs = log_cregs(&bytes);
                    let has = |k: &str| cregs.iter().any(|r| r.2 == "payload" && r.4 == k);
                    if has("first") && has("second") && cregs.iter().any(|r| r.2 == "padding") {
                        let mut ends = vec![];
                        let mut c = 0;
                        for b in &batches {
                            c += b.len();
                            ends.push(c);
                        }
                        rec.count("log.split-file");
                        let nfr = frames.len();
                        files.push(PFile {
                            spec: FileSpec { id: files.len(), kind: "log".into(), bytes, probes: vec![], batch_ends: ends },
                            regions: rs,
                            cregs,
                            filter_limit: 0,
                            frames,
                            what: format!("{} frames; the last but one append is split across the 1 MiB block boundary into a FIRST frame, padding and a SECOND frame", nfr),
                        });
                        Some(files.len() - 1)
                    } else {
                        rec.count("log.split-layout-not-as-planned");
                        None
                    }
                }
                None => {
                    rec.count("log.split-layout-not-understood");
                    None
                }
            },
            None => {
                rec.count("log.split-generation-gave-up");
                None
            }
        }
    };
    for i in 0..n_mani {
        let mut rng = Rng::for_case(args.seed, 4, i);
        let ne = rng.range(3, if thorough { 8 } else { 5 }) as usize;
        let Ok(bytes) = build_mani(&dir, &mut rng, ne) else {
            rec.count("mani.generation-gave-up");
            continue;
        };
        let rs = mani_regions(&bytes);
        rec.add("mani.file_bytes", bytes.len() as u64);
        let cregs = mani_cregs(&bytes);
        files.push(PFile { spec: FileSpec { id: files.len(), kind: "mani".into(), bytes, probes: vec![], batch_ends: vec![] }, regions: rs, cregs, filter_limit: 0, frames: vec![], what: format!("{} edits", ne) });
    }

    // ---- jobs --------------------------------------------------------------------------------
    // case order: each file's own line, then its damage
    let mut jobs: Vec<Job> = vec![];
    for f in &files {
        jobs.push(Job { file: f.spec.id, ds: vec![] });
        let mut rng = Rng::for_case(args.seed, 10, f.spec.id as u64);
        let list = if Some(f.spec.id) == boundary_id {
            boundary_damage(&f.spec.bytes, &f.frames, thorough)
        } else if Some(f.spec.id) == split_id {
            split_damage(&f.spec.bytes, &f.cregs, thorough)
        } else {
            damage_list(&mut rng, &f.spec.bytes, &f.spec.kind, &f.regions, thorough)
        };
        for ds in list {
            jobs.push(Job { file: f.spec.id, ds });
        }
    }
    // store level: one store, its log damaged
    let store_at = jobs.len();
    let mut store_root: Option<PathBuf> = None;
    let mut store_log: Vec<u8> = vec![];
    match build_store(&dir, args.seed).and_then(|r| load_store(&r, args.seed)) {
        Ok(sc) => {
            store_log = sc.log_bytes.clone();
            store_root = Some(sc.pristine.clone());
            let n = store_log.len();
            let mut rng = Rng::for_case(args.seed, 21, 0);
            jobs.push(Job { file: usize::MAX, ds: vec![] });
            for l in 0..n {
                jobs.push(Job { file: usize::MAX, ds: vec![Dmg::Trunc(l)] });
            }
            let nflip = if thorough { 8 * n } else { 3 * n };
            for i in 0..nflip {
                let (o, b) = if thorough { (i / 8, (i % 8) as u8) } else { (rng.below(n as u64) as usize, rng.below(8) as u8) };
                jobs.push(Job { file: usize::MAX, ds: vec![Dmg::Flip(o, b)] });
            }
            for _ in 0..n / 2 {
                let o = rng.below(n as u64) as usize;
                jobs.push(Job { file: usize::MAX, ds: vec![Dmg::Over(o, other_byte(&mut rng, store_log[o]))] });
            }
            for _ in 0..8 {
                let l = 1 + rng.below(12) as usize;
                jobs.push(Job { file: usize::MAX, ds: vec![Dmg::App(rng.bytes(l))] });
            }
            rec.add("store.log_bytes", n as u64);
        }
        Err(e) => {
            rec.count("store.generation-gave-up");
            eprintln!("C09: store stream not built: {}", e);
        }
    }
    let _ = store_at;
    let replay = args.only_case;
    let jobs_path = dir.join("jobs.txt");
    {
        let mut w = std::io::BufWriter::new(std::fs::File::create(&jobs_path).unwrap());
        for f in &files {
            let be = if f.spec.batch_ends.is_empty() { "-".to_string() } else { f.spec.batch_ends.iter().map(|x| x.to_string()).collect::<Vec<_>>().join(",") };
            writeln!(w, "F {} {} {} {} {}", f.spec.id, f.spec.kind, hex(&f.spec.bytes), probes_tok(&f.spec.probes), be).unwrap();
        }
        for (i, j) in jobs.iter().enumerate() {
            let wanted = replay.map(|k| k == i as u64).unwrap_or(true);
            if wanted {
                if j.file == usize::MAX {
                    writeln!(w, "S {} {} {}", args.seed, store_root.as_ref().unwrap().display(), seq_tok(&j.ds)).unwrap();
                    continue;
                }
                let full = j.ds.is_empty() || replay.is_some();
                writeln!(w, "J {} {} {}", j.file, if full { 1 } else { 0 }, seq_tok(&j.ds)).unwrap();
            }
        }
    }
    let nrun = if replay.is_some() { jobs.iter().enumerate().filter(|(i, _)| replay == Some(*i as u64)).count() } else { jobs.len() };
    let results = run_children(&jobs_path, nrun, &dir, &mut rec);

    // ---- cases -------------------------------------------------------------------------------
    let mut ri = 0;
    for (i, j) in jobs.iter().enumerate() {
        if !rec.wants() {
            rec.skip();
            continue;
        }
        let _ = i;
        let r = &results[ri];
        ri += 1;
        if j.file == usize::MAX {
            // store-level case: no model instance (a `#` line is echoed by the driver)
            let kinds: Vec<&str> = j.ds.iter().map(dmg_kind).collect();
            let kind_tok = if kinds.is_empty() { "pristine".to_string() } else { kinds[0].to_string() };
            let req = format!("# store seed={} KeyValueStore::open after writes, close, log damage {} (log of {} bytes)", args.seed, seq_tok(&j.ds), store_log.len());
            let v = match r.class.as_str() {
                "same" | "err" | "prefix" => Verdict::Ok,
                "panic-replay-after-reader-error" => Verdict::Fail { class: CLASS_D3.into(), detail: format!("{} damage={} log={}", r.detail, seq_tok(&j.ds), hex(&store_log)) },
                "different" => Verdict::Fail { class: "unclassified-different".into(), detail: format!("store {} damage={} log={}", r.detail, seq_tok(&j.ds), hex(&store_log)) },
                c => Verdict::Fail { class: if c == "panic" { "unclassified-panic".into() } else { c.to_string() }, detail: format!("store {} damage={} log={}", r.detail, seq_tok(&j.ds), hex(&store_log)) },
            };
            rec.count(&format!("store.{}.{}", kind_tok, r.class));
            if let Verdict::Fail { class, .. } = &v {
                rec.count(&format!("FAIL.{}", class));
            }
            let nt = if j.ds.is_empty() { None } else { Some(fnv(format!("store {} {}", fnv(&store_log), seq_tok(&j.ds)).as_bytes())) };
            rec.case(&req, &format!("# {} -> {}", r.obs, r.class), v, nt);
            continue;
        }
        let f = &files[j.file];
        let pristine = j.ds.is_empty();
        let req = if pristine {
            format!("dmg file {} {} {} {}", f.spec.kind, f.spec.id, hex(&f.spec.bytes), probes_tok(&f.spec.probes))
        } else if replay.is_some() {
            format!("dmg one {} {} {} f {}", f.spec.kind, hex(&f.spec.bytes), probes_tok(&f.spec.probes), seq_tok(&j.ds))
        } else {
            format!("dmg d {} {}", f.spec.id, seq_tok(&j.ds))
        };
        let cls = class_of(&f.spec.kind, &f.cregs, f.filter_limit, &j.ds);
        let obs = if pristine {
            if r.class != "abort-or-oom" && r.class != "hang" { format!("file {} {} {}", f.spec.kind, f.spec.bytes.len(), r.obs) } else { r.obs.clone() }
        } else {
            format!("cls={} {}", cls, r.obs)
        };
        let kinds: Vec<&str> = j.ds.iter().map(dmg_kind).collect();
        let kind_tok = if kinds.len() == 1 { kinds[0].to_string() } else if kinds.is_empty() { "pristine".into() } else { "sequence".into() };
        let regs = job_regions(f, &j.ds);
        let reg_tok = if regs.len() == 1 { regs[0].clone() } else if regs.is_empty() { "-".into() } else { "several".into() };
        let v = if pristine {
            if r.class == "same" { Verdict::Ok } else { Verdict::Fail { class: "pristine-file-does-not-read-back".into(), detail: format!("{} {}", r.class, r.detail) } }
        } else {
            verdict(f, &j.ds, r)
        };
        rec.count(&format!("{}.{}.{}", f.spec.kind, kind_tok, r.class));
        if !pristine {
            // which theorem's hypothesis class the case falls in, and what came of it
            rec.count(&format!("class.{}", cls));
            rec.count(&format!("class.{}.{}", cls, r.class));
            if r.detail.contains("edit-after-error") {
                rec.count("mani.iterator-returns-an-edit-after-an-unpoisoned-error");
            }
        }
        if kind_tok == "flip" || kind_tok == "overwrite" {
            rec.count(&format!("{}.region.{}.{}", f.spec.kind, reg_tok, r.class));
        }
        if let Verdict::Fail { class, .. } = &v {
            rec.count(&format!("FAIL.{}", class));
        }
        let nt = if pristine { None } else { Some(fnv(format!("{} {}", fnv(&f.spec.bytes), seq_tok(&j.ds)).as_bytes())) };
        rec.case(&req, &obs, v, nt);
    }
    let _ = std::fs::remove_dir_all(&dir);
    rec.finish(
        "pristine SSTs (>= 2 data blocks, index, filter, final block), small logs, one log crossing a 1 MiB block boundary (a tiny frame starting 20 bytes before it), manifests of several edits, all built by the real code from seeded contents and options; per file EVERY single-bit flip at every offset, EVERY truncation length, 2-3 (12+ in header/final/trailer/crc/separator/newline regions) overwrite values per offset, ~20 appended suffixes (random, zeros, the file's own tail cut off a record boundary, separator/newline, the trailer or final block again, a frame header claiming 64 MiB / TABLE_FULL_SIZE+1) and ~250 (thorough 1500) sequences of 2-3 damage steps (a third clustered within 16 bytes); the boundary log gets damage on the bytes round the boundary and on header-length bytes only (every model evaluation of it costs a third of a second). Plus a store-level stream without model (`#` lines): a real KeyValueStore is written and closed, its log is damaged (every truncation, sampled/all bit flips, overwrites, suffixes) and KeyValueStore::open is run on a copy of the directory. Every damaged file is read by the real code in a child process under RLIMIT_AS = 2 GiB with the largest single allocation request recorded; a child that dies is restarted after the job it died in (`abort-or-oom`). Non-trivial = every damaged-file case (the damage changes the bytes); distinct by (file contents, damage sequence).",
        &[],
    );
}
