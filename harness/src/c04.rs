//! C04 — one setsum covers all data: manifest, files and contents always balance.
//!
//! Store histories as in C01 with verifier passes mixed in.  After every operation:
//!  * oracle (books_balance): `O` of the newest manifest edit == sum of the setsums of the SSTs of
//!    the current version == sum of the setsums recomputed from the entries actually stored;
//!    every edit balances (I = O + D), continues from its predecessor's O, every fragment starts
//!    with the state at its creation; ManifestVerifier accepts every fragment; LsmVerifier never
//!    reports corruption on a history the store produced.
//!  * correspondence: `Blue.Books.verify` over the canonical-setsum group on the same records ==
//!    the real ManifestVerifier's verdict; the model's sum of the listed digests == recorded `O`.
//!  * tamper stream: one hex digit of one recorded digest changed in a copy of a fragment — the
//!    real verifier and the model must both reject.
use crate::common::*;

fn tainted(v: Verdict, taint: &Option<String>) -> Verdict {
    match (v, taint) {
        (Verdict::Ok, Some(c)) => Verdict::Taint { class: c.clone() },
        (v, _) => v,
    }
}

use crate::store::*;
use std::path::{Path, PathBuf};

#[derive(Clone, Debug, Default)]
struct EditRec {
    i: Option<String>,
    o: Option<String>,
    d: Option<String>,
    l: Option<String>,
    added: Vec<String>,
    rmed: Vec<String>,
}

fn list_fragments(root: &str) -> Vec<PathBuf> {
    let mani_root = lsmtk::MANI_ROOT(root);
    let mut nums: Vec<u64> = vec![];
    if let Ok(rd) = std::fs::read_dir(&mani_root) {
        for e in rd.flatten() {
            if let Some(n) = mani::extract_backup(e.path()) {
                nums.push(n);
            }
        }
    }
    nums.sort();
    let mut v: Vec<PathBuf> = nums.into_iter().map(|n| mani::BACKUP(&mani_root, n)).collect();
    v.push(mani::MANIFEST(&mani_root));
    v
}

fn read_fragment(path: &Path) -> Result<Vec<EditRec>, String> {
    let it = mani::ManifestIterator::open(path).map_err(|e| format!("{:?}", e))?;
    let mut out = vec![];
    for e in it {
        let e = e.map_err(|e| format!("{:?}", e))?;
        out.push(EditRec {
            i: e.get_info('I').cloned(),
            o: e.get_info('O').cloned(),
            d: e.get_info('D').cloned(),
            l: e.get_info('L').cloned(),
            added: e.added().cloned().collect(),
            rmed: e.rmed().cloned().collect(),
        });
    }
    Ok(out)
}

fn write_fragment(path: &Path, edits: &[EditRec]) {
    let mut s = String::new();
    let line = |body: String| format!("{:08x}{}\n", crc32c::crc32c(body.as_bytes()), body);
    for e in edits {
        for r in &e.rmed {
            s += &line(format!("-{}", r));
        }
        for a in &e.added {
            s += &line(format!("+{}", a));
        }
        // BTreeMap<char, String> order: 'D' < 'I' < 'L' < 'O'
        if let Some(x) = &e.d {
            s += &line(format!("D{}", x));
        }
        if let Some(x) = &e.i {
            s += &line(format!("I{}", x));
        }
        if let Some(x) = &e.l {
            s += &line(format!("L{}", x));
        }
        if let Some(x) = &e.o {
            s += &line(format!("O{}", x));
        }
        s += "--------\n";
    }
    std::fs::write(path, s).unwrap();
}

fn verdict_class(r: &Result<Vec<(setsum::Setsum, setsum::Setsum, setsum::Setsum)>, lsmtk::SError>) -> String {
    match r {
        Ok(_) => "accept".into(),
        Err(e) => {
            let s = format!("{:?}", e);
            if s.contains("does not continue") {
                "reject chain".into()
            } else if s.contains("does not balance") {
                "reject balance".into()
            } else if s.contains("bad discard") {
                "reject discard".into()
            } else {
                format!("reject other:{}", s.chars().filter(|c| !c.is_whitespace()).take(80).collect::<String>())
            }
        }
    }
}

fn join_or_dash(v: &[String]) -> String {
    if v.is_empty() {
        "-".into()
    } else {
        v.join("+")
    }
}

/// the `ledger verify` request for a fragment: prev = O of the leading roll-up edit
fn ledger_request(edits: &[EditRec]) -> Option<String> {
    let first = edits.first()?;
    let prev = first.o.clone()?;
    let mut toks = vec![];
    for e in &edits[1..] {
        toks.push(format!("{},{},{},{},{}", e.i.clone()?, e.o.clone()?, e.d.clone()?, join_or_dash(&e.rmed), join_or_dash(&e.added)));
    }
    Some(format!("ledger verify {} {}", prev, toks.join(" ")))
}

fn strip_pos(s: &str) -> String {
    // model says "reject chain@3"; the implementation's class has no position
    match s.find('@') {
        Some(i) => s[..i].to_string(),
        None => s.to_string(),
    }
}

fn entry_setsum(entries: &[Ent]) -> setsum::Setsum {
    let mut acc = sst::Setsum::default();
    for (k, t, v) in entries {
        match v {
            Some(v) => acc.put(k, *t, v),
            None => acc.del(k, *t),
        }
    }
    acc.into_inner()
}

fn flip_hex_digit(rng: &mut Rng, s: &str) -> String {
    let mut b: Vec<u8> = s.as_bytes().to_vec();
    if b.is_empty() {
        return s.to_string();
    }
    let i = rng.below(b.len() as u64) as usize;
    let digits = b"0123456789abcdef";
    loop {
        let c = digits[rng.below(16) as usize];
        if c != b[i] {
            b[i] = c;
            break;
        }
    }
    String::from_utf8(b).unwrap()
}

fn copy_dir(from: &Path, to: &Path) -> std::io::Result<()> {
    std::fs::create_dir_all(to)?;
    for e in std::fs::read_dir(from)? {
        let e = e?;
        let p = e.path();
        let t = to.join(e.file_name());
        if p.is_dir() {
            copy_dir(&p, &t)?;
        } else {
            std::fs::copy(&p, &t)?;
        }
    }
    Ok(())
}

/// Rejection half for file contents: copy the store directory, find a garbage-collection edit the
/// verifier has not processed yet, drop / duplicate-with-new-timestamp / modify ONE entry of one
/// of the files that edit removed (keeping the file's name, so every recorded digest still
/// matches), and run the real LsmVerifier on the copy: it must report corruption.  The same copy
/// untampered must verify (otherwise the run is inconclusive and only counted).
fn tamper_sst_under_gc(rec: &mut Recorder, rng: &mut Rng, sim: &Sim, root: &str, tag: &str) {
    let frags = list_fragments(root);
    if frags.len() < 3 {
        return;
    }
    // fragments the verifier will process: all but the last two.  Any file a transaction in them
    // adds (a compaction / GC / flush output) or removes (an input) is a candidate.
    let mut cands: Vec<(String, &'static str)> = vec![];
    for f in &frags[..frags.len() - 2] {
        let Ok(edits) = read_fragment(f) else { return };
        for e in edits.iter().skip(1) {
            let zero = setsum::Setsum::default().hexdigest();
            let gc = !e.rmed.is_empty() && e.d.as_deref() != Some(zero.as_str());
            for a in &e.added {
                cands.push((a.clone(), if gc { "gc-output" } else if e.rmed.is_empty() { "flush-output" } else { "compaction-output" }));
            }
            for r in &e.rmed {
                cands.push((r.clone(), if gc { "gc-input" } else { "compaction-input" }));
            }
        }
    }
    if cands.is_empty() {
        rec.count("sst_tamper.no_unverified_transaction");
        return;
    }
    // pick the role first so that the rare roles (GC and compaction files) are not drowned out
    let mut roles: Vec<&'static str> = cands.iter().map(|c| c.1).collect();
    roles.sort();
    roles.dedup();
    let want = roles[rng.below(roles.len() as u64) as usize];
    let of_role: Vec<&(String, &'static str)> = cands.iter().filter(|c| c.1 == want).collect();
    let (victim, role) = of_role[rng.below(of_role.len() as u64) as usize].clone();
    let copy = format!("{}.tamper", root);
    let _ = std::fs::remove_dir_all(&copy);
    if copy_dir(Path::new(root), Path::new(&copy)).is_err() {
        return;
    }
    let verdict_of = |dir: &str| -> String {
        let opts = sim.cfg.options(dir);
        let r = match lsmtk::LsmVerifier::open(opts) {
            Ok(mut v) => v.verify(),
            Err(e) => Err(e),
        };
        match r {
            Ok(()) => "ok".to_string(),
            Err(e) => match lsmtk::backoff_path(&e) {
                Some(p) => format!("backoff:{}", p),
                None => {
                    let s = format!("{:?}", e);
                    if s.contains("corruption") { "corruption".to_string() } else { format!("error:{}", s.chars().filter(|c| !c.is_whitespace()).take(80).collect::<String>()) }
                }
            },
        }
    };
    // locate the victim in the copy (trash/ first, as the verifier does, then sst/)
    let name = format!("{}.sst", victim);
    let vpath = [format!("{}/trash/{}", copy, name), format!("{}/sst/{}", copy, name)].into_iter().find(|p| Path::new(p).exists());
    let Some(vpath) = vpath else {
        rec.count("sst_tamper.victim_not_present");
        let _ = std::fs::remove_dir_all(&copy);
        return;
    };
    let Ok(mut entries) = read_sst(&vpath) else {
        let _ = std::fs::remove_dir_all(&copy);
        return;
    };
    if entries.is_empty() {
        let _ = std::fs::remove_dir_all(&copy);
        return;
    }
    let i = rng.below(entries.len() as u64) as usize;
    let kind = match rng.below(3) {
        0 => {
            entries.remove(i);
            "drop"
        }
        1 => {
            entries[i].2 = Some(b"tampered".to_vec());
            "modify"
        }
        _ => {
            // "duplicate": the same key and payload once more under an unused older timestamp
            let mut e = entries[i].clone();
            let next_ts = entries.get(i + 1).filter(|n| n.0 == e.0).map(|n| n.1 + 1).unwrap_or(0);
            if e.1 == 0 || next_ts >= e.1 {
                entries.remove(i);
                "drop"
            } else {
                e.1 -= 1;
                entries.insert(i + 1, e);
                "duplicate"
            }
        }
    };
    if entries.is_empty() {
        // an SST cannot be empty; fall back to modifying the single entry
        let _ = std::fs::remove_dir_all(&copy);
        rec.count("sst_tamper.single_entry_file_skipped");
        return;
    }
    // rebuild the file under the same name
    let tmp = format!("{}.rebuild", vpath);
    let built = (|| -> Result<(), String> {
        use sst::Builder;
        let mut b = sst::SstBuilder::new(sst::SstOptions::default(), &tmp).map_err(|e| format!("{:?}", e))?;
        for (k, t, v) in &entries {
            match v {
                Some(v) => b.put(k, *t, v).map_err(|e| format!("{:?}", e))?,
                None => b.del(k, *t).map_err(|e| format!("{:?}", e))?,
            }
        }
        b.seal().map_err(|e| format!("{:?}", e))?;
        Ok(())
    })();
    if built.is_err() {
        let _ = std::fs::remove_dir_all(&copy);
        return;
    }
    // control: the untampered copy must verify
    let control_dir = format!("{}.control", root);
    let _ = std::fs::remove_dir_all(&control_dir);
    let control = if copy_dir(Path::new(root), Path::new(&control_dir)).is_ok() { verdict_of(&control_dir) } else { "copy-failed".to_string() };
    let _ = std::fs::remove_dir_all(&control_dir);
    let _ = std::fs::remove_file(&vpath);
    let _ = std::fs::rename(&tmp, &vpath);
    let tampered = verdict_of(&copy);
    let _ = std::fs::remove_dir_all(&copy);
    rec.count(&format!("sst_tamper.{}.{}", kind, role));
    if control != "ok" {
        rec.count("sst_tamper.inconclusive_control_not_ok");
        return;
    }
    let v = if tampered == "ok" {
        Verdict::Fail { class: "tampered-sst-entry-accepted".into(), detail: format!("{} {} one entry of {} ({} of an unverified transaction); LsmVerifier::verify still returns ok", tag, kind, &victim[..12], role) }
    } else {
        Verdict::Ok
    };
    rec.case(&format!("# {} sst-tamper {} {}", tag, kind, &victim[..12]), "#", v, Some(fnv(format!("{}{}{}", tag, kind, victim).as_bytes())));
}

pub fn run_history(rec: &mut Recorder, seed: u64, hidx: u64, len: usize, nkeys: usize, tampers: usize, gc_focus: bool) {
    let mut rng = Rng::for_case(seed, if gc_focus { 1040 } else { 104 }, hidx);
    let mut cfg = Cfg::gen(&mut rng);
    let mode = if gc_focus { 1 } else { hidx % 4 % 3 };
    let mut ops = gen_history(&mut rng, if mode == 1 { len * if gc_focus { 4 } else { 2 } } else { len }, nkeys, mode);
    if gc_focus {
        // garbage collections at the last level, manifest fragments rolling over after nearly every
        // transaction, and no verifier pass consuming them: GC edits pile up unverified
        cfg.mani_ratio = 1;
        ops.retain(|o| !matches!(o, Op::Verify));
    }
    let root = scratch_dir(&format!("c04.{}", hidx));
    rec.aux(&format!("history {} cfg {} ops {}", hidx, cfg.render(), ops.iter().map(|o| o.render()).collect::<Vec<_>>().join(" ")));
    let mut sim = match Sim::open(&root, &cfg) {
        Ok(s) => s,
        Err(e) => {
            rec.case(&format!("# history {} open", hidx), "#", Verdict::Fail { class: "open-error".into(), detail: e }, None);
            return;
        }
    };
    let mverifier = lsmtk::ManifestVerifier::open().unwrap();
    let mut taint: Option<String> = None;
    let mut seen_fragments: std::collections::BTreeSet<String> = Default::default();
    for (step, op) in ops.iter().enumerate() {
        let tag = format!("h{}s{}:{}", hidx, step, op.render());
        if let Op::Reopen = op {
            if taint.is_none() {
                if let Ok(d) = sim.dump() {
                    if crate::c01::d9_trigger(&d) {
                        taint = Some("reopen-with-key-and-timestamp-overlapping-files".to_string());
                        rec.count("histories_tainted_by_D9_trigger");
                    }
                }
            }
        }
        let res = match guarded(std::panic::AssertUnwindSafe(|| sim.apply(op))) {
            Ok(r) => r,
            Err(p) => Err(format!("panic:{}", p)),
        };
        if let Err(e) = res {
            rec.case(&format!("# {}", tag), "#", Verdict::Fail { class: taint.clone().unwrap_or_else(|| "fault-free-op-error".to_string()), detail: format!("{} -> {}", tag, e) }, None);
            break;
        }
        sim.chosen.clear();
        if let Op::Verify = op {
            // the pass itself already ran inside apply(); nothing more here
        }
        if gc_focus && matches!(op, Op::Flush | Op::Compact(_)) && taint.is_none() && rng.chance(1, 3) {
            tamper_sst_under_gc(rec, &mut rng, &sim, &root, &tag);
        }
        if let Op::Verify = op {
            rec.count(if sim.last_verify == "ok" { "verifier.ok" } else if sim.last_verify.starts_with("backoff") { "verifier.backoff" } else { "verifier.error" });
            if sim.last_verify.starts_with("error") {
                rec.case(&format!("# {}", tag), "#", Verdict::Fail { class: taint.clone().unwrap_or_else(|| sim.verifier_reject_class()), detail: format!("{} {}", tag, sim.last_verify) }, None);
            }
            // the store is quiescent when the pass runs (no reader snapshot, no compaction in
            // flight), so nothing the verifier waits for can still arrive
            if sim.last_verify.starts_with("backoff") {
                rec.case(&format!("# {}", tag), "#", Verdict::Fail { class: taint.clone().unwrap_or_else(|| "verifier-backoff-on-quiescent-store".to_string()), detail: format!("{} {}", tag, sim.last_verify) }, None);
            }
        }
        // only steps that may have written a manifest transaction
        match op {
            Op::Flush | Op::Compact(_) | Op::Reopen | Op::Verify => {}
            _ => {
                if rng.chance(2, 3) {
                    continue;
                }
            }
        }
        let d = match sim.dump() {
            Ok(d) => d,
            Err(e) => {
                rec.case(&format!("# {}", tag), "#", Verdict::Fail { class: "dump-error".into(), detail: e }, None);
                break;
            }
        };
        let frags = list_fragments(&root);
        let mut bad: Vec<String> = vec![];
        // --- current state: manifest O == sum of listed files == sum recomputed from contents
        let newest = read_fragment(frags.last().unwrap());
        let mut listed: Vec<String> = vec![];
        let mut recorded_o = String::new();
        match &newest {
            Ok(edits) => {
                let mut strs: std::collections::BTreeSet<String> = Default::default();
                for e in edits {
                    for r in &e.rmed {
                        strs.remove(r);
                    }
                    for a in &e.added {
                        strs.insert(a.clone());
                    }
                    if let Some(o) = &e.o {
                        recorded_o = o.clone();
                    }
                }
                listed = strs.into_iter().collect();
            }
            Err(e) => bad.push(format!("MANIFEST unreadable: {}", e)),
        }
        let mut file_digests: Vec<String> = vec![];
        let mut sum_meta = setsum::Setsum::default();
        let mut sum_content = setsum::Setsum::default();
        for l in &d.levels {
            for f in l {
                let s = setsum::Setsum::from_digest(f.setsum);
                sum_meta += s;
                let c = entry_setsum(&f.entries);
                sum_content += c;
                if c != s {
                    bad.push(format!("file {} setsum differs from setsum of its entries", &hex(&f.setsum)[..12]));
                }
                file_digests.push(s.hexdigest());
            }
        }
        file_digests.sort();
        // the manifest object the running store holds must list exactly the version's files
        {
            let (mut live_strs, live_o) = sim.kvs().verif_tree().verif_manifest();
            live_strs.sort();
            if live_strs != file_digests {
                bad.push(format!("the store's in-memory manifest lists {} files, its version holds {}", live_strs.len(), file_digests.len()));
            }
            if live_o.as_deref() != Some(sum_meta.hexdigest().as_str()) {
                bad.push("the store's in-memory manifest O != sum of the version's files".to_string());
            }
        }
        if newest.is_ok() {
            if file_digests != listed {
                bad.push(format!("manifest lists {} files, version holds {}", listed.len(), file_digests.len()));
            }
            if sum_meta.hexdigest() != recorded_o {
                bad.push(format!("manifest O {} != sum of listed files {}", &recorded_o[..recorded_o.len().min(12)], &sum_meta.hexdigest()[..12]));
            }
            if sum_content.hexdigest() != recorded_o {
                bad.push("manifest O != setsum recomputed from all stored entries".to_string());
            }
        }
        let req = format!("ledger total {}", file_digests.join(" "));
        let v = if bad.is_empty() { Verdict::Ok } else { Verdict::Fail { class: taint.clone().unwrap_or_else(|| "books-do-not-balance".to_string()), detail: format!("{} {}", tag, bad.join("; ")) } };
        rec.count("state_checks");
        rec.case(&req, &recorded_o, tainted(v, &taint), if file_digests.len() >= 2 { Some(fnv(req.as_bytes())) } else { None });
        // --- every fragment: chain, balance, verifier verdict; model verdict
        let mut prev_last_o: Option<String> = None;
        for (fi, f) in frags.iter().enumerate() {
            let edits = match read_fragment(f) {
                Ok(e) => e,
                Err(e) => {
                    rec.case(&format!("# {} fragment {}", tag, fi), "#", Verdict::Fail { class: taint.clone().unwrap_or_else(|| "fragment-unreadable".to_string()), detail: e }, None);
                    continue;
                }
            };
            if edits.is_empty() {
                continue;
            }
            let mut fbad = vec![];
            if let (Some(p), Some(o)) = (&prev_last_o, &edits[0].o) {
                if p != o {
                    fbad.push(format!("fragment {} does not start from the previous fragment's output", fi));
                }
            }
            prev_last_o = edits.last().and_then(|e| e.o.clone());
            let is_newest = fi + 1 == frags.len();
            // completed fragments never change again: check each once; the newest every time
            let key = format!("{}:{}", f.display(), edits.len());
            if !is_newest && seen_fragments.contains(&key) {
                continue;
            }
            seen_fragments.insert(key);
            let real = mverifier.verify(f);
            let cls = verdict_class(&real);
            if cls != "accept" {
                fbad.push(format!("ManifestVerifier rejects store-written fragment {}: {}", fi, cls));
            }
            if let Some(req) = ledger_request(&edits) {
                let v = if fbad.is_empty() { Verdict::Ok } else { Verdict::Fail { class: taint.clone().unwrap_or_else(|| "books-do-not-balance".to_string()), detail: format!("{} {}", tag, fbad.join("; ")) } };
                rec.count("fragments_verified");
                rec.add("edits_verified", edits.len() as u64 - 1);
                let kinds = edits[1..].iter().filter(|e| !e.rmed.is_empty() && e.d.as_deref() != Some(&setsum::Setsum::default().hexdigest())).count();
                rec.add("gc_edits", kinds as u64);
                rec.case(&req, &cls, tainted(v, &taint), if edits.len() >= 3 { Some(fnv(req.as_bytes())) } else { None });
                // --- tamper stream on this fragment
                if edits.len() >= 2 {
                    for _ in 0..tampers {
                        let mut t = edits.clone();
                        let ei = rng.range(1, t.len() as u64 - 1) as usize;
                        let what = rng.below(5);
                        let e = &mut t[ei];
                        let kind = match what {
                            0 => {
                                e.i = e.i.as_ref().map(|s| flip_hex_digit(&mut rng, s));
                                "I"
                            }
                            1 => {
                                e.o = e.o.as_ref().map(|s| flip_hex_digit(&mut rng, s));
                                "O"
                            }
                            2 => {
                                e.d = e.d.as_ref().map(|s| flip_hex_digit(&mut rng, s));
                                "D"
                            }
                            3 if !e.added.is_empty() => {
                                let k = rng.below(e.added.len() as u64) as usize;
                                e.added[k] = flip_hex_digit(&mut rng, &e.added[k]);
                                "added"
                            }
                            _ if !e.rmed.is_empty() => {
                                let k = rng.below(e.rmed.len() as u64) as usize;
                                e.rmed[k] = flip_hex_digit(&mut rng, &e.rmed[k]);
                                "rmed"
                            }
                            _ => {
                                e.d = e.d.as_ref().map(|s| flip_hex_digit(&mut rng, s));
                                "D"
                            }
                        };
                        let tpath = PathBuf::from(format!("{}/tampered.manifest", root));
                        write_fragment(&tpath, &t);
                        let real = mverifier.verify(&tpath);
                        let cls = verdict_class(&real);
                        let _ = std::fs::remove_file(&tpath);
                        let req = ledger_request(&t).unwrap();
                        rec.count(&format!("tamper.{}", kind));
                        let v = if cls == "accept" { Verdict::Fail { class: "tampered-digest-accepted".into(), detail: format!("{} edit {} field {}", tag, ei, kind) } } else { Verdict::Ok };
                        rec.case(&req, &cls, v, Some(fnv(req.as_bytes())));
                    }
                }
            }
        }
        let _ = strip_pos;
    }
    rec.add("flushes", sim.flushes);
    rec.add("compactions", sim.compactions);
    rec.add("reopens", sim.reopens);
    sim.close();
}

pub fn run(args: &Args) {
    let mut rec = Recorder::new(&args.out, args.only_case);
    let (nh, len, tampers) = if args.thorough { (300, 100, 3) } else { (60, 50, 2) };
    for h in 0..nh {
        let nkeys = if h % 3 == 0 { 4 } else if h % 3 == 1 { 7 } else { 12 };
        run_history(&mut rec, args.seed, h, len, nkeys, tampers, false);
    }
    for h in 0..(if args.thorough { 60 } else { 12 }) {
        run_history(&mut rec, args.seed, h, len, if h % 2 == 0 { 5 } else { 9 }, 0, true);
    }
    rec.finish(
        "store histories as in C01; after every manifest transaction (flush, compaction step, reopen) and a third of the writes: books of the current state (manifest O vs sum of listed SST setsums vs setsums recomputed from stored entries), every manifest fragment's chain/balance/discard through the real ManifestVerifier and through Blue.Books.verify over the canonical-setsum group, and tampered copies of fragments with one hex digit of one recorded digest (I, O, D, added, removed) changed; non-trivial = a state with >= 2 files, a fragment with >= 2 transactions, any tampered fragment; distinct by request",
        &[],
    );
}
