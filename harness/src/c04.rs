//! C04 — one setsum covers all data: manifest, files and contents always balance.
//!
//! Store histories as in C01 with verifier passes mixed in.  After every operation:
//!  * oracle (books_balance): `O` of the newest manifest edit == sum of the setsums of the SSTs of
//!    the current version == sum of the setsums recomputed from the entries actually stored;
//!    every edit balances (I = O + D), continues from its predecessor's O, every fragment starts
//!    with the state at its creation; ManifestVerifier accepts every fragment; LsmVerifier never
//!    reports corruption on a history the store produced.
//!  * correspondence (digests): `Blue.Books.verify` over the canonical-setsum group on the same
//!    records == the real ManifestVerifier's verdict; the model's sum of the listed digests ==
//!    recorded `O`; tamper stream: one hex digit of one recorded digest changed in a copy of a
//!    fragment — both must reject; or its text changed to another spelling of the same value (`+x`,
//!    upper case) — both must accept.
//!  * correspondence (contents, `vone pass`): every pass of the real LsmVerifier against
//!    `Blue.Verifier.pass` run with the real checks (`Blue.VerifyOne.contentChecker`) on the dumped
//!    directory (digests in full), the contents of every file the pass can read (through the
//!    implementation's cursors, each entry with the setsum the real `sst::Setsum` gives it alone)
//!    and the policy: status with the failing check, unlinked names, verify/ state.  Passes inside
//!    histories; on untampered copies; on copies with ONE entry of ONE file changed under the
//!    file's name (`tamper_matrix`: file kind x tamper kind x metadata kept/recomputed), which must
//!    end in a corruption error; on hand-written directories with one garbage collection whose
//!    record is consistent but whose outputs are not the policy's (`gc_directed`).
use crate::common::*;

fn tainted(v: Verdict, taint: &Option<String>) -> Verdict {
    match (v, taint) {
        (Verdict::Ok, Some(c)) => Verdict::Taint { class: c.clone() },
        (v, _) => v,
    }
}

use crate::store::*;
use std::path::{Path, PathBuf};

#[derive(Clone, Debug, Default)]
struct EditRec {
    i: Option<String>,
    o: Option<String>,
    d: Option<String>,
    l: Option<String>,
    added: Vec<String>,
    rmed: Vec<String>,
}

fn list_fragments(root: &str) -> Vec<PathBuf> {
    let mani_root = lsmtk::MANI_ROOT(root);
    let mut nums: Vec<u64> = vec![];
    if let Ok(rd) = std::fs::read_dir(&mani_root) {
        for e in rd.flatten() {
            if let Some(n) = mani::extract_backup(e.path()) {
                nums.push(n);
            }
        }
    }
    nums.sort();
    let mut v: Vec<PathBuf> = nums.into_iter().map(|n| mani::BACKUP(&mani_root, n)).collect();
    v.push(mani::MANIFEST(&mani_root));
    v
}

fn read_fragment(path: &Path) -> Result<Vec<EditRec>, String> {
    let it = mani::ManifestIterator::open(path).map_err(|e| format!("{:?}", e))?;
    let mut out = vec![];
    for e in it {
        let e = e.map_err(|e| format!("{:?}", e))?;
        out.push(EditRec {
            i: e.get_info('I').cloned(),
            o: e.get_info('O').cloned(),
            d: e.get_info('D').cloned(),
            l: e.get_info('L').cloned(),
            added: e.added().cloned().collect(),
            rmed: e.rmed().cloned().collect(),
        });
    }
    Ok(out)
}

fn write_fragment(path: &Path, edits: &[EditRec]) {
    let mut s = String::new();
    let line = |body: String| format!("{:08x}{}\n", crc32c::crc32c(body.as_bytes()), body);
    for e in edits {
        for r in &e.rmed {
            s += &line(format!("-{}", r));
        }
        for a in &e.added {
            s += &line(format!("+{}", a));
        }
        // BTreeMap<char, String> order: 'D' < 'I' < 'L' < 'O'
        if let Some(x) = &e.d {
            s += &line(format!("D{}", x));
        }
        if let Some(x) = &e.i {
            s += &line(format!("I{}", x));
        }
        if let Some(x) = &e.l {
            s += &line(format!("L{}", x));
        }
        if let Some(x) = &e.o {
            s += &line(format!("O{}", x));
        }
        s += "--------\n";
    }
    std::fs::write(path, s).unwrap();
}

fn verdict_class(r: &Result<Vec<(setsum::Setsum, setsum::Setsum, setsum::Setsum)>, lsmtk::SError>) -> String {
    match r {
        Ok(_) => "accept".into(),
        Err(e) => {
            let s = format!("{:?}", e);
            if s.contains("does not continue") {
                "reject chain".into()
            } else if s.contains("does not balance") {
                "reject balance".into()
            } else if s.contains("bad discard") {
                "reject discard".into()
            } else {
                format!("reject other:{}", s.chars().filter(|c| !c.is_whitespace()).take(80).collect::<String>())
            }
        }
    }
}

fn join_or_dash(v: &[String]) -> String {
    if v.is_empty() {
        "-".into()
    } else {
        v.join("+")
    }
}

/// the `ledger verify` request for a fragment: prev = O of the leading roll-up edit
fn ledger_request(edits: &[EditRec]) -> Option<String> {
    let first = edits.first()?;
    let prev = first.o.clone()?;
    let mut toks = vec![];
    for e in &edits[1..] {
        toks.push(format!("{},{},{},{},{}", e.i.clone()?, e.o.clone()?, e.d.clone()?, join_or_dash(&e.rmed), join_or_dash(&e.added)));
    }
    Some(format!("ledger verify {} {}", prev, toks.join(" ")))
}

fn strip_pos(s: &str) -> String {
    // model says "reject chain@3"; the implementation's class has no position
    match s.find('@') {
        Some(i) => s[..i].to_string(),
        None => s.to_string(),
    }
}

fn entry_setsum(entries: &[Ent]) -> setsum::Setsum {
    let mut acc = sst::Setsum::default();
    for (k, t, v) in entries {
        match v {
            Some(v) => acc.put(k, *t, v),
            None => acc.del(k, *t),
        }
    }
    acc.into_inner()
}

fn flip_hex_digit(rng: &mut Rng, s: &str) -> String {
    let mut b: Vec<u8> = s.as_bytes().to_vec();
    if b.is_empty() {
        return s.to_string();
    }
    let i = rng.below(b.len() as u64) as usize;
    let digits = b"0123456789abcdef";
    loop {
        let c = digits[rng.below(16) as usize];
        if c != b[i] {
            b[i] = c;
            break;
        }
    }
    String::from_utf8(b).unwrap()
}

/// a copy of a store directory for a verifier pass: SSTs and trash entries are never written in
/// place (the verifier unlinks, the tamper stream replaces a file by rename), so they are hard
/// links; everything else (manifests, logs, verify/) is copied
fn copy_dir(from: &Path, to: &Path) -> std::io::Result<()> {
    copy_dir_at(from, to, false)
}

fn copy_dir_at(from: &Path, to: &Path, link: bool) -> std::io::Result<()> {
    std::fs::create_dir_all(to)?;
    for e in std::fs::read_dir(from)? {
        let e = e?;
        let p = e.path();
        let t = to.join(e.file_name());
        if p.is_dir() {
            let name = e.file_name().to_string_lossy().to_string();
            copy_dir_at(&p, &t, link || name == "sst" || name == "trash")?;
        } else if link && p.extension().map(|x| x == "sst").unwrap_or(false) {
            if std::fs::hard_link(&p, &t).is_err() {
                std::fs::copy(&p, &t)?;
            }
        } else {
            std::fs::copy(&p, &t)?;
        }
    }
    Ok(())
}

// ---------------------------------------------------------------------------------------------
// `vone`: one whole pass of the real LsmVerifier against `Blue.Verifier.pass` run with the real
// checks (`Blue.VerifyOne.contentChecker`): the directory as the pass finds it (digests in full),
// the contents of every file the pass can read (through the implementation's cursors, each entry
// with the setsum the real `sst::Setsum` gives it alone), the policy.

#[derive(Clone, Debug, Default)]
pub struct FullDir {
    /// digests with a file in sst/
    sst: Vec<String>,
    /// basenames in trash/
    trash: Vec<String>,
    frags: Vec<(u64, Vec<EditRec>)>,
    live: Vec<EditRec>,
    vstrs: Vec<String>,
    vm: Option<u64>,
    vo: String,
    unreadable: bool,
}

thread_local! {
    /// contents of untampered files by digest (one history at a time; cleared per history)
    static CONTENTS: std::cell::RefCell<std::collections::HashMap<String, Vec<Ent>>> = Default::default();
}

fn ls(root: &str, sub: &str) -> Vec<String> {
    let mut v: Vec<String> = std::fs::read_dir(format!("{}/{}", root, sub)).map(|rd| rd.flatten().map(|e| e.file_name().to_string_lossy().to_string()).collect()).unwrap_or_default();
    v.sort();
    v
}

fn zero_digest() -> String {
    setsum::Setsum::default().hexdigest()
}

pub fn full_dir(root: &str) -> FullDir {
    let mut d = FullDir::default();
    d.sst = ls(root, "sst").iter().filter_map(|n| n.strip_suffix(".sst").map(|x| x.to_string())).collect();
    d.trash = ls(root, "trash");
    let mut nums: Vec<u64> = ls(root, "mani").iter().filter_map(|n| mani::extract_backup(Path::new(n))).collect();
    nums.sort();
    for n in nums {
        match read_fragment(Path::new(&format!("{}/mani/MANIFEST.{}", root, n))) {
            Ok(es) => d.frags.push((n, es)),
            Err(_) => {
                d.unreadable = true;
                d.frags.push((n, vec![]));
            }
        }
    }
    match read_fragment(Path::new(&format!("{}/mani/MANIFEST", root))) {
        Ok(es) => d.live = es,
        Err(_) => d.unreadable = true,
    }
    d.vo = zero_digest();
    match mani::ManifestIterator::open(Path::new(&format!("{}/verify/MANIFEST", root))) {
        Ok(it) => {
            let mut strs: std::collections::BTreeSet<String> = Default::default();
            for e in it {
                let Ok(e) = e else {
                    d.unreadable = true;
                    break;
                };
                for r in e.rmed() {
                    strs.remove(r);
                }
                for a in e.added() {
                    strs.insert(a.clone());
                }
                if let Some(m) = e.get_info('M') {
                    d.vm = mani::extract_backup(Path::new(m));
                }
                if let Some(o) = e.get_info('O') {
                    d.vo = o.clone();
                }
            }
            d.vstrs = strs.into_iter().collect();
        }
        Err(_) => d.unreadable = true,
    }
    d
}

fn render_edit_full(e: &EditRec) -> String {
    let mut items: Vec<String> = vec![];
    items.extend(e.rmed.iter().map(|x| format!("-{}", x)));
    items.extend(e.added.iter().map(|x| format!("+{}", x)));
    for (k, v) in [('I', &e.i), ('O', &e.o), ('D', &e.d), ('L', &e.l)] {
        if let Some(v) = v {
            items.push(format!("{}{}", k, v));
        }
    }
    if items.is_empty() {
        ".".into()
    } else {
        items.join(",")
    }
}

fn render_edits_full(es: &[EditRec]) -> String {
    if es.is_empty() {
        "-".into()
    } else {
        es.iter().map(render_edit_full).collect::<Vec<_>>().join(";")
    }
}

fn plus_sorted(v: &[String]) -> String {
    let s: std::collections::BTreeSet<&String> = v.iter().collect();
    if s.is_empty() {
        "-".into()
    } else {
        s.into_iter().cloned().collect::<Vec<_>>().join("+")
    }
}

fn item_digest(e: &Ent) -> String {
    let mut acc = sst::Setsum::default();
    match &e.2 {
        Some(v) => acc.put(&e.0, e.1, v),
        None => acc.del(&e.0, e.1),
    }
    acc.into_inner().hexdigest()
}

fn render_entry_full(e: &Ent) -> String {
    match &e.2 {
        Some(v) => format!("{}@{}={}#{}", hex(&e.0), e.1, hex(v), item_digest(e)),
        None => format!("{}@{}!#{}", hex(&e.0), e.1, item_digest(e)),
    }
}

impl FullDir {
    /// the fragments a pass from this directory will run `verify_one` on
    fn to_process(&self) -> Vec<&(u64, Vec<EditRec>)> {
        let n = self.frags.len();
        self.frags.iter().take(n.saturating_sub(1)).filter(|f| self.vm.map(|m| f.0 > m).unwrap_or(true)).collect()
    }
    /// what `get_cursor` shows for every file an edit other than the first of those fragments names.
    /// Files are named after their contents and never rewritten, so what was read once under a
    /// name in the store's own directory is reused (`CONTENTS`); `fresh` names the one file of a
    /// tampered copy that must be read from the copy.
    fn files(&self, root: &str, fresh: Option<&str>) -> Vec<(String, Vec<Ent>)> {
        let mut seen: std::collections::BTreeSet<String> = Default::default();
        let mut out = vec![];
        for (_, es) in self.to_process() {
            for e in es.iter().skip(1) {
                for x in e.added.iter().chain(e.rmed.iter()) {
                    if !seen.insert(x.clone()) {
                        continue;
                    }
                    let Some(s) = setsum::Setsum::from_hexdigest(x) else { continue };
                    let digest = s.hexdigest();
                    let name = format!("{}.sst", digest);
                    let path = [format!("{}/trash/{}", root, name), format!("{}/sst/{}", root, name)].into_iter().find(|p| Path::new(p).exists());
                    let Some(p) = path else { continue };
                    if fresh != Some(digest.as_str()) {
                        if let Some(ents) = CONTENTS.with(|c| c.borrow().get(&digest).cloned()) {
                            out.push((digest, ents));
                            continue;
                        }
                    }
                    if let Ok(ents) = read_sst(&p) {
                        if fresh != Some(digest.as_str()) {
                            CONTENTS.with(|c| c.borrow_mut().insert(digest.clone(), ents.clone()));
                        }
                        out.push((digest, ents));
                    }
                }
            }
        }
        out
    }
    fn render_v(&self) -> String {
        format!("vM={} vO={} vstrs={}", self.vm.map(|n| n.to_string()).unwrap_or_else(|| "-".into()), self.vo, plus_sorted(&self.vstrs))
    }
    fn request(&self, root: &str, gc_versions: u64) -> String {
        self.request_with(root, gc_versions, None)
    }
    fn request_with(&self, root: &str, gc_versions: u64, fresh: Option<&str>) -> String {
        let frags = if self.frags.is_empty() { "-".to_string() } else { self.frags.iter().map(|(n, es)| format!("{}:{}", n, render_edits_full(es))).collect::<Vec<_>>().join("|") };
        let files = self.files(root, fresh);
        let files = if files.is_empty() { "-".to_string() } else { files.iter().map(|(d, es)| format!("{}:{}", d, es.iter().map(render_entry_full).collect::<Vec<_>>().join(","))).collect::<Vec<_>>().join("|") };
        format!(
            "vone pass gc={} tail={} sst={} trash={} vM={} vO={} vstrs={} frags={} live={} files={}",
            gc_versions,
            if tail_checked() { 1 } else { 0 },
            plus_sorted(&self.sst),
            plus_sorted(&self.trash),
            self.vm.map(|n| n.to_string()).unwrap_or_else(|| "-".into()),
            self.vo,
            plus_sorted(&self.vstrs),
            frags,
            render_edits_full(&self.live),
            files
        )
    }
}

/// the check of `verify_one` an error of the real verifier comes from, read off its text
fn fail_class(full: &str) -> String {
    let table: &[(&str, &str)] = &[
        ("does not continue", "chain"),
        ("does not balance", "balance"),
        ("sst contents do not match", "contents"),
        ("garbage collection has bad discard", "gc-discard"),
        ("manifest has bad discard", "discard"),
        ("data loss", "gc-data-loss"),
        ("data construction", "gc-construction"),
        ("gc key less than input", "gc-logic"),
        ("bad output setsum", "output"),
        ("bad L field", "bad-L"),
        ("bad digest", "bad-digest"),
        ("manifest edit missing", "missing"),
        ("out of order", "out-of-order"),
        ("NotFound", "notfound"),
        ("No such file", "notfound"),
    ];
    for (needle, cls) in table {
        if full.contains(needle) {
            if *cls == "missing" {
                if let Some(i) = full.find("manifest edit missing '") {
                    if let Some(c) = full[i + 23..].chars().next() {
                        return format!("missing-{}", c);
                    }
                }
            }
            return cls.to_string();
        }
    }
    format!("other:{}", full.chars().filter(|c| !c.is_whitespace()).take(60).collect::<String>())
}

/// one pass of the real verifier on `dir`: `ok`, `backoff:<name>`, `corrupt:<check>` or `panic`
fn real_pass(cfg: &Cfg, dir: &str) -> String {
    let opts = cfg.options(dir);
    let r = guarded(std::panic::AssertUnwindSafe(|| match lsmtk::LsmVerifier::open(opts) {
        Ok(mut v) => v.verify(),
        Err(e) => Err(e),
    }));
    match r {
        Err(_) => "panic".to_string(),
        Ok(Ok(())) => "ok".to_string(),
        Ok(Err(e)) => match lsmtk::backoff_path(&e) {
            Some(p) => format!("backoff:{}", p),
            None => format!("corrupt:{}", fail_class(&format!("{:?}", e))),
        },
    }
}

fn status_of_sim(sim: &Sim) -> String {
    if sim.last_verify == "ok" {
        "ok".into()
    } else if let Some(p) = sim.last_verify.strip_prefix("backoff:") {
        format!("backoff:{}", p)
    } else {
        format!("corrupt:{}", fail_class(&sim.last_verify_full))
    }
}

fn observed_pass_full(before: &FullDir, after: &FullDir, status: &str) -> String {
    let a_trash: std::collections::BTreeSet<&String> = after.trash.iter().collect();
    let gone_t: Vec<String> = before.trash.iter().filter(|x| !a_trash.contains(x)).cloned().collect();
    let a_frags: std::collections::BTreeSet<u64> = after.frags.iter().map(|f| f.0).collect();
    let gone_f: Vec<String> = before.frags.iter().map(|f| f.0).filter(|n| !a_frags.contains(n)).map(|n| n.to_string()).collect();
    format!("st={} trash-={} frags-={} {}", status, plus_sorted(&gone_t), if gone_f.is_empty() { "-".to_string() } else { gone_f.join("+") }, after.render_v())
}

fn edit_kind(e: &EditRec) -> &'static str {
    let gc = !e.rmed.is_empty() && e.d.as_deref() != Some(zero_digest().as_str());
    if e.rmed.is_empty() && e.added.is_empty() {
        "empty"
    } else if e.rmed.is_empty() {
        "ingest"
    } else if gc {
        "gc"
    } else {
        "compaction"
    }
}

/// counts what a pass from `d` has to look at
fn count_pass(rec: &mut Recorder, d: &FullDir, prefix: &str) -> (usize, usize) {
    let mut edits = 0;
    let mut gcs = 0;
    for (_, es) in d.to_process() {
        for e in es.iter().skip(1) {
            edits += 1;
            let k = edit_kind(e);
            if k == "gc" {
                gcs += 1;
            }
            rec.count(&format!("{}.edits.{}", prefix, k));
        }
    }
    (edits, gcs)
}

/// run the real verifier once on `dir` (a directory nothing else is using) and emit the case
fn pass_case(rec: &mut Recorder, tag: &str, cfg: &Cfg, dir: &str, taint: &Option<String>, expect_corrupt: Option<&str>, prefix: &str, fresh: Option<&str>) -> String {
    let before = full_dir(dir);
    if before.unreadable {
        rec.count(&format!("{}.skipped_unreadable", prefix));
        return "unreadable".into();
    }
    // a copy's files are the store's own (hard links) except the one named `fresh`
    let req = before.request_with(dir, cfg.gc_versions, fresh);
    let (edits, gcs) = count_pass(rec, &before, prefix);
    let status = real_pass(cfg, dir);
    let after = full_dir(dir);
    let obs = observed_pass_full(&before, &after, &status);
    rec.count(&format!("{}.{}", prefix, status.split(':').next().unwrap_or("?")));
    let v = match expect_corrupt {
        Some(what) if !status.starts_with("corrupt") => Verdict::Fail { class: taint.clone().unwrap_or_else(|| "tampered-sst-entry-accepted".to_string()), detail: format!("{} {}: the pass ends {} (a corruption error was due)", tag, what, status) },
        None if status != "ok" => Verdict::Fail { class: taint.clone().unwrap_or_else(|| "verifier-rejects-store-history".to_string()), detail: format!("{} pass on an untampered copy ends {}", tag, status) },
        _ => Verdict::Ok,
    };
    rec.case(&req, &obs, tainted(v, taint), if edits >= 1 { Some(fnv(format!("{}{}", req.len(), &req[..req.len().min(4000)]).as_bytes()) ^ fnv(obs.as_bytes()) ^ gcs as u64) } else { None });
    status
}

/// does the code under test compare the inputs left after the last output of a garbage collection
/// with the collector (fixes/c04-verify-gc-tail.diff)?  Decided on one directed directory: inputs
/// {a@5, a@2, b@3}, policy versions = 1, output {a@5} and D = setsum{a@2, b@3}.
fn tail_checked() -> bool {
    static T: std::sync::OnceLock<bool> = std::sync::OnceLock::new();
    *T.get_or_init(|| {
        let root = scratch_dir("c04.taildetect");
        let ins: Vec<Vec<Ent>> = vec![vec![(b"a".to_vec(), 5, Some(b"v5".to_vec())), (b"a".to_vec(), 2, Some(b"v2".to_vec())), (b"b".to_vec(), 3, Some(b"w3".to_vec()))]];
        let outs: Vec<Vec<Ent>> = vec![vec![(b"a".to_vec(), 5, Some(b"v5".to_vec()))]];
        let ok = build_gc_dir(&root, &ins, &outs, None).is_ok();
        let cfg = gcdir_cfg(1);
        let st = if ok { real_pass(&cfg, &root) } else { "build-failed".to_string() };
        let _ = std::fs::remove_dir_all(&root);
        st == "corrupt:gc-data-loss"
    })
}

fn gcdir_cfg(versions: u64) -> Cfg {
    Cfg { memtable_bytes: 1 << 20, target_file: 1 << 22, min_file: 1 << 12, target_block: 4096, l0_mandatory_files: 4, l0_stall_files: 12, max_compaction_files: 64, gc_versions: versions, mani_ratio: 10 }
}

fn build_sst(path: &str, entries: &[Ent]) -> Result<(), String> {
    use sst::Builder;
    let mut b = sst::SstBuilder::new(sst::SstOptions::default(), path).map_err(|e| format!("{:?}", e))?;
    for (k, t, v) in entries {
        match v {
            Some(v) => b.put(k, *t, v).map_err(|e| format!("{:?}", e))?,
            None => b.del(k, *t).map_err(|e| format!("{:?}", e))?,
        }
    }
    b.seal().map_err(|e| format!("{:?}", e))?;
    Ok(())
}

/// A store directory written by hand: the files `ins` (in trash/) were ingested, one transaction
/// removed them and added the files `outs` (in sst/), and the manifest has rolled over twice since,
/// so that the verifier processes the fragment that holds the transaction.  Every digest is what
/// the files say (I = Σ ins, D = Σ ins − Σ outs, O = I − D) unless `d_override` gives another D
/// (O follows, so that the transaction still balances).
fn build_gc_dir(root: &str, ins: &[Vec<Ent>], outs: &[Vec<Ent>], d_override: Option<setsum::Setsum>) -> Result<(), String> {
    let _ = std::fs::remove_dir_all(root);
    for sub in ["mani", "sst", "trash"] {
        std::fs::create_dir_all(format!("{}/{}", root, sub)).map_err(|e| e.to_string())?;
    }
    let mut i_sum = setsum::Setsum::default();
    let mut o_sum = setsum::Setsum::default();
    let mut in_names = vec![];
    let mut out_names = vec![];
    for f in ins {
        let s = entry_setsum(f);
        i_sum += s;
        in_names.push(s.hexdigest());
        build_sst(&format!("{}/trash/{}.sst", root, s.hexdigest()), f)?;
    }
    for f in outs {
        let s = entry_setsum(f);
        o_sum += s;
        out_names.push(s.hexdigest());
        if !in_names.contains(&s.hexdigest()) {
            build_sst(&format!("{}/sst/{}.sst", root, s.hexdigest()), f)?;
        }
    }
    let d = d_override.unwrap_or(i_sum - o_sum);
    let o = i_sum - d;
    let z = zero_digest();
    let rollup = |names: &[String], total: &setsum::Setsum| {
        let mut names = names.to_vec();
        names.sort();
        names.dedup();
        EditRec { i: Some(total.hexdigest()), o: Some(total.hexdigest()), d: Some(z.clone()), l: None, added: names, rmed: vec![] }
    };
    // the first fragment of a store: the empty state, one ingest per input file, the transaction
    let mut edits = vec![rollup(&[], &setsum::Setsum::default())];
    let mut acc = setsum::Setsum::default();
    let mut seen: Vec<String> = vec![];
    for f in ins {
        let s = entry_setsum(f);
        if seen.contains(&s.hexdigest()) {
            continue;
        }
        seen.push(s.hexdigest());
        let minus = setsum::Setsum::default() - s;
        edits.push(EditRec { i: Some(acc.hexdigest()), o: Some((acc + s).hexdigest()), d: Some(minus.hexdigest()), l: None, added: vec![s.hexdigest()], rmed: vec![] });
        acc += s;
    }
    in_names.sort();
    in_names.dedup();
    out_names.sort();
    out_names.dedup();
    edits.push(EditRec { i: Some(i_sum.hexdigest()), o: Some(o.hexdigest()), d: Some(d.hexdigest()), l: None, added: out_names.clone(), rmed: in_names.clone() });
    write_fragment(Path::new(&format!("{}/mani/MANIFEST.1", root)), &edits);
    write_fragment(Path::new(&format!("{}/mani/MANIFEST.2", root)), &[rollup(&out_names, &o)]);
    write_fragment(Path::new(&format!("{}/mani/MANIFEST", root)), &[rollup(&out_names, &o)]);
    Ok(())
}

/// what the real collector retains of the merged run (the run is sorted, (key, timestamp)s distinct)
fn real_retained(run: &[Ent], versions: u64) -> Result<Vec<(Vec<u8>, u64)>, String> {
    use sst::reference::ReferenceBuilder;
    use sst::Cursor;
    let mut b = ReferenceBuilder::default();
    for (k, t, v) in run {
        match v {
            Some(v) => b.put(k, *t, v),
            None => b.del(k, *t),
        }
        .map_err(|e| format!("{:?}", e))?;
    }
    let mut c = b.seal().map_err(|e| format!("{:?}", e))?.cursor();
    c.seek_to_first().map_err(|e| format!("{:?}", e))?;
    c.next().map_err(|e| format!("{:?}", e))?;
    let policy = sst::gc::GarbageCollectionPolicy::Versions { number: std::num::NonZeroU64::new(versions).unwrap() };
    let mut gc = policy.collector(c, 0).map_err(|e| format!("{:?}", e))?;
    let mut out = vec![];
    while let Some(kr) = gc.next().map_err(|e| format!("{:?}", e))? {
        out.push((kr.key.to_vec(), kr.timestamp));
        if out.len() > 100_000 {
            return Err("collector-does-not-terminate".into());
        }
    }
    Ok(out)
}

const GC_MUTATIONS: &[&str] = &["honest", "over-retain", "drop-retained-inner", "drop-retained-last", "drop-retained-tail2", "alter-retained-value", "add-foreign-entry", "wrong-discard", "retain-nothing"];

/// Directed stream on `verify_gc` itself: a garbage collection whose RECORD is consistent (every
/// digest is what the files say) but whose outputs are not what the policy asks for.  Tampers that
/// keep a file's name never get this far (the contents check comes first).
fn gc_directed(rec: &mut Recorder, seed: u64, idx: u64) {
    let mut rng = Rng::for_case(seed, 1041, idx);
    let versions = *rng.pick(&[1u64, 1, 2, 3]);
    let nkeys = rng.range(1, 4) as usize;
    let mut ts_pool: Vec<u64> = (1..=24).collect();
    rng.shuffle(&mut ts_pool);
    let mut run: Vec<Ent> = vec![];
    let mut vc = 0u64;
    for k in 0..nkeys {
        let key = ALPHABET[k + 1].to_vec();
        let nv = rng.range(1, 4) as usize;
        let mut tss: Vec<u64> = (0..nv).map(|_| ts_pool.pop().unwrap()).collect();
        tss.sort_by(|a, b| b.cmp(a));
        for t in tss {
            vc += 1;
            let val = if rng.chance(1, 4) { None } else { Some(format!("v{}", vc).into_bytes()) };
            run.push((key.clone(), t, val));
        }
    }
    let k = rng.range(1, 3) as usize;
    let mut ins: Vec<Vec<Ent>> = vec![vec![]; k];
    for e in &run {
        ins[rng.below(k as u64) as usize].push(e.clone());
    }
    ins.retain(|f| !f.is_empty());
    let kept_keys = match real_retained(&run, versions) {
        Ok(k) => k,
        Err(e) => {
            rec.case(&format!("# gcdir {} collector", idx), "#", Verdict::Fail { class: "collector-error".into(), detail: e }, None);
            return;
        }
    };
    let is_kept = |e: &Ent| kept_keys.iter().any(|(k, t)| *k == e.0 && *t == e.1);
    let kept: Vec<Ent> = run.iter().filter(|e| is_kept(e)).cloned().collect();
    let dropped: Vec<Ent> = run.iter().filter(|e| !is_kept(e)).cloned().collect();
    let mut mutation = GC_MUTATIONS[(idx % GC_MUTATIONS.len() as u64) as usize];
    let mut out = kept.clone();
    let mut d_override = None;
    // what the verifier owes: "ok", "corrupt", or "tail" (a retained entry after the last output is gone)
    let mut due = "ok";
    match mutation {
        "over-retain" if !dropped.is_empty() => {
            // a dropped VALUE is kept too (a kept tombstone could shadow data: not this stream)
            let e = dropped[rng.below(dropped.len() as u64) as usize].clone();
            out.push(e);
            out.sort_by(|a, b| a.0.cmp(&b.0).then(b.1.cmp(&a.1)));
        }
        "drop-retained-inner" if kept.len() >= 2 => {
            out.remove(rng.below(kept.len() as u64 - 1) as usize);
            due = "corrupt";
        }
        "drop-retained-last" if !kept.is_empty() => {
            out.pop();
            due = "tail";
        }
        "drop-retained-tail2" if kept.len() >= 2 => {
            out.pop();
            out.pop();
            due = "tail";
        }
        "alter-retained-value" if !kept.is_empty() => {
            let i = rng.below(kept.len() as u64) as usize;
            out[i].2 = Some(b"altered".to_vec());
            due = "corrupt";
        }
        "add-foreign-entry" => {
            let i = rng.below(run.len() as u64) as usize;
            out.push((run[i].0.clone(), 1000 + idx, Some(b"foreign".to_vec())));
            out.sort_by(|a, b| a.0.cmp(&b.0).then(b.1.cmp(&a.1)));
            due = "corrupt";
        }
        "wrong-discard" => {
            let mut x = sst::Setsum::default();
            x.put(b"zz", 77, b"never stored");
            let real_d = entry_setsum(&run) - entry_setsum(&out);
            d_override = Some(real_d + x.into_inner());
            due = "corrupt";
        }
        "retain-nothing" if !kept.is_empty() => {
            out.clear();
            due = "tail";
        }
        _ => mutation = "honest",
    }
    if mutation == "honest" {
        out = kept.clone();
        d_override = None;
        due = "ok";
    }
    // cut the outputs into one or two files
    let mut outs: Vec<Vec<Ent>> = vec![];
    if !out.is_empty() {
        let cut = if out.len() >= 2 && rng.chance(1, 2) { rng.range(1, out.len() as u64 - 1) as usize } else { out.len() };
        outs.push(out[..cut].to_vec());
        if cut < out.len() {
            outs.push(out[cut..].to_vec());
        }
    }
    let root = scratch_dir(&format!("c04.gcdir.{}", idx));
    if let Err(e) = build_gc_dir(&root, &ins, &outs, d_override) {
        rec.case(&format!("# gcdir {} build", idx), "#", Verdict::Fail { class: "harness-build-error".into(), detail: e }, None);
        return;
    }
    let cfg = gcdir_cfg(versions);
    let before = full_dir(&root);
    let req = before.request(&root, versions);
    let status = real_pass(&cfg, &root);
    let after = full_dir(&root);
    let obs = observed_pass_full(&before, &after, &status);
    let _ = std::fs::remove_dir_all(&root);
    rec.count(&format!("gcdir.{}.{}", mutation, status.replace(':', ".")));
    let v = match due {
        "ok" if status != "ok" => Verdict::Fail { class: "verifier-rejects-policy-conform-gc".into(), detail: format!("gcdir {} {}: {}", idx, mutation, status) },
        "corrupt" if !status.starts_with("corrupt") => Verdict::Fail { class: "inconsistent-gc-accepted".into(), detail: format!("gcdir {} {}: the pass ends {}", idx, mutation, status) },
        "tail" => {
            // observation O-C04-1: as the code is, a retained entry that sorts after the last output
            // is not looked for; the model follows the code under test (`tail=`)
            if status == "ok" {
                rec.count("gcdir.retained_entry_after_last_output_gone_and_accepted");
            }
            if tail_checked() && status == "ok" {
                Verdict::Fail { class: "inconsistent-gc-accepted".into(), detail: format!("gcdir {} {}: the pass ends ok although the tail is checked", idx, mutation) }
            } else {
                Verdict::Ok
            }
        }
        _ => Verdict::Ok,
    };
    rec.case(&req, &obs, v, Some(fnv(req.as_bytes())));
}

const TAMPER_KINDS: &[&str] = &["drop", "duplicate", "alter-value", "alter-timestamp", "add-entry"];
const ROLES: &[&str] = &["ingest-add", "compaction-output", "compaction-input", "gc-output", "gc-input"];

/// one entry of `entries` changed; None = this kind does not apply to this file
fn tamper_entries(rng: &mut Rng, entries: &mut Vec<Ent>, kind: &str, fresh_ts: u64) -> Option<()> {
    let i = rng.below(entries.len() as u64) as usize;
    let first_of_key = |es: &Vec<Ent>, i: usize| {
        let mut j = i;
        while j > 0 && es[j - 1].0 == es[i].0 {
            j -= 1;
        }
        j
    };
    match kind {
        "drop" => {
            if entries.len() < 2 {
                return None; // an SST cannot be empty
            }
            entries.remove(i);
        }
        "duplicate" => {
            // the same key and payload once more, under a timestamp nothing in the store carries
            let mut e = entries[i].clone();
            e.1 = fresh_ts;
            let j = first_of_key(entries, i);
            entries.insert(j, e);
        }
        "alter-value" => {
            entries[i].2 = Some(match &entries[i].2 {
                Some(v) => {
                    let mut v = v.clone();
                    v.push(b'~');
                    v
                }
                None => b"was-a-tombstone".to_vec(),
            });
        }
        "alter-timestamp" => {
            let (k, t) = (entries[i].0.clone(), entries[i].1);
            let up_ok = i == 0 || entries[i - 1].0 != k || entries[i - 1].1 > t + 1;
            let down_ok = t > 0 && (i + 1 >= entries.len() || entries[i + 1].0 != k || entries[i + 1].1 + 1 < t);
            if up_ok {
                entries[i].1 = t + 1;
            } else if down_ok {
                entries[i].1 = t - 1;
            } else {
                return None;
            }
        }
        "add-entry" => {
            let j = first_of_key(entries, i);
            let e = (entries[i].0.clone(), fresh_ts, Some(b"added".to_vec()));
            entries.insert(j, e);
        }
        _ => return None,
    }
    Some(())
}

/// the final block of an SST carries the setsum of its entries (unchecksummed: D-10); put `want`
/// where the rebuilt file says `have`
fn patch_metadata_setsum(path: &str, have: &[u8; 32], want: &[u8; 32]) -> bool {
    let Ok(mut bytes) = std::fs::read(path) else { return false };
    let hits: Vec<usize> = (0..bytes.len().saturating_sub(31)).filter(|&i| &bytes[i..i + 32] == have).collect();
    if hits.len() != 1 {
        return false;
    }
    bytes[hits[0]..hits[0] + 32].copy_from_slice(want);
    std::fs::write(path, bytes).is_ok()
}

/// The systematic stream on file contents: for every kind of file the fragments still to be
/// verified name (added by an ingest, written by a compaction, read by one, written by a garbage
/// collection, read by one) one file is picked in a copy of the store directory, ONE entry of it is
/// dropped / duplicated under another timestamp / given another value / another timestamp / an
/// entry is added, the file keeps its name (so every recorded digest still matches), its metadata
/// setsum is the recomputed one or the one the name promises, and the real LsmVerifier runs on the
/// copy: it must end with a corruption error; the model gets the same directory and contents.
/// The untampered copy goes first (control: must end ok; also one honest whole-pass case).
fn tamper_matrix(rec: &mut Recorder, rng: &mut Rng, sim: &Sim, root: &str, tag: &str, taint: &Option<String>, rot: &mut std::collections::BTreeMap<&'static str, u64>) {
    let dir = full_dir(root);
    if dir.unreadable || dir.to_process().is_empty() {
        return;
    }
    let mut cands: std::collections::BTreeMap<&'static str, Vec<String>> = Default::default();
    for (_, es) in dir.to_process() {
        for e in es.iter().skip(1) {
            let k = edit_kind(e);
            for a in &e.added {
                let role = match k {
                    "ingest" => "ingest-add",
                    "gc" => "gc-output",
                    _ => "compaction-output",
                };
                cands.entry(role).or_default().push(a.clone());
            }
            for r in &e.rmed {
                cands.entry(if k == "gc" { "gc-input" } else { "compaction-input" }).or_default().push(r.clone());
            }
        }
    }
    if cands.is_empty() {
        rec.count("sst_tamper.no_unverified_transaction");
        return;
    }
    // control
    let control_dir = format!("{}.control", root);
    let _ = std::fs::remove_dir_all(&control_dir);
    if copy_dir(Path::new(root), Path::new(&control_dir)).is_err() {
        return;
    }
    let control = pass_case(rec, &format!("{} control", tag), &sim.cfg, &control_dir, taint, None, "pass.control", None);
    let _ = std::fs::remove_dir_all(&control_dir);
    if control != "ok" {
        rec.count("sst_tamper.inconclusive_control_not_ok");
        return;
    }
    for role in ROLES {
        let Some(list) = cands.get(role) else { continue };
        // files added by an ingest are everywhere: every third time is plenty
        if *role == "ingest-add" {
            let r = rot.entry("ingest-add-turn").or_insert(0);
            *r += 1;
            if *r % 3 != 1 {
                continue;
            }
        }
        let victim = list[rng.below(list.len() as u64) as usize].clone();
        let r = rot.entry(role).or_insert(0);
        let combo = *r % 10;
        *r += 1;
        let kind = TAMPER_KINDS[(combo % 5) as usize];
        let keep_meta = combo >= 5;
        let copy = format!("{}.tamper", root);
        let _ = std::fs::remove_dir_all(&copy);
        if copy_dir(Path::new(root), Path::new(&copy)).is_err() {
            continue;
        }
        let name = format!("{}.sst", victim);
        let vpath = [format!("{}/trash/{}", copy, name), format!("{}/sst/{}", copy, name)].into_iter().find(|p| Path::new(p).exists());
        let Some(vpath) = vpath else {
            rec.count("sst_tamper.victim_not_present");
            let _ = std::fs::remove_dir_all(&copy);
            continue;
        };
        let Ok(mut entries) = read_sst(&vpath) else {
            let _ = std::fs::remove_dir_all(&copy);
            continue;
        };
        if entries.is_empty() {
            let _ = std::fs::remove_dir_all(&copy);
            continue;
        }
        let fresh_ts = (1u64 << 40) + rec.n;
        if tamper_entries(rng, &mut entries, kind, fresh_ts).is_none() {
            rec.count(&format!("sst_tamper.not_applicable.{}", kind));
            let _ = std::fs::remove_dir_all(&copy);
            continue;
        }
        let tmp = format!("{}.rebuild", vpath);
        if build_sst(&tmp, &entries).is_err() {
            rec.count("sst_tamper.rebuild_failed");
            let _ = std::fs::remove_dir_all(&copy);
            continue;
        }
        let mut meta = "recomputed";
        if keep_meta {
            let have = entry_setsum(&entries).digest();
            if let Some(want) = setsum::Setsum::from_hexdigest(&victim) {
                if patch_metadata_setsum(&tmp, &have, &want.digest()) {
                    meta = "kept";
                } else {
                    rec.count("sst_tamper.metadata_patch_failed");
                }
            }
        }
        let _ = std::fs::remove_file(&vpath);
        let _ = std::fs::rename(&tmp, &vpath);
        rec.count(&format!("sst_tamper.{}.{}.meta-{}", role, kind, meta));
        pass_case(rec, &format!("{} sst-tamper {} {} meta-{} {}", tag, role, kind, meta, &victim[..12]), &sim.cfg, &copy, taint, Some(&format!("{} one entry of {} ({})", kind, &victim[..12], role)), "pass.tampered", Some(&victim));
        let _ = std::fs::remove_dir_all(&copy);
    }
}

/// a digest text changed so that `Setsum::from_hexdigest` still reads the same value: the first
/// digit of a byte `0x` written `+x` (`u8::from_str_radix` takes a sign), or a digit `a`–`f` in upper
/// case.  The record says what it said: both verifiers must accept it as they accept the original.
fn same_value_text(rng: &mut Rng, s: &str) -> Option<String> {
    let b = s.as_bytes();
    let mut spots: Vec<(usize, u8)> = vec![];
    for i in 0..b.len() {
        if i % 2 == 0 && b[i] == b'0' {
            spots.push((i, b'+'));
        }
        if (b'a'..=b'f').contains(&b[i]) {
            spots.push((i, b[i].to_ascii_uppercase()));
        }
    }
    if spots.is_empty() {
        return None;
    }
    let (i, c) = spots[rng.below(spots.len() as u64) as usize];
    let mut v = b.to_vec();
    v[i] = c;
    String::from_utf8(v).ok()
}

pub fn run_history(rec: &mut Recorder, seed: u64, hidx: u64, len: usize, nkeys: usize, tampers: usize, gc_focus: bool, rot: &mut std::collections::BTreeMap<&'static str, u64>) {
    let mut rng = Rng::for_case(seed, if gc_focus { 1040 } else { 104 }, hidx);
    let mut cfg = Cfg::gen(&mut rng);
    let mode = if gc_focus { 1 } else { hidx % 4 % 3 };
    let mut ops = gen_history(&mut rng, if mode == 1 { len * if gc_focus { 4 } else { 2 } } else { len }, nkeys, mode);
    if gc_focus {
        // garbage collections at the last level, manifest fragments rolling over after nearly every
        // transaction, and no verifier pass consuming them: GC edits pile up unverified
        cfg.mani_ratio = 1;
        ops.retain(|o| !matches!(o, Op::Verify));
    }
    let root = scratch_dir(&format!("c04.{}", hidx));
    rec.aux(&format!("history {} cfg {} ops {}", hidx, cfg.render(), ops.iter().map(|o| o.render()).collect::<Vec<_>>().join(" ")));
    let mut sim = match Sim::open(&root, &cfg) {
        Ok(s) => s,
        Err(e) => {
            rec.case(&format!("# history {} open", hidx), "#", Verdict::Fail { class: "open-error".into(), detail: e }, None);
            return;
        }
    };
    let mverifier = lsmtk::ManifestVerifier::open().unwrap();
    let mut taint: Option<String> = None;
    let mut seen_fragments: std::collections::BTreeSet<String> = Default::default();
    let mut tamper_points = 0;
    CONTENTS.with(|c| c.borrow_mut().clear());
    for (step, op) in ops.iter().enumerate() {
        let tag = format!("h{}s{}:{}", hidx, step, op.render());
        if let Op::Reopen = op {
            if taint.is_none() {
                if let Ok(d) = sim.dump() {
                    if crate::c01::d9_trigger(&d) {
                        taint = Some("reopen-with-key-and-timestamp-overlapping-files".to_string());
                        rec.count("histories_tainted_by_D9_trigger");
                    }
                }
            }
        }
        // a pass of the real verifier inside the history: the directory as the pass finds it
        let pre_pass = if let Op::Verify = op { Some(full_dir(&root)) } else { None };
        let pre_req = pre_pass.as_ref().filter(|d| !d.unreadable).map(|d| d.request(&root, cfg.gc_versions));
        let res = match guarded(std::panic::AssertUnwindSafe(|| sim.apply(op))) {
            Ok(r) => r,
            Err(p) => Err(format!("panic:{}", p)),
        };
        if let (Some(before), Some(req)) = (&pre_pass, &pre_req) {
            if res.is_ok() {
                let after = full_dir(&root);
                let (edits, _) = count_pass(rec, before, "pass.history");
                let obs = observed_pass_full(before, &after, &status_of_sim(&sim));
                rec.count("pass.history");
                rec.case(req, &obs, tainted(Verdict::Ok, &taint), if edits >= 1 { Some(fnv(req.as_bytes())) } else { None });
            }
        }
        if let Err(e) = res {
            rec.case(&format!("# {}", tag), "#", Verdict::Fail { class: taint.clone().unwrap_or_else(|| "fault-free-op-error".to_string()), detail: format!("{} -> {}", tag, e) }, None);
            break;
        }
        sim.chosen.clear();
        if let Op::Verify = op {
            // the pass itself already ran inside apply(); nothing more here
        }
        if gc_focus && matches!(op, Op::Flush | Op::Compact(_)) && taint.is_none() && rng.chance(1, 3) && tamper_points < 60 {
            tamper_points += 1;
            tamper_matrix(rec, &mut rng, &sim, &root, &tag, &taint, rot);
            // keep the pile of unverified fragments (and with it every dumped directory) bounded:
            // a real pass on the store's own directory consumes them (and is one more honest case)
            let d = full_dir(&root);
            let pending: usize = d.to_process().iter().map(|f| f.1.len().saturating_sub(1)).sum();
            if pending > 40 && !d.unreadable {
                let req = d.request(&root, cfg.gc_versions);
                let _ = count_pass(rec, &d, "pass.history");
                sim.verify_pass();
                let after = full_dir(&root);
                let st = status_of_sim(&sim);
                let obs = observed_pass_full(&d, &after, &st);
                rec.count("pass.history");
                let v = if st == "ok" { Verdict::Ok } else { Verdict::Fail { class: taint.clone().unwrap_or_else(|| sim.verifier_reject_class()), detail: format!("{} consuming pass ends {}", tag, st) } };
                rec.case(&req, &obs, tainted(v, &taint), Some(fnv(req.as_bytes())));
            }
        }
        if let Op::Verify = op {
            rec.count(if sim.last_verify == "ok" { "verifier.ok" } else if sim.last_verify.starts_with("backoff") { "verifier.backoff" } else { "verifier.error" });
            if sim.last_verify.starts_with("error") {
                rec.case(&format!("# {}", tag), "#", Verdict::Fail { class: taint.clone().unwrap_or_else(|| sim.verifier_reject_class()), detail: format!("{} {}", tag, sim.last_verify) }, None);
            }
            // the store is quiescent when the pass runs (no reader snapshot, no compaction in
            // flight), so nothing the verifier waits for can still arrive
            if sim.last_verify.starts_with("backoff") {
                rec.case(&format!("# {}", tag), "#", Verdict::Fail { class: taint.clone().unwrap_or_else(|| "verifier-backoff-on-quiescent-store".to_string()), detail: format!("{} {}", tag, sim.last_verify) }, None);
            }
        }
        // only steps that may have written a manifest transaction
        match op {
            Op::Flush | Op::Compact(_) | Op::Reopen | Op::Verify => {}
            _ => {
                if rng.chance(2, 3) {
                    continue;
                }
            }
        }
        let d = match sim.dump() {
            Ok(d) => d,
            Err(e) => {
                rec.case(&format!("# {}", tag), "#", Verdict::Fail { class: "dump-error".into(), detail: e }, None);
                break;
            }
        };
        let frags = list_fragments(&root);
        let mut bad: Vec<String> = vec![];
        // --- current state: manifest O == sum of listed files == sum recomputed from contents
        let newest = read_fragment(frags.last().unwrap());
        let mut listed: Vec<String> = vec![];
        let mut recorded_o = String::new();
        match &newest {
            Ok(edits) => {
                let mut strs: std::collections::BTreeSet<String> = Default::default();
                for e in edits {
                    for r in &e.rmed {
                        strs.remove(r);
                    }
                    for a in &e.added {
                        strs.insert(a.clone());
                    }
                    if let Some(o) = &e.o {
                        recorded_o = o.clone();
                    }
                }
                listed = strs.into_iter().collect();
            }
            Err(e) => bad.push(format!("MANIFEST unreadable: {}", e)),
        }
        let mut file_digests: Vec<String> = vec![];
        let mut sum_meta = setsum::Setsum::default();
        let mut sum_content = setsum::Setsum::default();
        for l in &d.levels {
            for f in l {
                let s = setsum::Setsum::from_digest(f.setsum);
                sum_meta += s;
                let c = entry_setsum(&f.entries);
                sum_content += c;
                if c != s {
                    bad.push(format!("file {} setsum differs from setsum of its entries", &hex(&f.setsum)[..12]));
                }
                file_digests.push(s.hexdigest());
            }
        }
        file_digests.sort();
        // the manifest object the running store holds must list exactly the version's files
        {
            let (mut live_strs, live_o) = sim.kvs().verif_tree().verif_manifest();
            live_strs.sort();
            if live_strs != file_digests {
                bad.push(format!("the store's in-memory manifest lists {} files, its version holds {}", live_strs.len(), file_digests.len()));
            }
            if live_o.as_deref() != Some(sum_meta.hexdigest().as_str()) {
                bad.push("the store's in-memory manifest O != sum of the version's files".to_string());
            }
        }
        if newest.is_ok() {
            if file_digests != listed {
                bad.push(format!("manifest lists {} files, version holds {}", listed.len(), file_digests.len()));
            }
            if sum_meta.hexdigest() != recorded_o {
                bad.push(format!("manifest O {} != sum of listed files {}", &recorded_o[..recorded_o.len().min(12)], &sum_meta.hexdigest()[..12]));
            }
            if sum_content.hexdigest() != recorded_o {
                bad.push("manifest O != setsum recomputed from all stored entries".to_string());
            }
        }
        let req = format!("ledger total {}", file_digests.join(" "));
        let v = if bad.is_empty() { Verdict::Ok } else { Verdict::Fail { class: taint.clone().unwrap_or_else(|| "books-do-not-balance".to_string()), detail: format!("{} {}", tag, bad.join("; ")) } };
        rec.count("state_checks");
        rec.case(&req, &recorded_o, tainted(v, &taint), if file_digests.len() >= 2 { Some(fnv(req.as_bytes())) } else { None });
        // --- every fragment: chain, balance, verifier verdict; model verdict
        let mut prev_last_o: Option<String> = None;
        for (fi, f) in frags.iter().enumerate() {
            let edits = match read_fragment(f) {
                Ok(e) => e,
                Err(e) => {
                    rec.case(&format!("# {} fragment {}", tag, fi), "#", Verdict::Fail { class: taint.clone().unwrap_or_else(|| "fragment-unreadable".to_string()), detail: e }, None);
                    continue;
                }
            };
            if edits.is_empty() {
                continue;
            }
            let mut fbad = vec![];
            if let (Some(p), Some(o)) = (&prev_last_o, &edits[0].o) {
                if p != o {
                    fbad.push(format!("fragment {} does not start from the previous fragment's output", fi));
                }
            }
            prev_last_o = edits.last().and_then(|e| e.o.clone());
            let is_newest = fi + 1 == frags.len();
            // completed fragments never change again: check each once; the newest every time
            let key = format!("{}:{}", f.display(), edits.len());
            if !is_newest && seen_fragments.contains(&key) {
                continue;
            }
            seen_fragments.insert(key);
            let real = mverifier.verify(f);
            let cls = verdict_class(&real);
            if cls != "accept" {
                fbad.push(format!("ManifestVerifier rejects store-written fragment {}: {}", fi, cls));
            }
            if let Some(req) = ledger_request(&edits) {
                let v = if fbad.is_empty() { Verdict::Ok } else { Verdict::Fail { class: taint.clone().unwrap_or_else(|| "books-do-not-balance".to_string()), detail: format!("{} {}", tag, fbad.join("; ")) } };
                rec.count("fragments_verified");
                rec.add("edits_verified", edits.len() as u64 - 1);
                let kinds = edits[1..].iter().filter(|e| !e.rmed.is_empty() && e.d.as_deref() != Some(&setsum::Setsum::default().hexdigest())).count();
                rec.add("gc_edits", kinds as u64);
                rec.case(&req, &cls, tainted(v, &taint), if edits.len() >= 3 { Some(fnv(req.as_bytes())) } else { None });
                // --- tamper stream on this fragment
                if edits.len() >= 2 {
                    for _ in 0..tampers {
                        let mut t = edits.clone();
                        let ei = rng.range(1, t.len() as u64 - 1) as usize;
                        let what = rng.below(5);
                        let e = &mut t[ei];
                        let kind = match what {
                            0 => {
                                e.i = e.i.as_ref().map(|s| flip_hex_digit(&mut rng, s));
                                "I"
                            }
                            1 => {
                                e.o = e.o.as_ref().map(|s| flip_hex_digit(&mut rng, s));
                                "O"
                            }
                            2 => {
                                e.d = e.d.as_ref().map(|s| flip_hex_digit(&mut rng, s));
                                "D"
                            }
                            3 if !e.added.is_empty() => {
                                let k = rng.below(e.added.len() as u64) as usize;
                                e.added[k] = flip_hex_digit(&mut rng, &e.added[k]);
                                "added"
                            }
                            _ if !e.rmed.is_empty() => {
                                let k = rng.below(e.rmed.len() as u64) as usize;
                                e.rmed[k] = flip_hex_digit(&mut rng, &e.rmed[k]);
                                "rmed"
                            }
                            _ => {
                                e.d = e.d.as_ref().map(|s| flip_hex_digit(&mut rng, s));
                                "D"
                            }
                        };
                        // every third tamper: the text changes, the value it parses to does not
                        let same_value = rng.chance(1, 4);
                        if same_value {
                            t = edits.clone();
                            let e = &mut t[ei];
                            let field = match what % 3 {
                                0 => &mut e.i,
                                1 => &mut e.o,
                                _ => &mut e.d,
                            };
                            match field.as_ref().and_then(|s| same_value_text(&mut rng, s)) {
                                Some(x) => *field = Some(x),
                                None => continue,
                            }
                        }
                        let kind = if same_value { "same-value-text" } else { kind };
                        let tpath = PathBuf::from(format!("{}/tampered.manifest", root));
                        write_fragment(&tpath, &t);
                        let real = mverifier.verify(&tpath);
                        let cls = verdict_class(&real);
                        let _ = std::fs::remove_file(&tpath);
                        let req = ledger_request(&t).unwrap();
                        rec.count(&format!("tamper.{}", kind));
                        let v = if same_value {
                            if cls == "accept" { Verdict::Ok } else { Verdict::Fail { class: "same-value-digest-text-rejected".into(), detail: format!("{} edit {}: {}", tag, ei, cls) } }
                        } else if cls == "accept" {
                            Verdict::Fail { class: "tampered-digest-accepted".into(), detail: format!("{} edit {} field {}", tag, ei, kind) }
                        } else {
                            Verdict::Ok
                        };
                        rec.case(&req, &cls, v, Some(fnv(req.as_bytes())));
                    }
                }
            }
        }
        let _ = strip_pos;
    }
    rec.add("flushes", sim.flushes);
    rec.add("compactions", sim.compactions);
    rec.add("reopens", sim.reopens);
    sim.close();
}

pub fn run(args: &Args) {
    let mut rec = Recorder::new(&args.out, args.only_case);
    let (nh, len, tampers) = if args.thorough { (300, 100, 3) } else { (60, 50, 2) };
    let mut rot: std::collections::BTreeMap<&'static str, u64> = Default::default();
    rec.add("code_under_test_checks_gc_tail", tail_checked() as u64);
    let t0 = std::time::Instant::now();
    for h in 0..nh {
        let nkeys = if h % 3 == 0 { 4 } else if h % 3 == 1 { 7 } else { 12 };
        run_history(&mut rec, args.seed, h, len, nkeys, tampers, false, &mut rot);
    }
    if std::env::var("BLUE_DEBUG").is_ok() {
        eprintln!("plain histories: {:?}", t0.elapsed());
    }
    for h in 0..(if args.thorough { 40 } else { 12 }) {
        run_history(&mut rec, args.seed, h, len, if h % 2 == 0 { 5 } else { 9 }, 0, true, &mut rot);
    }
    if std::env::var("BLUE_DEBUG").is_ok() {
        eprintln!("with gc-focus histories: {:?}", t0.elapsed());
    }
    for i in 0..(if args.thorough { 1800 } else { 360 }) {
        gc_directed(&mut rec, args.seed, i);
    }
    if std::env::var("BLUE_DEBUG").is_ok() {
        eprintln!("with gc-directed: {:?}", t0.elapsed());
    }
    rec.finish(
        "store histories as in C01; after every manifest transaction (flush, compaction step, reopen) and a third of the writes: books of the current state (manifest O vs sum of listed SST setsums vs setsums recomputed from stored entries), every manifest fragment's chain/balance/discard through the real ManifestVerifier and through Blue.Books.verify over the canonical-setsum group, and tampered copies of fragments with one hex digit of one recorded digest (I, O, D, added, removed) changed, or its text changed to another spelling of the same value (+x, upper case); every pass of the real LsmVerifier (inside histories, on untampered copies, on copies with one entry of one file changed under the file's name: file kind x tamper kind x metadata setsum kept/recomputed, on hand-written directories with one garbage collection whose record is consistent but whose outputs are not the policy's) against Blue.Verifier.pass with the real checks (Blue.VerifyOne) on the dumped directory and file contents; non-trivial = a state with >= 2 files, a fragment with >= 2 transactions, any tampered fragment, a pass that has at least one transaction to verify; distinct by request",
        &[],
    );
}
