//! C04 — one setsum covers all data: manifest, files and contents always balance.
//!
//! Store histories as in C01 with verifier passes mixed in.  After every operation:
//!  * oracle (books_balance): `O` of the newest manifest edit == sum of the setsums of the SSTs of
//!    the current version == sum of the setsums recomputed from the entries actually stored;
//!    every edit balances (I = O + D), continues from its predecessor's O, every fragment starts
//!    with the state at its creation; ManifestVerifier accepts every fragment; LsmVerifier never
//!    reports corruption on a history the store produced.
//!  * correspondence: `Blue.Books.verify` over the canonical-setsum group on the same records ==
//!    the real ManifestVerifier's verdict; the model's sum of the listed digests == recorded `O`.
//!  * tamper stream: one hex digit of one recorded digest changed in a copy of a fragment — the
//!    real verifier and the model must both reject.
use crate::common::*;

fn tainted(v: Verdict, taint: &Option<String>) -> Verdict {
    match (v, taint) {
        (Verdict::Ok, Some(c)) => Verdict::Taint { class: c.clone() },
        (v, _) => v,
    }
}

use crate::store::*;
use std::path::{Path, PathBuf};

#[derive(Clone, Debug, Default)]
struct EditRec {
    i: Option<String>,
    o: Option<String>,
    d: Option<String>,
    l: Option<String>,
    added: Vec<String>,
    rmed: Vec<String>,
}

fn list_fragments(root: &str) -> Vec<PathBuf> {
    let mani_root = lsmtk::MANI_ROOT(root);
    let mut nums: Vec<u64> = vec![];
    if let Ok(rd) = std::fs::read_dir(&mani_root) {
        for e in rd.flatten() {
            if let Some(n) = mani::extract_backup(e.path()) {
                nums.push(n);
            }
        }
    }
    nums.sort();
    let mut v: Vec<PathBuf> = nums.into_iter().map(|n| mani::BACKUP(&mani_root, n)).collect();
    v.push(mani::MANIFEST(&mani_root));
    v
}

fn read_fragment(path: &Path) -> Result<Vec<EditRec>, String> {
    let it = mani::ManifestIterator::open(path).map_err(|e| format!("{:?}", e))?;
    let mut out = vec![];
    for e in it {
        let e = e.map_err(|e| format!("{:?}", e))?;
        out.push(EditRec {
            i: e.get_info('I').cloned(),
            o: e.get_info('O').cloned(),
            d: e.get_info('D').cloned(),
            l: e.get_info('L').cloned(),
            added: e.added().cloned().collect(),
            rmed: e.rmed().cloned().collect(),
        });
    }
    Ok(out)
}

fn write_fragment(path: &Path, edits: &[EditRec]) {
    let mut s = String::new();
    let line = |body: String| format!("{:08x}{}\n", crc32c::crc32c(body.as_bytes()), body);
    for e in edits {
        for r in &e.rmed {
            s += &line(format!("-{}", r));
        }
        for a in &e.added {
            s += &line(format!("+{}", a));
        }
        // BTreeMap<char, String> order: 'D' < 'I' < 'L' < 'O'
        if let Some(x) = &e.d {
            s += &line(format!("D{}", x));
        }
        if let Some(x) = &e.i {
            s += &line(format!("I{}", x));
        }
        if let Some(x) = &e.l {
            s += &line(format!("L{}", x));
        }
        if let Some(x) = &e.o {
            s += &line(format!("O{}", x));
        }
        s += "--------\n";
    }
    std::fs::write(path, s).unwrap();
}

fn verdict_class(r: &Result<Vec<(setsum::Setsum, setsum::Setsum, setsum::Setsum)>, lsmtk::SError>) -> String {
    match r {
        Ok(_) => "accept".into(),
        Err(e) => {
            let s = format!("{:?}", e);
            if s.contains("does not continue") {
                "reject chain".into()
            } else if s.contains("does not balance") {
                "reject balance".into()
            } else if s.contains("bad discard") {
                "reject discard".into()
            } else {
                format!("reject other:{}", s.chars().filter(|c| !c.is_whitespace()).take(80).collect::<String>())
            }
        }
    }
}

fn join_or_dash(v: &[String]) -> String {
    if v.is_empty() {
        "-".into()
    } else {
        v.join("+")
    }
}

/// the `ledger verify` request for a fragment: prev = O of the leading roll-up edit
fn ledger_request(edits: &[EditRec]) -> Option<String> {
    let first = edits.first()?;
    let prev = first.o.clone()?;
    let mut toks = vec![];
    for e in &edits[1..] {
        toks.push(format!("{},{},{},{},{}", e.i.clone()?, e.o.clone()?, e.d.clone()?, join_or_dash(&e.rmed), join_or_dash(&e.added)));
    }
    Some(format!("ledger verify {} {}", prev, toks.join(" ")))
}

fn strip_pos(s: &str) -> String {
    // model says "reject chain@3"; the implementation's class has no position
    match s.find('@') {
        Some(i) => s[..i].to_string(),
        None => s.to_string(),
    }
}

fn entry_setsum(entries: &[Ent]) -> setsum::Setsum {
    let mut acc = sst::Setsum::default();
    for (k, t, v) in entries {
        match v {
            Some(v) => acc.put(k, *t, v),
            None => acc.del(k, *t),
        }
    }
    acc.into_inner()
}

fn flip_hex_digit(rng: &mut Rng, s: &str) -> String {
    let mut b: Vec<u8> = s.as_bytes().to_vec();
    if b.is_empty() {
        return s.to_string();
    }
    let i = rng.below(b.len() as u64) as usize;
    let digits = b"0123456789abcdef";
    loop {
        let c = digits[rng.below(16) as usize];
        if c != b[i] {
            b[i] = c;
            break;
        }
    }
    String::from_utf8(b).unwrap()
}

pub fn run_history(rec: &mut Recorder, seed: u64, hidx: u64, len: usize, nkeys: usize, tampers: usize) {
    let mut rng = Rng::for_case(seed, 104, hidx);
    let cfg = Cfg::gen(&mut rng);
    let mode = hidx % 4 % 3;
    let ops = gen_history(&mut rng, if mode == 1 { len * 2 } else { len }, nkeys, mode);
    let root = scratch_dir(&format!("c04.{}", hidx));
    rec.aux(&format!("history {} cfg {} ops {}", hidx, cfg.render(), ops.iter().map(|o| o.render()).collect::<Vec<_>>().join(" ")));
    let mut sim = match Sim::open(&root, &cfg) {
        Ok(s) => s,
        Err(e) => {
            rec.case(&format!("# history {} open", hidx), "#", Verdict::Fail { class: "open-error".into(), detail: e }, None);
            return;
        }
    };
    let mverifier = lsmtk::ManifestVerifier::open().unwrap();
    let mut taint: Option<String> = None;
    let mut seen_fragments: std::collections::BTreeSet<String> = Default::default();
    for (step, op) in ops.iter().enumerate() {
        let tag = format!("h{}s{}:{}", hidx, step, op.render());
        if let Op::Reopen = op {
            if taint.is_none() {
                if let Ok(d) = sim.dump() {
                    if crate::c01::d9_trigger(&d) {
                        taint = Some("reopen-with-key-and-timestamp-overlapping-files".to_string());
                        rec.count("histories_tainted_by_D9_trigger");
                    }
                }
            }
        }
        let res = match guarded(std::panic::AssertUnwindSafe(|| sim.apply(op))) {
            Ok(r) => r,
            Err(p) => Err(format!("panic:{}", p)),
        };
        if let Err(e) = res {
            rec.case(&format!("# {}", tag), "#", Verdict::Fail { class: taint.clone().unwrap_or_else(|| "fault-free-op-error".to_string()), detail: format!("{} -> {}", tag, e) }, None);
            break;
        }
        sim.chosen.clear();
        if let Op::Verify = op {
            rec.count(if sim.last_verify == "ok" { "verifier.ok" } else if sim.last_verify.starts_with("backoff") { "verifier.backoff" } else { "verifier.error" });
            if sim.last_verify.starts_with("error") {
                rec.case(&format!("# {}", tag), "#", Verdict::Fail { class: taint.clone().unwrap_or_else(|| "verifier-rejects-store-history".to_string()), detail: format!("{} {}", tag, sim.last_verify) }, None);
            }
            // the store is quiescent when the pass runs (no reader snapshot, no compaction in
            // flight), so nothing the verifier waits for can still arrive
            if sim.last_verify.starts_with("backoff") {
                rec.case(&format!("# {}", tag), "#", Verdict::Fail { class: taint.clone().unwrap_or_else(|| "verifier-backoff-on-quiescent-store".to_string()), detail: format!("{} {}", tag, sim.last_verify) }, None);
            }
        }
        // only steps that may have written a manifest transaction
        match op {
            Op::Flush | Op::Compact(_) | Op::Reopen | Op::Verify => {}
            _ => {
                if rng.chance(2, 3) {
                    continue;
                }
            }
        }
        let d = match sim.dump() {
            Ok(d) => d,
            Err(e) => {
                rec.case(&format!("# {}", tag), "#", Verdict::Fail { class: "dump-error".into(), detail: e }, None);
                break;
            }
        };
        let frags = list_fragments(&root);
        let mut bad: Vec<String> = vec![];
        // --- current state: manifest O == sum of listed files == sum recomputed from contents
        let newest = read_fragment(frags.last().unwrap());
        let mut listed: Vec<String> = vec![];
        let mut recorded_o = String::new();
        match &newest {
            Ok(edits) => {
                let mut strs: std::collections::BTreeSet<String> = Default::default();
                for e in edits {
                    for r in &e.rmed {
                        strs.remove(r);
                    }
                    for a in &e.added {
                        strs.insert(a.clone());
                    }
                    if let Some(o) = &e.o {
                        recorded_o = o.clone();
                    }
                }
                listed = strs.into_iter().collect();
            }
            Err(e) => bad.push(format!("MANIFEST unreadable: {}", e)),
        }
        let mut file_digests: Vec<String> = vec![];
        let mut sum_meta = setsum::Setsum::default();
        let mut sum_content = setsum::Setsum::default();
        for l in &d.levels {
            for f in l {
                let s = setsum::Setsum::from_digest(f.setsum);
                sum_meta += s;
                let c = entry_setsum(&f.entries);
                sum_content += c;
                if c != s {
                    bad.push(format!("file {} setsum differs from setsum of its entries", &hex(&f.setsum)[..12]));
                }
                file_digests.push(s.hexdigest());
            }
        }
        file_digests.sort();
        if newest.is_ok() {
            if file_digests != listed {
                bad.push(format!("manifest lists {} files, version holds {}", listed.len(), file_digests.len()));
            }
            if sum_meta.hexdigest() != recorded_o {
                bad.push(format!("manifest O {} != sum of listed files {}", &recorded_o[..recorded_o.len().min(12)], &sum_meta.hexdigest()[..12]));
            }
            if sum_content.hexdigest() != recorded_o {
                bad.push("manifest O != setsum recomputed from all stored entries".to_string());
            }
        }
        let req = format!("ledger total {}", file_digests.join(" "));
        let v = if bad.is_empty() { Verdict::Ok } else { Verdict::Fail { class: taint.clone().unwrap_or_else(|| "books-do-not-balance".to_string()), detail: format!("{} {}", tag, bad.join("; ")) } };
        rec.count("state_checks");
        rec.case(&req, &recorded_o, tainted(v, &taint), if file_digests.len() >= 2 { Some(fnv(req.as_bytes())) } else { None });
        // --- every fragment: chain, balance, verifier verdict; model verdict
        let mut prev_last_o: Option<String> = None;
        for (fi, f) in frags.iter().enumerate() {
            let edits = match read_fragment(f) {
                Ok(e) => e,
                Err(e) => {
                    rec.case(&format!("# {} fragment {}", tag, fi), "#", Verdict::Fail { class: taint.clone().unwrap_or_else(|| "fragment-unreadable".to_string()), detail: e }, None);
                    continue;
                }
            };
            if edits.is_empty() {
                continue;
            }
            let mut fbad = vec![];
            if let (Some(p), Some(o)) = (&prev_last_o, &edits[0].o) {
                if p != o {
                    fbad.push(format!("fragment {} does not start from the previous fragment's output", fi));
                }
            }
            prev_last_o = edits.last().and_then(|e| e.o.clone());
            let is_newest = fi + 1 == frags.len();
            // completed fragments never change again: check each once; the newest every time
            let key = format!("{}:{}", f.display(), edits.len());
            if !is_newest && seen_fragments.contains(&key) {
                continue;
            }
            seen_fragments.insert(key);
            let real = mverifier.verify(f);
            let cls = verdict_class(&real);
            if cls != "accept" {
                fbad.push(format!("ManifestVerifier rejects store-written fragment {}: {}", fi, cls));
            }
            if let Some(req) = ledger_request(&edits) {
                let v = if fbad.is_empty() { Verdict::Ok } else { Verdict::Fail { class: taint.clone().unwrap_or_else(|| "books-do-not-balance".to_string()), detail: format!("{} {}", tag, fbad.join("; ")) } };
                rec.count("fragments_verified");
                rec.add("edits_verified", edits.len() as u64 - 1);
                let kinds = edits[1..].iter().filter(|e| !e.rmed.is_empty() && e.d.as_deref() != Some(&setsum::Setsum::default().hexdigest())).count();
                rec.add("gc_edits", kinds as u64);
                rec.case(&req, &cls, tainted(v, &taint), if edits.len() >= 3 { Some(fnv(req.as_bytes())) } else { None });
                // --- tamper stream on this fragment
                if edits.len() >= 2 {
                    for _ in 0..tampers {
                        let mut t = edits.clone();
                        let ei = rng.range(1, t.len() as u64 - 1) as usize;
                        let what = rng.below(5);
                        let e = &mut t[ei];
                        let kind = match what {
                            0 => {
                                e.i = e.i.as_ref().map(|s| flip_hex_digit(&mut rng, s));
                                "I"
                            }
                            1 => {
                                e.o = e.o.as_ref().map(|s| flip_hex_digit(&mut rng, s));
                                "O"
                            }
                            2 => {
                                e.d = e.d.as_ref().map(|s| flip_hex_digit(&mut rng, s));
                                "D"
                            }
                            3 if !e.added.is_empty() => {
                                let k = rng.below(e.added.len() as u64) as usize;
                                e.added[k] = flip_hex_digit(&mut rng, &e.added[k]);
                                "added"
                            }
                            _ if !e.rmed.is_empty() => {
                                let k = rng.below(e.rmed.len() as u64) as usize;
                                e.rmed[k] = flip_hex_digit(&mut rng, &e.rmed[k]);
                                "rmed"
                            }
                            _ => {
                                e.d = e.d.as_ref().map(|s| flip_hex_digit(&mut rng, s));
                                "D"
                            }
                        };
                        let tpath = PathBuf::from(format!("{}/tampered.manifest", root));
                        write_fragment(&tpath, &t);
                        let real = mverifier.verify(&tpath);
                        let cls = verdict_class(&real);
                        let _ = std::fs::remove_file(&tpath);
                        let req = ledger_request(&t).unwrap();
                        rec.count(&format!("tamper.{}", kind));
                        let v = if cls == "accept" { Verdict::Fail { class: "tampered-digest-accepted".into(), detail: format!("{} edit {} field {}", tag, ei, kind) } } else { Verdict::Ok };
                        rec.case(&req, &cls, v, Some(fnv(req.as_bytes())));
                    }
                }
            }
        }
        let _ = strip_pos;
    }
    rec.add("flushes", sim.flushes);
    rec.add("compactions", sim.compactions);
    rec.add("reopens", sim.reopens);
    sim.close();
}

pub fn run(args: &Args) {
    let mut rec = Recorder::new(&args.out, args.only_case);
    let (nh, len, tampers) = if args.thorough { (300, 100, 3) } else { (60, 50, 2) };
    for h in 0..nh {
        let nkeys = if h % 3 == 0 { 4 } else if h % 3 == 1 { 7 } else { 12 };
        run_history(&mut rec, args.seed, h, len, nkeys, tampers);
    }
    rec.finish(
        "store histories as in C01; after every manifest transaction (flush, compaction step, reopen) and a third of the writes: books of the current state (manifest O vs sum of listed SST setsums vs setsums recomputed from stored entries), every manifest fragment's chain/balance/discard through the real ManifestVerifier and through Blue.Books.verify over the canonical-setsum group, and tampered copies of fragments with one hex digit of one recorded digest (I, O, D, added, removed) changed; non-trivial = a state with >= 2 files, a fragment with >= 2 transactions, any tampered fragment; distinct by request",
        &[],
    );
}
